"""Model objects for interpreting the data-independent control code of the encoder.

None of them carries user data: a segment is (mode, is-default-encoding, number of payload bits,
character count); a buffer only counts/records the bits appended to it."""
from .. import ev, iso
from ..interp import Interp, FuncVal, callable_env
from ..src import Unknown
from ..ev import PyRaise


class BufModel:
    _model = ('append_bits', 'extend', 'getbits', 'toints')

    def __init__(self, n=0):
        self.bits = [7] * n
        self.appends = []       # (value, width) of append_bits calls, ('extend', n) of extends

    def append_bits(self, val, length):
        if not isinstance(length, int):
            raise Unknown('append_bits with a non-constant width')
        self.appends.append((val, length))
        if isinstance(val, int) and not isinstance(val, bool):
            self.bits.extend((val >> i) & 1 for i in reversed(range(length)))
        else:
            self.bits.extend([('b', val)] * length)

    def extend(self, it):
        items = list(it)
        self.appends.append(('extend', len(items)))
        self.bits.extend(items)

    def getbits(self):
        return self.bits

    def __len__(self):
        return len(self.bits)


class SegModel(tuple):
    """(bits, char_count, mode, encoding) like encoder._Segment; bits is an opaque list of length nbits."""
    _model = ('bits', 'char_count', 'mode', 'encoding')

    def __new__(cls, mode, encoding, nbits=13, char_count=1):
        return tuple.__new__(cls, ([9] * nbits, char_count, mode, encoding))

    bits = property(lambda s: s[0])
    char_count = property(lambda s: s[1])
    mode = property(lambda s: s[2])
    encoding = property(lambda s: s[3])


class _AnyAttr:
    def __contains__(self, name):
        return True


class SegmentsModel:
    """A Segments object whose bit count is prescribed by the rule.  Anything else the code under analysis asks of it (private
    helper methods a refactoring may have added to the class) is taken from the repository's own `Segments` class, bound to
    this object."""
    _model = _AnyAttr()
    _binding = None         # (forest, genv, interp) of the environment built last (encoder_env)

    def __getattr__(self, name):
        if name.startswith('__'):
            raise AttributeError(name)
        b = SegmentsModel._binding
        if b is not None:
            forest, genv, it = b
            if forest.has_func('encoder', f'Segments.{name}'):
                fn = forest.func('encoder', f'Segments.{name}')
                fv = FuncVal(fn, genv, it)
                decos = [d.id if hasattr(d, 'id') else getattr(d, 'attr', None) for d in fn.decorator_list]
                if 'property' in decos:
                    return fv(self)
                if 'staticmethod' in decos:
                    return fv
                return lambda *a, **k: fv(self, *a, **k)
        raise ev.PyRaise(AttributeError, None, f"'Segments' object has no attribute {name!r}")

    def __init__(self, segs, blwo=None):
        self.segments = list(segs)
        self.modes = [s.mode for s in segs]
        self.bit_length = sum(len(s.bits) for s in segs)
        self._blwo = blwo
        self.blwo_calls = []

    def bit_length_with_overhead(self, version, eci='<not passed>', is_sa=False):
        self.blwo_calls.append((version, eci, is_sa))
        if self._blwo is None:
            raise Unknown('bit_length_with_overhead model not configured')
        return self._blwo(version, eci, is_sa)

    def __len__(self):
        return len(self.segments)

    def __iter__(self):
        return iter(self.segments)

    def __getitem__(self, i):
        return self.segments[i]


def encoder_env(forest, interp, **over):
    genv = callable_env(forest, 'encoder', interp, dict(over))
    SegmentsModel._binding = (forest, genv, interp)
    return genv


def method(forest, interp, genv, cls, name):
    return FuncVal(forest.func('encoder', f'{cls}.{name}'), genv, interp)


class SAModel(tuple):
    """encoder._StructuredAppendInfo as its __new__ and its four accessors define it (checked by C08.R3)."""
    _model = ('parity', 'number', 'total', 'mode')
    mode = property(lambda s: s[0])
    number = property(lambda s: s[1])
    total = property(lambda s: s[2])
    parity = property(lambda s: s[3])


def trace_encode(fx, version, level, boosted, mask_in=None, eci=False, sa_info=None, boost_error=True, nsegs=1, segments=None,
                 real_write_segment=False, extra=None, real=()):
    """Interpret encoder._encode with every stage replaced by a recording stand-in.  Returns the list of
    (stage name, positional args, keyword args, len of the bit buffer at the call) and the value returned.

    The stand-ins hand on marker objects ('M0' the fresh matrix, 'M1' the masked one, 'FINAL' the final message) and
    the pad helpers append bits, so that the order of the stages, the objects passed from stage to stage and a stale
    length are all visible in the trace."""
    from .common import levels as _levels, modes as _modes
    lv, md = _levels(fx), _modes(fx)
    rec = []
    bufs = []

    class B(BufModel):
        def __init__(self):
            BufModel.__init__(self, 0)
            bufs.append(self)

    from .. import src as _src

    def stage(name, result=None, grow=0):
        try:
            pnames = _src.all_params(fx.fn('encoder', name))
        except Exception:
            pnames = []

        def f(*a, **k):
            # keyword arguments are put where the stage's own signature has them: what matters is which value reaches which
            # parameter, not how the call is spelt
            a, k = list(a), dict(k)
            for p_ in pnames[len(a):]:
                if p_ in k:
                    a.append(k.pop(p_))
                else:
                    break
            a = tuple(a)
            buf = next((x for x in a if isinstance(x, B)), None)
            rec.append((name, a, k, len(buf) if buf is not None else None))
            if buf is not None and grow:
                buf.bits.extend([0] * grow)
            return result(*a, **k) if callable(result) else result
        return f
    it = Interp(max_steps=2_000_000)
    M0, M1 = ['M0'], ('M1',)
    over = dict(extra or {})
    if not real_write_segment:
        over['write_segment'] = stage('write_segment', grow=37)
    if 'boost_error_level' not in real:
        over['boost_error_level'] = stage('boost_error_level', None if boosted is None else lv[boosted])
    genv = encoder_env(
        fx.forest, it, Buffer=B, **over,
        write_terminator=stage('write_terminator', grow=3), write_padding_bits=stage('write_padding_bits', grow=5),
        write_pad_codewords=stage('write_pad_codewords', grow=16), make_final_message=stage('make_final_message', 'FINAL'),
        make_matrix=stage('make_matrix', M0), add_finder_patterns=stage('add_finder_patterns'), add_alignment_patterns=stage('add_alignment_patterns'),
        add_codewords=stage('add_codewords'), find_and_apply_best_mask=stage('find_and_apply_best_mask', (5, M1)),
        add_format_info=stage('add_format_info'), add_version_info=stage('add_version_info'),
        Code=stage('Code', lambda *a, **k: ('CODE',) + a))
    segs = segments if segments is not None else SegmentsModel([SegModel(md['byte'], 'iso-8859-1') for _ in range(nsegs)])
    have = _src.all_params(fx.fn('encoder', '_encode'))
    if have != ['segments', 'error', 'version', 'mask', 'eci', 'boost_error', 'sa_info']:
        raise Unknown(f'_encode has another interface than the rules drive it through: {have}')
    if isinstance(sa_info, SAModel):
        # the Structured Append information as the repository's own class builds it from (number, total, parity)
        cls_ = genv.get('_StructuredAppendInfo')
        if cls_ is None or isinstance(cls_, FuncVal) or not callable(cls_):
            raise Unknown('no class _StructuredAppendInfo: the internal interface changed')
        try:
            sa_info = cls_(number=sa_info[1], total=sa_info[2], parity=sa_info[3])
        except PyRaise as ex:
            raise Unknown(f'_StructuredAppendInfo(number=, total=, parity=) raises {ex.name}: the internal interface changed')
    res = FuncVal(fx.fn('encoder', '_encode'), genv, it).call_in_order(segs, None if level is None else lv[level], version, mask_in, eci, boost_error, sa_info)
    return rec, res, dict(buffers=bufs, segments=segs, M0=M0, M1=M1, genv=genv, interp=it)
