"""Model objects for interpreting the data-independent control code of the encoder.

None of them carries user data: a segment is (mode, is-default-encoding, number of payload bits,
character count); a buffer only counts/records the bits appended to it."""
from .. import ev, iso
from ..interp import Interp, FuncVal, callable_env
from ..src import Unknown


class BufModel:
    _model = ('append_bits', 'extend', 'getbits', 'toints')

    def __init__(self, n=0):
        self.bits = [7] * n
        self.appends = []       # (value, width) of append_bits calls, ('extend', n) of extends

    def append_bits(self, val, length):
        if not isinstance(length, int):
            raise Unknown('append_bits with a non-constant width')
        self.appends.append((val, length))
        self.bits.extend([('b', val)] * length)

    def extend(self, it):
        items = list(it)
        self.appends.append(('extend', len(items)))
        self.bits.extend(items)

    def getbits(self):
        return self.bits

    def __len__(self):
        return len(self.bits)


class SegModel(tuple):
    """(bits, char_count, mode, encoding) like encoder._Segment; bits is an opaque list of length nbits."""
    _model = ('bits', 'char_count', 'mode', 'encoding')

    def __new__(cls, mode, encoding, nbits=13, char_count=1):
        return tuple.__new__(cls, ([9] * nbits, char_count, mode, encoding))

    bits = property(lambda s: s[0])
    char_count = property(lambda s: s[1])
    mode = property(lambda s: s[2])
    encoding = property(lambda s: s[3])


class SegmentsModel:
    _model = ('segments', 'modes', 'bit_length', 'bit_length_with_overhead')

    def __init__(self, segs, blwo=None):
        self.segments = list(segs)
        self.modes = [s.mode for s in segs]
        self.bit_length = sum(len(s.bits) for s in segs)
        self._blwo = blwo
        self.blwo_calls = []

    def bit_length_with_overhead(self, version, eci='<not passed>', is_sa=False):
        self.blwo_calls.append((version, eci, is_sa))
        if self._blwo is None:
            raise Unknown('bit_length_with_overhead model not configured')
        return self._blwo(version, eci, is_sa)

    def __len__(self):
        return len(self.segments)

    def __iter__(self):
        return iter(self.segments)

    def __getitem__(self, i):
        return self.segments[i]


def encoder_env(forest, interp, **over):
    genv = callable_env(forest, 'encoder', interp)
    genv.update(over)
    return genv


def method(forest, interp, genv, cls, name):
    return FuncVal(forest.func('encoder', f'{cls}.{name}'), genv, interp)


class SAModel(tuple):
    """encoder._StructuredAppendInfo as its __new__ and its four accessors define it (checked by C08.R3)."""
    _model = ('parity', 'number', 'total', 'mode')
    mode = property(lambda s: s[0])
    number = property(lambda s: s[1])
    total = property(lambda s: s[2])
    parity = property(lambda s: s[3])
