"""Model objects for interpreting the data-independent control code of the encoder.

None of them carries user data: a segment is (mode, is-default-encoding, number of payload bits,
character count); a buffer only counts/records the bits appended to it."""
import ast

from .. import ev, iso
from ..interp import Interp, FuncVal, callable_env
from ..src import Unknown
from ..ev import PyRaise


class BufModel:
    _model = ('append_bits', 'extend', 'getbits', 'toints')

    def __init__(self, n=0):
        self.bits = [7] * n
        self.appends = []       # (value, width) of append_bits calls, ('extend', n) of extends

    def append_bits(self, val, length):
        if not isinstance(length, int):
            raise Unknown('append_bits with a non-constant width')
        self.appends.append((val, length))
        if isinstance(val, int) and not isinstance(val, bool):
            self.bits.extend((val >> i) & 1 for i in reversed(range(length)))
        else:
            self.bits.extend([('b', val)] * length)

    def extend(self, it):
        items = list(it)
        self.appends.append(('extend', len(items)))
        self.bits.extend(items)

    def getbits(self):
        return self.bits

    def __len__(self):
        return len(self.bits)


class SegModel(tuple):
    """(bits, char_count, mode, encoding) like encoder._Segment; bits is an opaque list of length nbits."""
    _model = ('bits', 'char_count', 'mode', 'encoding')

    def __new__(cls, mode, encoding, nbits=13, char_count=1):
        return tuple.__new__(cls, ([9] * nbits, char_count, mode, encoding))

    bits = property(lambda s: s[0])
    char_count = property(lambda s: s[1])
    mode = property(lambda s: s[2])
    encoding = property(lambda s: s[3])


class _AnyAttr:
    def __contains__(self, name):
        return True


class SegmentsModel:
    """A Segments object whose bit count is prescribed by the rule.  Anything else the code under analysis asks of it (private
    helper methods a refactoring may have added to the class) is taken from the repository's own `Segments` class, bound to
    this object."""
    _model = _AnyAttr()
    _binding = None         # (forest, genv, interp) of the environment built last (encoder_env)

    def __getattr__(self, name):
        if name.startswith('__'):
            raise AttributeError(name)
        b = SegmentsModel._binding
        if b is not None:
            forest, genv, it = b
            if forest.has_func('encoder', f'Segments.{name}'):
                fn = forest.func('encoder', f'Segments.{name}')
                fv = FuncVal(fn, genv, it)
                decos = [d.id if hasattr(d, 'id') else getattr(d, 'attr', None) for d in fn.decorator_list]
                if 'property' in decos:
                    return fv(self)
                if 'staticmethod' in decos:
                    return fv
                return lambda *a, **k: fv(self, *a, **k)
        raise ev.PyRaise(AttributeError, None, f"'Segments' object has no attribute {name!r}")

    def __init__(self, segs, blwo=None):
        self.segments = list(segs)
        self.modes = [s.mode for s in segs]
        self.bit_length = sum(len(s.bits) for s in segs)
        self._blwo = blwo
        self.blwo_calls = []

    def bit_length_with_overhead(self, version, eci='<not passed>', is_sa=False):
        self.blwo_calls.append((version, eci, is_sa))
        if self._blwo is None:
            raise Unknown('bit_length_with_overhead model not configured')
        return self._blwo(version, eci, is_sa)

    def __len__(self):
        return len(self.segments)

    def __iter__(self):
        return iter(self.segments)

    def __getitem__(self, i):
        return self.segments[i]


def encoder_env(forest, interp, **over):
    genv = callable_env(forest, 'encoder', interp, dict(over))
    SegmentsModel._binding = (forest, genv, interp)
    return genv


def method(forest, interp, genv, cls, name):
    return FuncVal(forest.func('encoder', f'{cls}.{name}'), genv, interp)


BUFFER_STAGES = ('write_segment', 'write_terminator', 'write_padding_bits', 'write_pad_codewords')


def stage_policy(fx, name):
    """How a stand-in for stage `name` answers its caller.  In the reference tree the buffer writers and the pattern writers
    return nothing.  Where a reorganised stage hands something back, the stand-in has to do so as well: one of its own
    arguments is handed back as it is; a computed value of a buffer writer comes from the repository's own stage, run on
    the model buffer ('real'); anything else cannot be modelled."""
    import ast as _ast
    from .. import src as _src
    try:
        fn = fx.fn('encoder', name)
    except Unknown:
        return 'stub'
    rets = [n for n in _src.walk_local(fn) if isinstance(n, _ast.Return) and n.value is not None
            and not (isinstance(n.value, _ast.Constant) and n.value.value is None)]
    if not rets:
        return 'stub'
    params = _src.all_params(fn)
    if all(isinstance(r.value, _ast.Name) and r.value.id in params for r in rets) and len({r.value.id for r in rets}) == 1:
        return ('param', params.index(rets[0].value.id))
    if name in BUFFER_STAGES:
        return 'real'
    raise Unknown(f'{name} hands back a value its stand-in cannot model')


class SAModel(tuple):
    """encoder._StructuredAppendInfo as its __new__ and its four accessors define it (checked by C08.R3)."""
    _model = ('parity', 'number', 'total', 'mode')
    mode = property(lambda s: s[0])
    number = property(lambda s: s[1])
    total = property(lambda s: s[2])
    parity = property(lambda s: s[3])


def make_sa_info(fx, cls_, number, total, parity):
    """The Structured Append information as the repository's own class builds it from (number, total, parity); a class that takes
    the mode indicator as a field of its own gets the Structured Append indicator."""
    from .. import src as _src
    sa_kw = dict(number=number, total=total, parity=parity)
    try:
        cnode = fx.forest.cls('encoder', '_StructuredAppendInfo')
        fields_ = [st_.target.id for st_ in cnode.body if isinstance(st_, ast.AnnAssign) and isinstance(st_.target, ast.Name)]
        newf = [st_ for st_ in cnode.body if isinstance(st_, ast.FunctionDef) and st_.name in ('__new__', '__init__')]
        params_ = _src.all_params(newf[0])[1:] if newf else fields_
    except Unknown:
        params_ = []
    if 'mode' in params_:
        sa_kw['mode'] = ev.module_consts(fx.forest, 'consts').get('MODE_STRUCTURED_APPEND')
    try:
        return cls_(**sa_kw)
    except (PyRaise, TypeError) as ex:
        raise Unknown(f'_StructuredAppendInfo({", ".join(sa_kw)}) raises {getattr(ex, "name", type(ex).__name__)}: the internal interface changed')


def trace_encode(fx, version, level, boosted, mask_in=None, eci=False, sa_info=None, boost_error=True, nsegs=1, segments=None,
                 real_write_segment=False, extra=None, real=(), run_real=()):
    """Interpret encoder._encode with every stage replaced by a recording stand-in.  Returns the list of
    (stage name, positional args, keyword args, len of the bit buffer at the call) and the value returned.

    The stand-ins hand on marker objects ('M0' the fresh matrix, 'M1' the masked one, 'FINAL' the final message) and
    the pad helpers append bits, so that the order of the stages, the objects passed from stage to stage and a stale
    length are all visible in the trace."""
    from .common import levels as _levels, modes as _modes, micro_versions as _micro
    lv, md = _levels(fx), _modes(fx)
    _mvs = _micro(fx)
    rec = []
    bufs = []

    class B(BufModel):
        def __init__(self):
            BufModel.__init__(self, 0)
            bufs.append(self)

    from .. import src as _src

    def stage(name, result=None, grow=0):
        try:
            pnames = _src.all_params(fx.fn('encoder', name))
        except Exception:
            pnames = []

        def f(*a, **k):
            # keyword arguments are put where the stage's own signature has them: what matters is which value reaches which
            # parameter, not how the call is spelt
            a, k = list(a), dict(k)
            a0, k0 = tuple(a), dict(k)
            for p_ in pnames[len(a):]:
                if p_ in k:
                    a.append(k.pop(p_))
                else:
                    break
            a = tuple(a)
            # recorded as the reference signature sees the call: a parameter the reference does not have is dropped when it is
            # handed its default, and shows up among the keywords otherwise
            from .. import refsig
            if refsig.ref_signature('encoder', name) is not None:
                a, k_rest, k_extra = refsig.reference_view(fx.forest, 'encoder', name, a0, k0)
                k = dict(k_rest, **{f'<new parameter {x_}>': v_ for x_, v_ in k_extra.items()})
            buf = next((x for x in list(a0) + list(k0.values()) if isinstance(x, B)), None)
            rec.append((name, a, k, len(buf) if buf is not None else None))
            if name in run_real or (policy == 'real' and result is None):
                # recorded, then the repository's own stage runs on the bit buffer (its return value may be used by the caller)
                return FuncVal(fx.fn('encoder', name), genv_box[0], it)(*a0, **k0)
            if buf is not None and grow:
                buf.bits.extend([0] * grow)
            if isinstance(policy, tuple) and result is None:
                return a[policy[1]] if policy[1] < len(a) else None
            return result(*a, **k) if callable(result) else result
        policy = stage_policy(fx, name) if name in BUFFER_STAGES + ('add_finder_patterns', 'add_alignment_patterns', 'add_codewords', 'add_format_info', 'add_version_info') else 'stub'
        return f
    it = Interp(max_steps=2_000_000)
    genv_box = [None]
    M0, M1 = ['M0'], ('M1',)
    over = dict(extra or {})
    # a level booster with another interface than (version, error, segments, eci, is_sa) -> level: its stand-in cannot answer for
    # it.  The repository's own booster then runs (recorded), on a Segments model that needs exactly the capacity of the level the
    # rule wants it to arrive at.
    boost_by_model = None
    try:
        bpar = _src.all_params(fx.fn('encoder', 'boost_error_level'))
    except Unknown:
        bpar = None
    ref_b = ['version', 'error', 'segments', 'eci', 'is_sa']
    if bpar is not None and bpar[:5] == ref_b and len(bpar) > 5:
        # the booster has gained optional parameters: the stand-in (tolerant of parameters handed their default) still answers
        try:
            bfn = fx.fn('encoder', 'boost_error_level')
            if all(p_ in _src.param_defaults(bfn) for p_ in bpar[5:]):
                bpar = ref_b
        except Unknown:
            pass
    if bpar != ref_b and 'boost_error_level' not in real and boost_error:
        if segments is not None and not isinstance(segments, SegmentsModel):
            raise Unknown(f'boost_error_level has another interface than the rules stand in for: {bpar}')
        cap_tab = ev.module_consts(fx.forest, 'consts').get('SYMBOL_CAPACITY')
        boost_by_model = cap_tab[version][None if boosted is None else lv[boosted]]
        run_real = tuple(run_real) + ('boost_error_level',)
    if not real_write_segment:
        over['write_segment'] = stage('write_segment', grow=37)
    elif 'write_segment' in run_real:
        over['write_segment'] = stage('write_segment')
    if 'boost_error_level' not in real:
        over['boost_error_level'] = stage('boost_error_level', None if boosted is None else lv[boosted]) if boost_by_model is None else stage('boost_error_level', 0)
    genv_over = dict(
        Buffer=B,
        write_terminator=stage('write_terminator', grow=3), write_padding_bits=stage('write_padding_bits', grow=5),
        write_pad_codewords=stage('write_pad_codewords', grow=16), make_final_message=stage('make_final_message', 'FINAL'),
        make_matrix=stage('make_matrix', M0), add_finder_patterns=stage('add_finder_patterns'), add_alignment_patterns=stage('add_alignment_patterns'),
        add_codewords=stage('add_codewords'), find_and_apply_best_mask=stage('find_and_apply_best_mask', (5, M1)),
        add_format_info=stage('add_format_info'), add_version_info=stage('add_version_info'),
        Code=stage('Code', lambda *a, **k: ('CODE',) + a))
    for n_ in real:
        genv_over.pop(n_, None)         # the repository's own stage runs (not recorded)
    genv_over.update(over)
    genv = encoder_env(fx.forest, it, **genv_over)
    genv_box[0] = genv
    if segments is None and any(stage_policy(fx, n_) == 'real' for n_ in BUFFER_STAGES) and version in (_mvs.get(-3), _mvs.get(-2)):
        # the repository's own segment writer runs: M1 / M2 know no byte mode
        segs = SegmentsModel([SegModel(md['numeric'], None) for _ in range(nsegs)])
    else:
        segs = segments if segments is not None else SegmentsModel([SegModel(md['byte'], 'iso-8859-1') for _ in range(nsegs)])
    if boost_by_model is not None:
        segs._blwo = lambda version_, eci_='<not passed>', is_sa_=False, _n=boost_by_model: _n
    try:
        have = _src.all_params(fx.fn('encoder', '_encode'))
    except Unknown:
        have = None
    if have != ['segments', 'error', 'version', 'mask', 'eci', 'boost_error', 'sa_info']:
        one_seg = None
        if segments is not None:
            try:
                one_seg = list(segments.segments)
            except Exception:
                one_seg = None
        if sa_info is not None and ((segments is not None and (one_seg is None or len(one_seg) != 1)) or nsegs != 1 or real):
            raise Unknown(f'_encode has another interface than the rules drive it through: {have} (and the Structured Append information cannot be handed in from outside)')
        if sa_info is not None:
            return _trace_sequence_symbol(fx, it, version, level, boosted, mask_in, eci, sa_info, boost_error, lv, md,
                                          segment=one_seg[0] if one_seg else None, real_write_segment=real_write_segment, extra=extra)
        # The private entry point was reorganised.  The same symbol is requested through the public entry point `encode`, with
        # segment construction and version search replaced by stand-ins that hand in the rule's segments and version, and
        # the normalisers (decided by C14) replaced by the identity.
        found = []

        def prepare_data(content, mode, encoding):
            return segs

        def find_version(segments, error, eci=False, micro=None, is_sa=False):
            found.append((segments, error, eci, micro, is_sa))
            return version
        genv2 = genv_box[0] = encoder_env(fx.forest, it, **dict(genv_over, prepare_data=prepare_data, find_version=find_version,
                                                   normalize_version=lambda version: version, normalize_errorlevel=lambda error, accept_none=False: error,
                                                   normalize_mask=lambda mask, is_micro=None: mask, normalize_mode=lambda mode: mode))
        res = FuncVal(fx.fn('encoder', 'encode'), genv2, it)('<content>', error=None if level is None else lv[level], version=version, mask=mask_in, eci=eci,
                                                             boost_error=boost_error)
        return rec, res, dict(buffers=bufs, segments=segs, M0=M0, M1=M1, genv=genv2, interp=it, via='encode')
    if isinstance(sa_info, SAModel):
        # the Structured Append information as the repository's own class builds it from (number, total, parity)
        cls_ = genv.get('_StructuredAppendInfo')
        if cls_ is None or isinstance(cls_, FuncVal) or not callable(cls_):
            raise Unknown('no class _StructuredAppendInfo: the internal interface changed')
        sa_info = make_sa_info(fx, cls_, sa_info[1], sa_info[2], sa_info[3])
    res = FuncVal(fx.fn('encoder', '_encode'), genv, it).call_in_order(segs, None if level is None else lv[level], version, mask_in, eci, boost_error, sa_info)
    return rec, res, dict(buffers=bufs, segments=segs, M0=M0, M1=M1, genv=genv, interp=it)


def _trace_sequence_symbol(fx, it, version, level, boosted, mask_in, eci, sa_info, boost_error, lv, md, segment=None, real_write_segment=False,
                           extra=None):
    """trace_encode for a Structured Append symbol when `_encode` was reorganised: the symbol number sa_info.number of a sequence
    of sa_info.total + 1 symbols is requested through `encode_sequence` (segment construction, version search and parity
    replaced by stand-ins, the normalisers by the identity) and observed at the leaf stages."""
    number, total, parity = sa_info[1], sa_info[2], sa_info[3]
    trace = SymbolTrace(fx, boost=(lambda e_, v_: lv[boosted]) if boosted is not None else None,
                        code_result=lambda n_, sym_: ('CODE',) + tuple(sym_['code'][k_] for k_ in ('matrix', 'version', 'error', 'mask', 'segments')))

    def make_segment(chunk, mode=None, encoding=None):
        return segment if segment is not None else SegModel(md['byte'], 'iso-8859-1')

    whole = SegmentsModel([segment if segment is not None else SegModel(md['byte'], 'iso-8859-1')])
    env_ = dict(trace.env)
    if real_write_segment:
        env_.pop('write_segment')
        # the repository's own segment writer runs; the trace still needs to know when the first segment is written
        real_ws = []

        def write_segment(*a, **k):
            buf = next((x for x in a if isinstance(x, trace.B)), None)
            trace.calls.append(('write_segment', tuple(a), dict(k), len(buf) if buf is not None else None))
            return FuncVal(fx.fn('encoder', 'write_segment'), trace.genv, it)(*a, **k)
        env_['write_segment'] = write_segment
    env_.update(extra or {})

    def find_version(segments, error, eci=False, micro=None, is_sa=False):
        if segments is whole:       # the message as a whole does not fit one symbol
            import ast as _ast
            from ..interp import Raised
            raise Raised(None, it.exc_class(_ast.parse('DataOverflowError', mode='eval').body, genv), 'overflow')
        return version

    def prepare_data(content, mode, encoding):
        return whole
    genv = trace.bind(encoder_env(fx.forest, it, **dict(env_, make_segment=make_segment, find_version=find_version, prepare_data=prepare_data,
                                              calc_structured_append_parity=lambda content, encoding=None: parity,
                                              normalize_version=lambda version: version, normalize_errorlevel=lambda error, accept_none=False: error,
                                              normalize_mask=lambda mask, is_micro=None: mask, normalize_mode=lambda mode: mode)), it)
    content = ''.join(chr(0x100 + i) for i in range(3 * (total + 1)))
    res = FuncVal(fx.fn('encoder', 'encode_sequence'), genv, it)(content, error=None if level is None else lv[level], mask=mask_in, eci=eci,
                                                                  boost_error=boost_error, symbol_count=total + 1)
    if not isinstance(res, (list, tuple)) or len(res) != total + 1 or len(trace.symbols) != total + 1:
        raise Unknown(f'encode_sequence(symbol_count={total + 1}) built {len(trace.symbols)} symbols')
    sym = trace.symbols[number]
    if sym['problems']:
        raise Unknown('symbol creation could not be traced from stage to stage: ' + '; '.join(sym['problems']))
    return sym['calls'], res[number], dict(buffers=[sym['buffer']], segments=sym['code']['segments'], M0=sym['M0'], M1=sym['code']['matrix'], genv=genv,
                                           interp=it, via='encode_sequence')


class SymbolTrace:
    """Stand-ins for the *leaf* stages of symbol creation (bit buffer, segment writer, level booster, terminator / padding,
    final message, matrix construction, codeword placement, masking, format / version information, Code).  Whatever control
    code sits above them - `_encode`, or helpers a refactoring split it into, called from `encode` or `encode_sequence` - is
    interpreted as it is; every `Code(...)` that is built yields one symbol record, traced back through the objects handed from
    stage to stage (masked matrix <- fresh matrix <- final message <- bit buffer)."""

    def __init__(self, fx, boost=None, mask_result=5, code_result=None, grow_segment=37):
        from .. import src as _src
        self.fx = fx
        self.calls = []          # (stage, args by parameter position, extra keywords, buffer length at the call)
        self.bufs = []
        self.symbols = []
        self.boost = boost       # f(level, version) -> level the booster stand-in returns (None: the level it was given)
        self.genv = self.interp = None      # set by bind(): where a repository stage runs when its stand-in cannot answer for it
        trace = self

        class B(BufModel):
            def __init__(self):
                BufModel.__init__(self, 0)
                trace.bufs.append(self)
        self.B = B

        def stage(name, result=None, grow=0):
            try:
                pnames = _src.all_params(fx.fn('encoder', name))
            except Exception:
                pnames = []

            def f(*a, **k):
                a, k = list(a), dict(k)
                a0, k0 = tuple(a), dict(k)
                for p_ in pnames[len(a):]:
                    if p_ in k:
                        a.append(k.pop(p_))
                    else:
                        break
                a = tuple(a)
                from .. import refsig
                if refsig.ref_signature('encoder', name) is not None:
                    a, k_rest, k_extra = refsig.reference_view(fx.forest, 'encoder', name, a0, k0)
                    k = dict(k_rest, **{f'<new parameter {x_}>': v_ for x_, v_ in k_extra.items()})
                buf = next((x for x in list(a0) + list(k0.values()) if isinstance(x, B)), None)
                entry = (name, a, k, len(buf) if buf is not None else None)
                trace.calls.append(entry)
                if policy == 'real' and result is None:
                    return FuncVal(fx.fn('encoder', name), trace.genv, trace.interp)(*a0, **k0)
                if buf is not None and grow:
                    buf.bits.extend([0] * grow)
                if isinstance(policy, tuple) and result is None:
                    return a[policy[1]] if policy[1] < len(a) else None
                return result(entry, *a, **k) if callable(result) else result
            policy = stage_policy(fx, name) if name in BUFFER_STAGES + ('add_finder_patterns', 'add_alignment_patterns', 'add_codewords', 'add_format_info', 'add_version_info') else 'stub'
            return f
        n = {'final': 0, 'm0': 0, 'm1': 0}

        def final(entry, *a, **k):
            n['final'] += 1
            return ('FINAL', n['final'])

        def fresh(entry, *a, **k):
            n['m0'] += 1
            return ['M0', n['m0']]

        def masked(entry, *a, **k):
            n['m1'] += 1
            return (mask_result, ('M1', n['m1']))

        def boosted(entry, version=None, error=None, *a, **k):
            return error if self.boost is None else self.boost(error, version)

        def code(entry, *a, **k):
            sym = self._symbol(entry)
            self.symbols.append(sym)
            return code_result(len(self.symbols), sym) if code_result else ('CODE', len(self.symbols))
        self.env = dict(
            Buffer=B, write_segment=stage('write_segment', grow=grow_segment), boost_error_level=stage('boost_error_level', boosted),
            write_terminator=stage('write_terminator', grow=3), write_padding_bits=stage('write_padding_bits', grow=5),
            write_pad_codewords=stage('write_pad_codewords', grow=16), make_final_message=stage('make_final_message', final),
            make_matrix=stage('make_matrix', fresh), add_finder_patterns=stage('add_finder_patterns'), add_alignment_patterns=stage('add_alignment_patterns'),
            add_codewords=stage('add_codewords'), find_and_apply_best_mask=stage('find_and_apply_best_mask', masked),
            add_format_info=stage('add_format_info'), add_version_info=stage('add_version_info'), Code=stage('Code', code))

    def bind(self, genv, interp):
        self.genv, self.interp = genv, interp
        return genv

    def _symbol(self, code_entry):
        """The stage calls that belong to the symbol whose Code(...) is `code_entry`."""
        calls = self.calls
        ca = list(code_entry[1]) + [None] * 5
        kw = code_entry[2]
        matrix, version, error, mask, segments = (kw.get(nm, ca[i]) for i, nm in enumerate(('matrix', 'version', 'error', 'mask', 'segments')))
        sym = dict(code=dict(matrix=matrix, version=version, error=error, mask=mask, segments=segments), problems=[])
        # masked matrix <- find_and_apply_best_mask
        masks = [c for c in calls if c[0] == 'find_and_apply_best_mask']
        # the stand-in returned (mask_result, ('M1', k)) for the k-th call
        k = matrix[1] if isinstance(matrix, tuple) and len(matrix) == 2 and matrix[0] == 'M1' else None
        fm = masks[k - 1] if k is not None and 0 < k <= len(masks) else None
        if fm is None:
            sym['problems'].append(f'Code(matrix={matrix!r}): not the masked matrix find_and_apply_best_mask returned')
            return sym
        m0 = fm[1][0] if fm[1] else None
        sym['mask_requested'] = fm[1][3] if len(fm[1]) > 3 else fm[2].get('proposed_mask')
        sym['mask_dims'] = tuple(fm[1][1:3])
        on_m0 = [c for c in calls if c[1] and c[1][0] is m0 and c[0] != 'find_and_apply_best_mask']
        sym['matrix_stages'] = [c[0] for c in on_m0]
        mk = [c for c in calls if c[0] == 'make_matrix']
        j = m0[1] if isinstance(m0, list) and len(m0) == 2 and m0[0] == 'M0' else None
        sym['matrix_size'] = tuple(mk[j - 1][1][:2]) if j is not None and 0 < j <= len(mk) else None
        on_m1 = [c for c in calls if c[1] and c[1][0] == matrix and c[0] in ('add_format_info', 'add_version_info')]
        # version information written before masking is on the matrix that is then masked (its area is not part of the encoding region)
        on_m1 += [c for c in on_m0 if c[0] == 'add_version_info']
        for c in on_m1:
            if c[0] == 'add_format_info':
                sym['format'] = dict(version=c[1][1] if len(c[1]) > 1 else None, error=c[1][2] if len(c[1]) > 2 else None, mask=c[1][3] if len(c[1]) > 3 else None)
            else:
                sym['version_info'] = c[1][1] if len(c[1]) > 1 else None
        sym['format_calls'] = len([c for c in on_m1 if c[0] == 'add_format_info'])
        ac = [c for c in on_m0 if c[0] == 'add_codewords']
        if len(ac) != 1:
            sym['problems'].append(f'{len(ac)} x add_codewords on the matrix of this symbol')
            return sym
        final_obj = ac[0][1][1] if len(ac[0][1]) > 1 else None
        sym['placed_version'] = ac[0][1][2] if len(ac[0][1]) > 2 else None
        fms = [c for c in calls if c[0] == 'make_final_message']
        i = final_obj[1] if isinstance(final_obj, tuple) and len(final_obj) == 2 and final_obj[0] == 'FINAL' else None
        mf = fms[i - 1] if i is not None and 0 < i <= len(fms) else None
        if mf is None:
            sym['problems'].append(f'add_codewords places {final_obj!r}: not what make_final_message returned')
            return sym
        sym['final'] = dict(version=mf[1][0] if mf[1] else None, error=mf[1][1] if len(mf[1]) > 1 else None)
        buf = mf[1][2] if len(mf[1]) > 2 else None
        if not isinstance(buf, self.B):
            sym['problems'].append('make_final_message is not given the bit buffer')
            return sym
        sym['buffer'] = buf
        on_buf = [c for c in calls if any(x is buf for x in c[1])]
        sym['buffer_stages'] = [c[0] for c in on_buf]
        ws = [c for c in on_buf if c[0] == 'write_segment']
        sym['written'] = [c[1][1] if len(c[1]) > 1 else None for c in ws]
        sym['eci'] = sorted({bool(c[1][4]) if len(c[1]) > 4 else False for c in ws}, key=int)
        nhdr = ws[0][3] if ws else len(buf.bits)
        sym['header_bits'] = list(buf.bits[:nhdr])
        # the booster call for this symbol: the one between the previous final message and this one
        pos = calls.index(mf)
        prev = max([calls.index(c) for c in fms if calls.index(c) < pos], default=-1)
        # ... or, wherever it was made, the one that was asked about the Segments object of this symbol
        by_object = [c for c in calls[:pos] if c[0] == 'boost_error_level' and segments is not None
                     and any(x is segments for x in list(c[1]) + list(c[2].values()))]
        bo = by_object if by_object else [c for c in calls[prev + 1:pos] if c[0] == 'boost_error_level']
        if len(bo) > 1:
            sym['problems'].append(f'{len(bo)} x boost_error_level for one symbol')
        mine = on_buf + on_m0 + on_m1 + [fm, mf, code_entry] + bo[:1] + ([mk[j - 1]] if j is not None and 0 < j <= len(mk) else [])
        seen_ids = set()
        sym['calls'] = [c for c in calls if any(c is x for x in mine) and not (id(c) in seen_ids or seen_ids.add(id(c)))]
        sym['M0'] = m0
        sym['boost'] = None
        if bo:
            b = bo[0]
            args = list(b[1]) + [None] * 5
            sym['boost'] = dict(version=args[0], error=args[1], segments=args[2], eci=args[3], is_sa=args[4] if len(b[1]) > 4 else b[2].get('is_sa', False))
        return sym

    def header(self, sym):
        """(mode indicator, number, total, parity) of a 20-bit Structured Append header, None without header, else the bits."""
        bits = sym.get('header_bits', [])
        if not bits:
            return None
        if len(bits) != 20 or any(b not in (0, 1) for b in bits):
            return bits

        def val(bs):
            v = 0
            for b in bs:
                v = v << 1 | b
            return v
        return (val(bits[0:4]), val(bits[4:8]), val(bits[8:12]), val(bits[12:20]))
