"""Shared accessors used by several property modules."""
import ast

from .. import ev, src
from ..core import ob  # noqa: F401
from ..src import Unknown

LEVEL_NAMES = ('L', 'M', 'Q', 'H')
MICRO_NAMES = {-3: 'VERSION_M1', -2: 'VERSION_M2', -1: 'VERSION_M3', 0: 'VERSION_M4'}
MODE_NAMES = {'numeric': 'MODE_NUMERIC', 'alphanumeric': 'MODE_ALPHANUMERIC', 'byte': 'MODE_BYTE',
              'kanji': 'MODE_KANJI', 'hanzi': 'MODE_HANZI', 'eci': 'MODE_ECI',
              'structured_append': 'MODE_STRUCTURED_APPEND'}


def C(fx, name, mod='consts'):
    return ev.const(fx.forest, mod, name)


def levels(fx):
    """{'L': value of consts.ERROR_LEVEL_L, ...}"""
    return {n: C(fx, 'ERROR_LEVEL_' + n) for n in LEVEL_NAMES}


def micro_versions(fx):
    """{-3: value of consts.VERSION_M1, ... 0: VERSION_M4} (iso numbering -> repository constant)."""
    return {k: C(fx, v) for k, v in MICRO_NAMES.items()}


def repo_version(fx, v):
    """iso version number (-3..0, 1..40) -> the repository's constant for it."""
    return micro_versions(fx)[v] if v < 1 else v


def repo_level(fx, lv):
    return None if lv is None else levels(fx)[lv]


def modes(fx):
    return {k: C(fx, v) for k, v in MODE_NAMES.items()}


def where_const(fx, name, mod='consts'):
    """(where, line) of a module-level assignment."""
    for st in fx.forest.mod(mod).body:
        if isinstance(st, ast.Assign) and any(isinstance(t, ast.Name) and t.id == name for t in st.targets):
            return f'{mod}.{name}', st.lineno
    return f'{mod}.{name}', 0


def table_ob(fx, name, key, got, want, mod='consts', note=''):
    wh, ln = where_const(fx, name, mod)
    from ..core import Ob
    return Ob(f'{name}[{key}]', got == want, wh, ln, repr(got), repr(want), True, note)


def need(cond, msg):
    if not cond:
        raise Unknown(msg)


def single(items, what):
    items = list(items)
    if len(items) != 1:
        raise Unknown(f'expected exactly one {what}, found {len(items)}')
    return items[0]


def find_stmts(fn, pred):
    return [st for st in src.statements(fn.body) if pred(st)]


def assigns_to(fn, name):
    out = []
    for st in src.statements(fn.body):
        if isinstance(st, ast.Assign):
            for t in st.targets:
                if isinstance(t, ast.Name) and t.id == name:
                    out.append(st)
        elif isinstance(st, ast.AugAssign) and isinstance(st.target, ast.Name) and st.target.id == name:
            out.append(st)
    return out


def is_name(node, name):
    return isinstance(node, ast.Name) and node.id == name


def is_const(node, value=None):
    return isinstance(node, ast.Constant) and (value is None or node.value == value)


def defining_statements(fn, names, provided=()):
    """Backward slice over the top-level statements of `fn`: the statements that (transitively) define `names`, in source
    order.  Names in `provided` are inputs: their definitions are not followed."""
    needed = set(names)
    picked = []
    for st in reversed(fn.body):
        if isinstance(st, (ast.FunctionDef, ast.AsyncFunctionDef, ast.ClassDef)):
            continue
        stores = {n.id for n in ast.walk(st) if isinstance(n, ast.Name) and isinstance(n.ctx, ast.Store)}
        if stores & set(provided):
            continue        # (re)defines an input: the caller supplies that value
        if stores & needed:
            picked.append(st)
            needed |= {n.id for n in ast.walk(st) if isinstance(n, ast.Name) and isinstance(n.ctx, ast.Load)} - set(provided)
    picked.reverse()
    return picked


def value_at_exit(it, fn, expr, env, provided):
    """Value of `expr` after interpreting the statements of `fn` that define the names it mentions, started from `env`
    (which provides the names in `provided`)."""
    names = {n.id for n in ast.walk(expr) if isinstance(n, ast.Name)} - set(provided)
    e = dict(env)
    it.block(defining_statements(fn, names, provided), e)
    return ev.ev(expr, e)


def need_no_new_helpers(fx, mod, fn):
    """For the rules that compare the *shape* of `fn`: a call of a function that the reference tree does not have (and that
    the canonicaliser could not inline, e.g. a generator or a class) hides part of the shape -- the rule cannot decide."""
    from .. import canon
    inv = canon.inventory().get(mod, {})
    known = set(inv.get('functions', ())) | set(inv.get('names', ())) | set(inv.get('classes', ()))
    tree = fx.forest.mod(mod)
    new = {st.name for st in tree.body if isinstance(st, (ast.FunctionDef, ast.ClassDef)) and st.name not in known}
    new |= {t.id for st in tree.body if isinstance(st, ast.Assign) for t in st.targets if isinstance(t, ast.Name) and t.id not in known}
    used = sorted({n.id for n in ast.walk(fn) if isinstance(n, ast.Name) and n.id in new})
    if used:
        raise Unknown(f'{fn.name} uses {used}, which the reference tree does not have and which could not be folded into it: the shape rule cannot decide')
