"""Rule modules; importing this package registers every rule with core.RULES."""
from . import (p01, p02, p03, p04, p05, p06, p07, p08,  # noqa: F401
               p09, p10, p11, p12, p13, p14, p15, p16)
