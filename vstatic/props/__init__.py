"""Rule modules; importing this package registers every rule with core.RULES."""
from . import (p01, p02, p03, p04, p05, p06, p07, p08,  # noqa: F401
               p09, p10, p11, p12, p13, p14, p15, p16)


def _register_shared():
    from ..core import rule, RULES
    from . import p15

    def make(prop):
        def rs(fx):
            yield from p15.stateless(fx, prop)
        return rs
    for prop in sorted(RULES):
        if prop == 'C15':
            continue
        rule(prop, 'RS', 3, 'statelessness of the anchored functions and their callees: no module-level writes, no memoisation, no mutable defaults')(make(prop))


_register_shared()
