"""C09 -- raster and text outputs."""
import ast
import re
import struct

from .. import ev, iso, nf, pat, src
from ..core import rule, ob, explain, Ob
from ..ev import PyRaise
from ..interp import Interp, make_callable, FuncVal, callable_env
from ..src import Unknown
from .common import C, need, single
from . import p11, p14, render

explain('C09', '''Decided (structural): every raster/text writer takes its rows from matrix_iter / matrix_iter_verbose
(whose (y div s - b, x div s - b) mapping and validation are decided on position-marker matrices, C11.R6) with the same
scale/border it used for the header, and truncates a fractional scale with int() before the header dimensions are computed
(six sized writers); validation dominates the output (C14.R8). PNG: the signature literal, every later write is a chunk,
the chunk function is length | type+data | CRC32(type+data), IHDR carries (width, height, depth, colour type, 0, 0, 0), the
bit depth decision table satisfies colours <= 2^depth for 1..16 colours, the scanline packer packs 8/depth samples per byte
MSB-first with zero fill behind a filter byte for every depth and for every 1-9 sample row of a probe alphabet, border rows
and columns are border*scale wide, repeated rows use filter 2 over zeros. PBM packs 8 pixels per byte MSB-first (all 256
groups), XBM the same bits LSB-first; P1/TXT/XPM write one token per cell. Polarity: for each format the value 1 reaches the
token/colour the format defines as dark (PBM/XBM 1, PAM BLACKANDWHITE 0, PAM colour tuple index, XPM 'X', TXT dark character,
terminal background). The PAM header decision (TUPLTYPE, DEPTH, MAXVAL) is evaluated over all classes of (dark, light) colours;
MAXVAL/PPM maxval equal the 0..255 scale of the samples. NOT decided: byte-exact files for real symbols.''')

SIZED = ('write_png', 'write_ppm', 'write_pbm', 'write_pam', 'write_xpm', 'write_xbm')

# colours used by the decision tables, with the RGBA value the formats must show for them
RGBA = {'#000': (0, 0, 0, 255), 'black': (0, 0, 0, 255), '#fff': (255, 255, 255, 255), '#FFFFFF': (255, 255, 255, 255), 'white': (255, 255, 255, 255),
        'red': (255, 0, 0, 255), 'yellow': (255, 255, 0, 255), 'aliceblue': (240, 248, 255, 255), '#f0f8ff': (240, 248, 255, 255),
        'antiquewhite': (250, 235, 215, 255), '#eee': (238, 238, 238, 255), 'blue': (0, 0, 255, 255), None: (0, 0, 0, 0)}


def rgba(c):
    if isinstance(c, tuple):
        if len(c) == 4 and isinstance(c[3], float):
            return tuple(c[:3]) + (int(round(c[3] * 255)),)      # alpha given as a fraction
        return tuple(c) if len(c) == 4 else tuple(c) + (255,)
    if isinstance(c, str) and c.startswith('#') and len(c) == 9 and c not in RGBA:
        return tuple(int(c[i:i + 2], 16) for i in (1, 3, 5, 7))
    return RGBA[c]


# two colours in all, but a module type on the "wrong" side: a two-colour shortcut over dark / light must not be taken
CROSSED = ({'quiet_zone': '#000'}, {'finder_dark': '#fff', 'finder_light': '#000'}, {'separator': 'black'}, {'dark_module': 'white', 'timing_light': '#000'},
           {'finder_dark': '#fff'}, {'timing_light': '#000'})

CONFIGS = [((21, 21), 1, None), ((21, 21), 2, 0), ((11, 11), 3, None), ((11, 11), 2.7, 1), ((13, 13), 1, 3), ((11, 11), 8, 1)]      # the last one is 104 = 13 * 8 pixels wide


def _rows_asked(rs, scale, border, which='matrix_iter'):
    """The row source was asked once, for the symbol itself, with the (truncated) scale and the border of the header."""
    if len(rs.calls) != 1:
        return f'{len(rs.calls)} row sources opened'
    name, s, b, same = rs.calls[0]
    if name not in ('matrix_iter', 'matrix_iter_verbose'):        # which of the two is the serialiser's business: the picture decides
        return f'rows come from {name}'
    if not same:
        return 'rows of another matrix'
    if s != int(scale) or not isinstance(s, int) or isinstance(s, bool):
        return f'row source asked for scale {s!r} (requested {scale})'
    bb = render.default_border(SIZE_OF[id(rs)]) if border is None else border
    if b is not None and b != bb:
        return f'row source asked for border {b!r}'
    if b is None and border is not None:
        return f'row source asked for the default border, requested {border}'
    return ''


SIZE_OF = {}


def _run(fx, it, writer, size, scale, border, kw=None, typed=None, has_scale=True):
    m = render.pattern(*size)
    kws = dict(kw or {})
    if has_scale:
        kws['scale'] = scale
    kws['border'] = border
    rec, rs, zs = render.run(fx, it, writer, m, size, kw=kws, typed=typed)
    SIZE_OF[id(rs)] = size
    return m, rec, rs, zs


@rule('C09', 'R1', 40, 'PBM (P4/P1), XBM, XPM, TXT, terminal: the decoded picture is the symbol at the requested scale and border, dark = the dark token of the format; header = picture size')
def r1(fx):
    it = Interp(max_steps=50_000_000)
    for size, scale, border in CONFIGS:
        tag = f'size={size[0]} scale={scale} border={border}'
        for plain in (False, True):
            fn = fx.fn('writers', 'write_pbm')
            m, rec, rs, _ = _run(fx, it, 'write_pbm', size, scale, border, kw={'plain': plain})
            want = render.picture(m, size, scale, border)
            try:
                kind, w, h, rows = render.decode_pbm(rec.data())
                why = ('' if kind == ('P1' if plain else 'P4') else f'magic {kind}') or ('' if (w, h) == (len(want[0]), len(want)) else f'header {w}x{h}, picture {len(want[0])}x{len(want)}') \
                    or render.first_diff(rows, want) or _rows_asked(rs, scale, border)
            except render.Bad as ex:
                why = str(ex)
            yield ob(f'PBM plain={plain} {tag}: 1 = dark, 8 pixels per byte MSB first, rows padded to bytes', not why, fn, got=why or 'the symbol', want='the symbol')
        fn = fx.fn('writers', 'write_xbm')
        m, rec, rs, _ = _run(fx, it, 'write_xbm', size, scale, border, kw={'name': 'sym'})
        want = render.picture(m, size, scale, border)
        try:
            names, w, h, rows = render.decode_xbm(rec.text())
            why = ('' if names == {'sym'} else f'names {names}') or ('' if (w, h) == (len(want[0]), len(want)) else f'header {w}x{h}, picture {len(want[0])}x{len(want)}') \
                or render.first_diff(rows, want) or _rows_asked(rs, scale, border)
        except render.Bad as ex:
            why = str(ex)
        yield ob(f'XBM {tag}: 1 = dark, 8 pixels per byte LSB first', not why, fn, got=why or 'the symbol', want='the symbol')
        fn = fx.fn('writers', 'write_xpm')
        for dark, light in (('#000', '#fff'), ('red', None), (None, 'yellow')):
            m, rec, rs, _ = _run(fx, it, 'write_xpm', size, scale, border, kw={'dark': dark, 'light': light, 'name': 'sym'})
            want = render.picture(m, size, scale, border)
            try:
                name, w, h, cpp, colours, rows = render.decode_xpm(rec.text())

                def shown(ch):
                    c = colours.get(ch)
                    if c == 'None':
                        return (0, 0, 0, 0)
                    mm = re.fullmatch(r'#([0-9a-fA-F]{6})', c or '')
                    return tuple(int(mm.group(1)[i:i + 2], 16) for i in (0, 2, 4)) + (255,) if mm else c
                why = ('' if name == 'sym' else f'name {name}') or ('' if (w, h) == (len(want[0]), len(want)) else f'header {w}x{h}, picture {len(want[0])}x{len(want)}') \
                    or ('' if cpp == 1 and len(colours) == 2 else f'{len(colours)} colours, {cpp} characters per pixel') \
                    or render.first_diff([[shown(ch) for ch in r_] for r_ in rows], [[rgba(dark) if v else rgba(light) for v in r_] for r_ in want]) \
                    or _rows_asked(rs, scale, border)
            except render.Bad as ex:
                why = str(ex)
            yield ob(f'XPM dark={dark} light={light} {tag}: every pixel shows the colour of its module', not why, fn, got=why or 'the symbol', want='the symbol')
    for size, border in (((21, 21), None), ((11, 11), 0), ((13, 13), 3)):
        tag = f'size={size[0]} border={border}'
        fn = fx.fn('writers', 'write_txt')
        for dark, light in (('1', '0'), ('X', '_'), (7, 0)):
            m, rec, rs, _ = _run(fx, it, 'write_txt', size, 1, border, kw={'dark': dark, 'light': light}, has_scale=False)
            want = render.picture(m, size, 1, border)
            txt = rec.text()
            rows = [list(ln) for ln in txt.split('\n')[:-1]]
            why = ('' if txt.endswith('\n') else 'no final newline') or render.first_diff(rows, [[str(dark) if v else str(light) for v in r_] for r_ in want]) \
                or _rows_asked(rs, 1, border)
            yield ob(f'TXT dark={dark!r} light={light!r} {tag}: one character per module, one line per row', not why, fn, got=why or 'the symbol', want='the symbol')
        fn = fx.fn('writers', 'write_terminal')
        m, rec, rs, _ = _run(fx, it, 'write_terminal', size, 1, border, has_scale=False)
        want = render.picture(m, size, 1, border)
        try:
            why = render.first_diff(render.decode_terminal(rec.text()), want) or _rows_asked(rs, 1, border)
        except render.Bad as ex:
            why = str(ex)
        yield ob(f'terminal {tag}: dark = terminal background (ESC[49m), light = inverse video (ESC[7m), two columns per module', not why, fn,
                 got=why or 'the symbol', want='the symbol')
        fn = fx.fn('writers', 'write_terminal_compact')
        m, rec, rs, _ = _run(fx, it, 'write_terminal_compact', size, 1, border, has_scale=False)
        want = render.picture(m, size, 1, border)
        if len(want) % 2:
            want = want + [[1] * len(want[0])]
        try:
            why = render.first_diff(render.decode_compact(rec.text()), want) or _rows_asked(rs, 1, border)
        except render.Bad as ex:
            why = str(ex)
        yield ob(f'compact terminal {tag}: two rows per line, light = block half, dark = blank half', not why, fn, got=why or 'the symbol', want='the symbol')


@rule('C09', 'R8', 30, 'PAM: TUPLTYPE / DEPTH / MAXVAL decided by the colour classes, samples show the module colour on the MAXVAL scale; PPM: maxval 255, RGB of the module type')
def r8(fx):
    it = Interp(max_steps=50_000_000)
    fn = fx.fn('writers', 'write_pam')
    classes = {'black': ('#000', 'bw'), 'black2': ('black', 'bw'), 'white': ('#FFFFFF', 'bw'), 'red': ('red', 'c'), 'navy': ((0, 0, 139), 'c'),
               'yellow': ('yellow', 'c'), 'none': (None, 'n')}
    size, scale, border = (11, 11), 2.7, 1
    for dk in ('black', 'black2', 'white', 'red', 'navy'):
        for lk in ('none', 'white', 'black', 'yellow', 'red'):
            dark, dcls = classes[dk]
            light, lcls = classes[lk]
            if lcls == 'n':
                want_h = ('GRAYSCALE_ALPHA', 2, 1) if dcls == 'bw' else ('RGB_ALPHA', 4, 255)
            elif dcls == 'bw' and lcls == 'bw':
                want_h = ('BLACKANDWHITE', 1, 1)
            else:
                want_h = ('RGB', 3, 255)
            try:
                m, rec, rs, _ = _run(fx, it, 'write_pam', size, scale, border, kw={'dark': dark, 'light': light})
                want = render.picture(m, size, scale, border)
                hdr, w, h, d, mx, rows = render.decode_pam(rec.data())
                got_h = (hdr.get('TUPLTYPE'), d, mx)

                def shown(t):
                    # sample tuple -> RGBA on the 0..255 scale
                    t = tuple(v * 255 // mx for v in t)
                    return {1: lambda: (t[0],) * 3 + (255,), 2: lambda: (t[0],) * 3 + (t[1],), 3: lambda: t + (255,), 4: lambda: t}[d]()

                def exp(v):
                    c = rgba(dark) if v else rgba(light)
                    return c
                why = ('' if got_h == want_h else f'header {got_h}, the colours need {want_h}') or \
                    ('' if (w, h) == (len(want[0]), len(want)) else f'header {w}x{h}, picture {len(want[0])}x{len(want)}')
                if not why:
                    gotp = [[shown(t) for t in r_] for r_ in rows]
                    wantp = [[exp(v) for v in r_] for r_ in want]
                    # a transparent sample may carry any colour
                    gotp = [[(0, 0, 0, 0) if p[3] == 0 else p for p in r_] for r_ in gotp]
                    why = render.first_diff(gotp, wantp) or _rows_asked(rs, scale, border)
            except PyRaise as ex:
                why = f'raises {ex.name}'
            except render.Bad as ex:
                why = str(ex)
            yield ob(f'PAM dark={dark!r} light={light!r}', not why, fn, got=why or f'{want_h}, the symbol', want=f'{want_h}, the symbol')
    # colours with an alpha channel: shown as they are (alpha included) or refused with ValueError - nothing else
    for dark, light in (((255, 0, 0, 128), None), ('#00000080', None), ((255, 0, 0, 128), '#fff'), ('#00000080', '#fff'), ('black', '#ffffff80'),
                        ('red', (0, 255, 0, 64)), ((255, 0, 0, 128), (0, 255, 0, 64))):
        try:
            m, rec, rs, _ = _run(fx, it, 'write_pam', size, scale, border, kw={'dark': dark, 'light': light})
            want = render.picture(m, size, scale, border)
            hdr, w, h, d, mx, rows = render.decode_pam(rec.data())

            def shown(t, d=d, mx=mx):
                t = tuple(v * 255 // mx for v in t)
                return {1: lambda: (t[0],) * 3 + (255,), 2: lambda: (t[0],) * 3 + (t[1],), 3: lambda: t + (255,), 4: lambda: t}[d]()
            gotp = [[shown(t) for t in r_] for r_ in rows]
            gotp = [[(0, 0, 0, 0) if p_[3] == 0 else p_ for p_ in r_] for r_ in gotp]
            wantp = [[rgba(dark) if v else rgba(light) for v in r_] for r_ in want]
            wantp = [[(0, 0, 0, 0) if p_[3] == 0 else p_ for p_ in r_] for r_ in wantp]
            why = render.first_diff(gotp, wantp)
        except PyRaise as ex:
            why = '' if ex.name == 'ValueError' else f'raises {ex.name}'
        except render.Bad as ex:
            why = str(ex)
        yield ob(f'PAM with alpha: dark={dark!r} light={light!r}', not why, fn, got=why or 'shown with its alpha, or refused with ValueError',
                 want='shown with its alpha, or refused with ValueError')
    fn = fx.fn('writers', 'write_ppm')
    for kw in ({}, {'dark': 'red', 'light': 'yellow'}, {'finder_dark': 'blue', 'data_light': '#eee', 'quiet_zone': 'aliceblue'}, {'dark': (0, 0, 139), 'timing_dark': (10, 20, 30)}) + CROSSED:
        for size, scale, border in (((21, 21), 1, None), ((11, 11), 2.7, 1)) + ((((45, 45), 1, 0),) if kw in ({}, {'dark': 'red', 'light': 'yellow'}) else ()):
            try:
                m, rec, rs, _ = _run(fx, it, 'write_ppm', size, scale, border, kw=kw, typed=_typed(fx, size, kw))
                cm = _colormap(fx, it, size, kw, 'write_ppm')
                ty = _typed(fx, size, kw)
                want = render.picture(m, size, scale, border, value=lambda r, c, v: rgba(cm[ty(r, c, v)])[:3], outside=rgba(cm[C(fx, 'TYPE_QUIET_ZONE')])[:3])
                w, h, mx, rows = render.decode_ppm(rec.data())
                why = ('' if mx == 255 else f'maxval {mx}') or ('' if (w, h) == (len(want[0]), len(want)) else f'header {w}x{h}, picture {len(want[0])}x{len(want)}') \
                    or render.first_diff(rows, want) or _rows_asked(rs, scale, border, 'matrix_iter_verbose')
            except PyRaise as ex:
                why = f'raises {ex.name}'
            except render.Bad as ex:
                why = str(ex)
            yield ob(f'PPM {kw} size={size[0]} scale={scale} border={border}', not why, fn, got=why or 'the symbol in its colours', want='the symbol in its colours')
    m, rec, rs, _ = (None, None, None, None)
    try:
        _run(fx, it, 'write_ppm', (21, 21), 1, None, kw={'light': None}, typed=_typed(fx, (21, 21), {}))
        got = 'accepted'
    except PyRaise as ex:
        got = f'raises {ex.name}'
    yield ob('PPM refuses a transparent colour (the format has none)', got == 'raises ValueError', fn, got=got, want='raises ValueError')


def _colormap(fx, it, size, kw, writer):
    genv = callable_env(fx.forest, 'writers', it)
    base = dict(render.deco_defaults(fx, writer))
    base.update({k: v for k, v in kw.items() if k in render.COLOUR_KEYS})
    return dict(genv['_make_colormap'](size[0], size[1], **base))


_TYPED_CACHE = {}


def _typed(fx, size, kw):
    """(r, c, bit) -> a module type of the right polarity that the colour map of this size has; every type is used."""
    key = (fx.forest.digest if hasattr(fx.forest, 'digest') else 0, size)
    if key not in _TYPED_CACHE:
        it = Interp()
        cm = _colormap(fx, it, size, {}, 'write_png')
        qz = C(fx, 'TYPE_QUIET_ZONE')
        darks = sorted(k for k in cm if k >> 8)
        lights = sorted(k for k in cm if not k >> 8 and k != qz)
        _TYPED_CACHE[key] = (darks, lights)
    darks, lights = _TYPED_CACHE[key]
    return lambda r, c, v: (darks[(r * 3 + c) % len(darks)] if v else lights[(r * 3 + c) % len(lights)])


@rule('C09', 'R4', 26, 'PNG: signature, chunk = length | type+data | CRC, IHDR = picture size / depth / colour type, chunk order, scanlines at the bit depth; the decoded picture is the symbol at the requested scale and border')
def r4(fx):
    it = Interp(max_steps=80_000_000)
    fn = fx.fn('writers', 'write_png')
    for size, scale, border in CONFIGS + [((21, 21), 3.9, 2)]:
        for kw in ({}, {'dark': 'red', 'light': None}, {'finder_dark': 'blue', 'data_light': '#eee', 'timing_dark': (10, 20, 30), 'format_light': 'yellow', 'quiet_zone': 'aliceblue'}):
            tag = f'{kw} size={size[0]} scale={scale} border={border}'
            yield _png_ob(fx, it, fn, tag, size, scale, border, kw)
    for kw in ({'dark': 'red', 'light': 'yellow'}, {'light': None}, {'dark': (255, 0, 0, 128)}, {'finder_dark': 'blue', 'data_light': None}):
        yield _png_ob(fx, it, fn, f'dpi=300 {kw}', (11, 11), 2, 1, dict(kw, dpi=300))
    for kw in CROSSED:
        yield _png_ob(fx, it, fn, f'{kw} size=21 scale=1 border=None', (21, 21), 1, None, dict(kw))
    # a symbol with version information (45 x 45): every module type occurs
    for kw in ({}, {'dark': 'red', 'light': 'yellow'}, {'dark': (255, 0, 0, 128), 'light': None}):
        yield _png_ob(fx, it, fn, f'{kw} size=45 scale=1 border=0', (45, 45), 1, 0, dict(kw))
    # everything transparent is a (degenerate) member of the colour domain, too
    yield _png_ob(fx, it, fn, "{'dark': None, 'light': None} size=11 scale=2 border=1", (11, 11), 2, 1, {'dark': None, 'light': None})
    m, rec, rs, zs = _run(fx, it, 'write_png', (11, 11), 1, 0, kw={'dpi': 300, 'compresslevel': 3}, typed=_typed(fx, (11, 11), {}))
    try:
        png = render.decode_png(rec.data())
        phys = [c for c in png['chunks'] if c[0] == b'pHYs']
        ok = len(phys) == 1 and struct.unpack('>LLB', phys[0][1]) == (11811, 11811, 1) and png['order'].index(b'pHYs') < png['order'].index(b'IDAT') and zs.levels == [3]
        got = (phys[0][1].hex() if phys else None, zs.levels)
    except render.Bad as ex:
        ok, got = False, str(ex)
    yield ob('PNG dpi=300 -> pHYs 11811 pixels per metre before IDAT; compresslevel reaches zlib', ok, fn, got=got, want='pHYs (11811, 11811, 1), level 3')


def _png_ob(fx, it, fn, tag, size, scale, border, kw):
    ty = _typed(fx, size, kw)
    try:
        m, rec, rs, zs = _run(fx, it, 'write_png', size, scale, border, kw=kw, typed=ty)
        cm = _colormap(fx, it, size, kw, 'write_png')
        qz = C(fx, 'TYPE_QUIET_ZONE')
        want = render.picture(m, size, scale, border, value=lambda r, c, v: rgba(cm[ty(r, c, v)]), outside=rgba(cm[qz]))
        png = render.decode_png(rec.data())
        probs = []
        if not png['signature']:
            probs.append('signature')
        bad = [c[0] for c in png['chunks'] if not c[2]]
        if bad:
            probs.append(f'CRC of {bad}')
        order = png['order']
        if order[0] != b'IHDR' or order[-1] != b'IEND' or order.count(b'IDAT') != 1 or \
                (b'PLTE' in order and not order.index(b'PLTE') < order.index(b'IDAT')) or \
                (b'tRNS' in order and not (order.index(b'tRNS') < order.index(b'IDAT') and (b'PLTE' not in order or order.index(b'PLTE') < order.index(b'tRNS')))):
            probs.append(f'chunk order {order}')
        if png['tail'] != (0, 0, 0):
            probs.append(f'IHDR compression/filter/interlace {png["tail"]}')
        if (png['width'], png['height']) != (len(want[0]), len(want)):
            probs.append(f'IHDR {png["width"]}x{png["height"]}, picture {len(want[0])}x{len(want)}')
        if (png['ctype'] == 3) != (b'PLTE' in order):
            probs.append('PLTE presence does not match the colour type')
        if not probs:
            gotp = [[(0, 0, 0, 0) if p[3] == 0 else p for p in r_] for r_ in png['pixels']]
            want = [[(0, 0, 0, 0) if p[3] == 0 else p for p in r_] for r_ in want]       # fully transparent: the colour does not matter
            d = render.first_diff(gotp, want)
            if d:
                probs.append(d)
        if not probs:
            verbose = [c for c in rs.calls if c[0] == 'matrix_iter_verbose']
            if any(c[1] != 1 or c[2] != 0 or not c[3] for c in verbose) or len(rs.calls) > 1:
                probs.append(f'row source {rs.calls}')
        why = '; '.join(probs[:3])
    except PyRaise as ex:
        why = f'raises {ex.name}'
    except render.Bad as ex:
        why = str(ex)
    return ob(f'PNG {tag}', not why, fn, got=why or 'well-formed, the symbol in its colours', want='well-formed, the symbol in its colours')


@rule('C09', 'R9', 90, 'PNG colours: every module is painted with exactly its configured colour (palette, alpha, transparency) for every colour class combination')
def r9(fx):
    fn = fx.fn('writers', 'write_png')
    it = Interp(max_steps=80_000_000)
    darks = ['#000', 'aliceblue', '#f0f8ff', (240, 248, 255), (255, 0, 0, 128), 'antiquewhite', '#fff']
    lights = [None, '#fff', 'aliceblue', (0, 0, 255, 64), '#000']
    extras = [{}, {'finder_dark': (255, 0, 0, 128)}, {'finder_dark': 'red', 'data_light': None}, {'timing_dark': 'aliceblue'}]
    for d in darks:
        for l in lights:
            for ex in extras:
                kw = dict(ex, dark=d, light=l)
                yield _png_ob(fx, it, fn, f'dark={d!r} light={l!r} {ex}', (11, 11), 1, 1, kw)
    # alpha given as a fraction, and the smallest / largest integer alphas
    for d, l in (((255, 0, 0, 0.5), '#fff'), ((255, 0, 0, 0.25), None), ((0, 0, 0, 1.0), '#fff'), ((255, 0, 0, 1), '#fff'), ((255, 0, 0, 1), None),
                 ((255, 0, 0, 254), '#fff'), ((255, 0, 0, 0), '#fff'), ('#000', (0, 0, 255, 0.75)), ('#000', (255, 255, 255, 1))):
        yield _png_ob(fx, it, fn, f'dark={d!r} light={l!r} {{}}', (11, 11), 1, 1, dict(dark=d, light=l))


@rule('C09', 'R10', 6, 'colour map of the colourful raster writers: with only dark / light given every module type falls back to the colour of its own polarity (C11.R4)')
def r10(fx):
    for o in p11.r4(fx):
        if 'fallback colours follow polarity' in o.key or 'types dropped' in o.key or 'its own keyword' in o.key:
            yield o


@rule('C09', 'R3', 12, 'iterator mapping and validation (C11.R6), validation before output (C14.R8)')
def r3(fx):
    for o in p11.r6(fx):
        if o.key.startswith('matrix_iter size') and ('scale 2.9' in o.key or 'scale 1 ' in o.key or 'scale 3' in o.key):
            yield o
    for o in p14.r8(fx):
        if 'validates scale and border' in o.key or '_valid_width_height_and_border' in o.key:
            yield o


