"""Rules for C09 (see DESIGN.md section 5)."""
