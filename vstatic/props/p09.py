"""C09 -- raster and text outputs."""
import ast
import struct
import zlib

from .. import ev, iso, nf, pat, src
from ..core import rule, ob, explain, Ob
from ..ev import PyRaise
from ..interp import Interp, make_callable, FuncVal, callable_env
from ..src import Unknown
from .common import C, need, single
from . import p11, p14

explain('C09', '''Decided (structural): every raster/text writer takes its rows from matrix_iter / matrix_iter_verbose
(whose (y div s - b, x div s - b) mapping and validation are decided on position-marker matrices, C11.R6) with the same
scale/border it used for the header, and truncates a fractional scale with int() before the header dimensions are computed
(six sized writers); validation dominates the output (C14.R8). PNG: the signature literal, every later write is a chunk,
the chunk function is length | type+data | CRC32(type+data), IHDR carries (width, height, depth, colour type, 0, 0, 0), the
bit depth decision table satisfies colours <= 2^depth for 1..16 colours, the scanline packer packs 8/depth samples per byte
MSB-first with zero fill behind a filter byte for every depth and for every 1-9 sample row of a probe alphabet, border rows
and columns are border*scale wide, repeated rows use filter 2 over zeros. PBM packs 8 pixels per byte MSB-first (all 256
groups), XBM the same bits LSB-first; P1/TXT/XPM write one token per cell. Polarity: for each format the value 1 reaches the
token/colour the format defines as dark (PBM/XBM 1, PAM BLACKANDWHITE 0, PAM colour tuple index, XPM 'X', TXT dark character,
terminal background). The PAM header decision (TUPLTYPE, DEPTH, MAXVAL) is evaluated over all classes of (dark, light) colours;
MAXVAL/PPM maxval equal the 0..255 scale of the samples. NOT decided: byte-exact files for real symbols.''')

SIZED = ('write_png', 'write_ppm', 'write_pbm', 'write_pam', 'write_xpm', 'write_xbm')


@rule('C09', 'R1', 8, 'one row source per writer, fed with the scale/border of the header')
def r1(fx):
    want = {
        'write_pbm': 'matrix_iter(matrix, matrix_size, scale, border)', 'write_pam': 'matrix_iter(matrix, matrix_size, scale, border)',
        'write_xpm': 'matrix_iter(matrix, matrix_size, scale, border)', 'write_xbm': 'matrix_iter(matrix, matrix_size, scale, border)',
        'write_ppm': 'matrix_iter_verbose(matrix, matrix_size, scale, border)',
        'write_txt': 'matrix_iter(matrix, matrix_size, scale=1, border=border)',
        'write_terminal': 'matrix_iter(matrix, matrix_size, scale=1, border=border)',
        'write_terminal_compact': 'matrix_iter(matrix, matrix_size, scale=1, border=border)',
    }
    for w, p in want.items():
        fn = fx.fn('writers', w)
        calls = [c for c in src.calls_in(fn) if (src.call_name(c) or '') in ('matrix_iter', 'matrix_iter_verbose')]
        c = single(calls, f'row source of {w}')
        b = pat.match(c, p)
        if b is None:
            # same callee but other arguments: a slot difference, else shape
            same = src.call_name(c) == p.split('(')[0]
            if not same:
                yield ob(f'{w}: row source', False, c, got=ast.unparse(c), want=p)
                continue
        yield ob(f'{w}: row source', b is not None, c, got=ast.unparse(c), want=p)
        # no reassignment of scale/border between the header computation and the row source other than normalisation
    png = fx.fn('writers', 'write_png')
    srcs = sorted(ast.unparse(c) for c in src.calls_in(png, into_nested=False) if src.call_name(c) in ('matrix_iter', 'matrix_iter_verbose', 'iter', 'matrix_to_lines')
                  and any(isinstance(n, ast.Name) and n.id == 'matrix' for n in ast.walk(c)))
    yield ob('write_png: rows are the matrix itself (border/scale added by the writer)', srcs == ['iter(matrix)', 'matrix_iter_verbose(matrix, matrix_size, scale=1, border=0)'],
             png, got=srcs, want=['iter(matrix)', 'matrix_iter_verbose(matrix, matrix_size, scale=1, border=0)'])


@rule('C09', 'R2', 6, 'fractional scale is truncated with int() before the header dimensions are computed')
def r2(fx):
    for w in SIZED:
        fn = fx.fn('writers', w)
        calls = [c for c in src.calls_in(fn, '_valid_width_height_and_border', into_nested=False)]
        c = single(calls, f'_valid_width_height_and_border in {w}')
        b = pat.need(c, '_valid_width_height_and_border(matrix_size, H_s, H_b)', f'size computation of {w}')
        st = nf.enclosing_stmt(c)
        okt = isinstance(st, ast.Assign) and isinstance(st.targets[0], ast.Tuple) and len(st.targets[0].elts) == 3 \
            and pat.match(st.value, '_valid_width_height_and_border(matrix_size, scale, border)') is not None
        doms = nf.dominators(c, fn, lambda s: pat.match(s, 'scale = int(scale)', mode='stmt') is not None)
        later = [s for s in fn.body[fn.body.index(st) + 1:] if any(isinstance(n, ast.Name) and n.id == 'scale' and isinstance(n.ctx, ast.Store) for n in ast.walk(s))]
        yield ob(f'{w}: scale = int(scale) dominates the size computation', bool(doms) and okt and not later, c,
                 got=f'truncation before: {bool(doms)}; {ast.unparse(st)[:80]}', want='scale = int(scale); width, height, border = _valid_width_height_and_border(matrix_size, scale, border)')


@rule('C09', 'R4', 18, 'PNG: signature, chunk = len|type+data|crc, IHDR fields, bit depth table, scanline packing, border and repetition')
def r4(fx):
    fn = fx.fn('writers', 'write_png')
    it = Interp(max_steps=20_000_000)
    genv = callable_env(fx.forest, 'writers', it, {'pack': struct.pack, 'zlib': _Z(), 'reduce': __import__('functools').reduce})
    # writes
    w = single([s for s in fn.body if isinstance(s, ast.With)], 'output block of write_png')
    writes = sorted((c for c in src.calls_in(w) if src.call_name(c) == 'write'), key=lambda c: (c.lineno, c.col_offset))
    first = writes[0]
    sig = ev.ev(first.args[0], {}) if isinstance(first.args[0], ast.Constant) else None
    yield ob('PNG signature', sig == b'\x89PNG\r\n\x1a\n', first, got=sig, want=b'\x89PNG\r\n\x1a\n')
    others = [c for c in writes[1:] if not (isinstance(c.args[0], ast.Call) and src.call_name(c.args[0]) == 'chunk')]
    yield ob('every write after the signature is a chunk', not others and len(writes) >= 4, w, got=[ast.unparse(o)[:50] for o in others], want=[])
    kinds = [ev.ev(c.args[0].args[0], {}) for c in writes[1:] if isinstance(c.args[0], ast.Call)]
    yield ob('chunk order IHDR [pHYs] [PLTE [tRNS]] [tRNS] IDAT IEND', kinds == [b'IHDR', b'pHYs', b'PLTE', b'tRNS', b'tRNS', b'tRNS', b'IDAT', b'IEND'], w,
             got=kinds, want='IHDR pHYs PLTE tRNS tRNS tRNS IDAT IEND')
    want_guards = {0: 'True', 1: 'True', 2: 'dpi', 3: 'not (is_greyscale)', 4: 'not (is_greyscale) and len(palette[0]) > 3',
                   5: 'not (is_greyscale) and not (len(palette[0]) > 3) and is_transparent', 6: 'not (not is_greyscale) and is_transparent',
                   7: 'True', 8: 'True'}
    got_guards = {i: nf.guard_text([g for g in nf.guards_of(c, fn)]).replace('not (not is_greyscale)', 'not (not is_greyscale)') for i, c in enumerate(writes)}
    norm = lambda t: t.replace('not is_greyscale', 'not (is_greyscale)') if t != 'True' else t   # noqa: E731
    okg = len(writes) == 9 and all(norm(got_guards[i]).replace('not (not (is_greyscale))', 'not (not is_greyscale)') == want_guards[i] for i in range(9))
    yield ob('each chunk is written under its own condition only (pHYs: dpi; PLTE: palette image; tRNS: alpha / transparency)', okg, w,
             got=got_guards, want=want_guards)
    ch = FuncVal(fx.fn('writers', 'write_png.chunk'), genv, it)
    bad = []
    for name, data in ((b'IHDR', b'\x00\x01abc'), (b'IEND', b''), (b'IDAT', bytes(range(40)))):
        want = struct.pack('>I', len(data)) + name + data + struct.pack('>I', zlib.crc32(name + data) & 0xffffffff)
        got = ch(name, data)
        if got != want:
            bad.append((name, got, want))
    yield ob('chunk(name, data) = length | name+data | CRC32(name+data)', not bad, fx.fn('writers', 'write_png.chunk'), got=bad[:1], want=[])
    ih = [c for c in writes if isinstance(c.args[0], ast.Call) and ev.ev(c.args[0].args[0], {}) == b'IHDR'][0]
    yield ob('IHDR = (width, height, bit depth, colour type, 0, 0, 0)', pat.match(ih.args[0].args[1], "pack(b'>2I5B', width, height, png_bit_depth, png_color_type, 0, 0, 0)") is not None,
             ih, got=ast.unparse(ih.args[0].args[1]), want="pack(b'>2I5B', width, height, png_bit_depth, png_color_type, 0, 0, 0)")
    idat = [c for c in writes if isinstance(c.args[0], ast.Call) and ev.ev(c.args[0].args[0], {}) == b'IDAT'][0]
    yield ob('IDAT = zlib.compress(scanlines, compresslevel)', pat.match(idat.args[0].args[1], 'zlib.compress(idat, compresslevel)') is not None, idat,
             got=ast.unparse(idat.args[0].args[1]), want='zlib.compress(idat, compresslevel)')
    # bit depth decision
    init = single([s for s in fn.body if isinstance(s, ast.Assign) and ast.unparse(s.targets[0]) == 'png_bit_depth'], 'initial bit depth')
    dec = single([s for s in fn.body if isinstance(s, ast.If) and 'png_bit_depth' in ast.unparse(s) and ast.unparse(s.test) == 'not is_greyscale'], 'bit depth decision')
    inner = [s for s in dec.body if isinstance(s, ast.If) and 'png_bit_depth' in ast.unparse(s)]
    bad = []
    for n in range(1, 17):
        for grey in ((True, False) if n == 2 else (False,)):
            e = dict(genv, number_of_colors=n, is_greyscale=grey)
            it.block([init] + ([] if grey else inner), e)
            d = e['png_bit_depth']
            if d not in (1, 2, 4, 8) or n > 2 ** d:
                bad.append((n, grey, d))
    yield ob('bit depth holds every palette index: colours <= 2^depth for 1..16 colours', not bad, dec, got=bad, want=[])
    ct = single([s for s in fn.body if isinstance(s, ast.Assign) and ast.unparse(s.targets[0]) == 'png_color_type'], 'colour type')
    yield ob('colour type 0 (greyscale) / 3 (palette)', nf.same(ct.value, '0 if is_greyscale else 3'), ct, got=ast.unparse(ct.value), want='0 if is_greyscale else 3')
    # scanline
    sl_fn = fx.fn('writers', 'write_png.scanline')
    bad = []
    for d in (1, 2, 4):
        g2 = dict(genv, png_bit_depth=d)
        sl = FuncVal(sl_fn, g2, it)
        per = 8 // d
        for row in ([1], [1, 0], [0, 1, 1], list(range(2 ** d)) * 3, [(2 ** d) - 1] * per, [1] * (per + 1), [0] * 9, [1, 0] * 8):
            row = [x % (2 ** d) for x in row]
            want = bytearray([0])
            for i in range(0, len(row), per):
                grp = row[i:i + per] + [0] * (per - len(row[i:i + per]))
                v = 0
                for x in grp:
                    v = (v << d) | x
                want.append(v)
            got = sl(list(row))
            if bytes(got) != bytes(want):
                bad.append((d, row, bytes(got), bytes(want)))
        got = sl([0] * per, filter_type=b'\x02')
        if bytes(got) != b'\x02\x00':
            bad.append((d, 'filter', bytes(got)))
    yield ob('scanline: filter byte + 8/depth samples per byte, MSB first, zero fill (depth 1, 2, 4)', not bad, sl_fn, got=bad[:2], want=[])
    # borders and repetition
    stm = {ast.unparse(s.targets[0]): s for s in src.statements(fn.body) if isinstance(s, ast.Assign) and len(s.targets) == 1}
    checks = [
        ('horizontal_border', 'scanline(repeat(qz_value, width)) * border * scale'),
        ('vertical_border', '[qz_value] * border * scale'),
        ('same_as_above', "scanline(repeat(0, width), filter_type=b'\\x02') * (scale - 1)"),
        ('qz_value', 'color_index[qz_idx]'),
    ]
    for name, want in checks:
        cands = [s for s in src.statements(fn.body) if isinstance(s, ast.Assign) and ast.unparse(s.targets[0]) == name and not isinstance(s.value, ast.Constant)]
        s = single(cands, f'{name} in write_png')
        yield ob(f'write_png: {name}', nf.same(s.value, want), s, got=ast.unparse(s.value), want=want)
    rep = [s for s in src.statements(fn.body) if isinstance(s, ast.Assign) and ast.unparse(s.targets[0]) == 'miter' and 'repeat(b, scale)' in ast.unparse(s.value)]
    s = single(rep, 'horizontal repetition in write_png')
    g = nf.guard_text(nf.guards_of(s, fn))
    yield ob('each sample repeated `scale` times when scale > 1', nf.norm(s.value) == nf.norm(ast.parse('(chain(*(repeat(b, scale) for b in row)) for row in miter)', mode='eval').body)
             and nf.guard_is(nf.guards_of(s, fn), 'scale > 1'), s, got=f'{ast.unparse(s.value)} if {g}', want='(chain(*(repeat(b, scale) for b in row)) for row in miter) if scale > 1')
    loop = single([s for s in fn.body if isinstance(s, ast.For) and ast.unparse(s.iter) == 'miter'], 'row loop of write_png')
    body = [ast.unparse(x) for x in loop.body]
    yield ob('each row: scanline(border + row + border) followed by the repeated-row filter lines', body == ['idat += scanline(chain(vertical_border, row, vertical_border))', 'idat += same_as_above'],
             loop, got=body, want=['idat += scanline(chain(vertical_border, row, vertical_border))', 'idat += same_as_above'])
    pre = [ast.unparse(s) for s in fn.body if isinstance(s, (ast.Assign, ast.AugAssign)) and ast.unparse(s.targets[0] if isinstance(s, ast.Assign) else s.target) == 'idat']
    yield ob('top and bottom border rows', pre == ['idat = bytearray(horizontal_border)', 'idat += horizontal_border'], fn, got=pre,
             want=['idat = bytearray(horizontal_border)', 'idat += horizontal_border'])
    ci = [s for s in src.statements(fn.body) if isinstance(s, ast.Expr) and 'color_index.update' in ast.unparse(s)]
    s = single(ci, 'two-colour index map in write_png')
    yield ob('two-colour path: 0 -> quiet-zone colour index, 1 -> dark colour index', nf.norm(s.value) == nf.norm(ast.parse('color_index.update({0: color_index[qz_idx], 1: palette.index(clr_map[dark_idx])})', mode='eval').body),
             s, got=ast.unparse(s.value), want='color_index.update({0: color_index[qz_idx], 1: palette.index(clr_map[dark_idx])})')


class _Z:
    _model = ('crc32', 'compress')
    crc32 = staticmethod(zlib.crc32)
    compress = staticmethod(zlib.compress)


@rule('C09', 'R5', 6, 'bit packing: PBM 8 pixels per byte MSB first (all 256 groups + partial), XBM LSB first; one token per cell in P1/TXT/XPM')
def r5(fx):
    it = Interp(max_steps=20_000_000)
    red = __import__('functools').reduce
    genv = callable_env(fx.forest, 'writers', it, {'reduce': red})
    pr = FuncVal(fx.fn('writers', 'write_pbm.pack_row'), genv, it)
    bad = []
    for v in range(256):
        bits = [(v >> (7 - k)) & 1 for k in range(8)]
        if list(pr(bits)) != [v]:
            bad.append((v, list(pr(bits))))
    for bits, want in (([1], [0x80]), ([1, 1, 1], [0xE0]), ([0] * 8 + [1], [0, 0x80]), ([1] * 15, [0xFF, 0xFE])):
        if list(pr(bits)) != want:
            bad.append((bits, list(pr(bits))))
    yield ob('PBM pack_row: MSB first, zero fill', not bad, fx.fn('writers', 'write_pbm.pack_row'), got=bad[:3], want=[])
    pbm = fx.fn('writers', 'write_pbm')
    hdr = [c for c in src.calls_in(pbm) if src.call_name(c) == 'write'][0]
    htxt = ast.unparse(hdr.args[0])
    yield ob('PBM header: magic, width height from the validated size', '("P4" if not plain else "P1")' in htxt.replace("'", '"') and '{width} {height}' in htxt, hdr,
             got=htxt[:120], want='P4|P1, {width} {height}')
    plain = [ast.unparse(s) for s in src.statements(pbm.body) if isinstance(s, ast.Expr) and 'str(i)' in ast.unparse(s)]
    yield ob('P1: one digit per pixel, newline per row', plain == ["write(b''.join((str(i).encode('ascii') for i in row)))"], pbm, got=plain,
             want="write(b''.join(str(i).encode('ascii') for i in row))")
    # XBM
    xbm = fx.fn('writers', 'write_xbm')
    comp = [n for n in ast.walk(xbm) if isinstance(n, ast.ListComp) and 'reduce' in ast.unparse(n)]
    lc = single(comp, 'XBM byte comprehension')
    bad = []
    for row in ([1, 0, 0, 0, 0, 0, 0, 0], [0, 0, 0, 0, 0, 0, 0, 1], [1, 1, 0, 0, 0, 0, 0, 0, 1], [1] * 3):
        import itertools
        groups = list(itertools.zip_longest(*[iter(row)] * 8, fillvalue=0))
        got = ev.ev(lc, dict(genv, iter_=groups))
        want = []
        for g in groups:
            v = 0
            for k, bit in enumerate(g):
                v |= bit << k
            want.append(f'0x{v:02x}')
        if got != want:
            bad.append((row, got, want))
    yield ob('XBM: first pixel in the least significant bit', not bad, lc, got=bad[:2], want=[])
    hx = [c for c in src.calls_in(xbm) if src.call_name(c) == 'write'][0]
    htxt = ast.unparse(hx.args[0])
    yield ob('XBM header: _width/_height from the validated size', '_width {width}' in htxt and '_height {height}' in htxt, hx, got=htxt[:100], want='#define <name>_width {width} ...')
    xpm = fx.fn('writers', 'write_xpm')
    hp = [c for c in src.calls_in(xpm) if src.call_name(c) == 'write'][0]
    htxt = ast.unparse(hp.args[0])
    yield ob('XPM header: "{width} {height} 2 1" and the two colour lines', '"{width} {height} 2 1"' in htxt and '"  c {bg_color}"' in htxt and '"X c {stroke_color}"' in htxt,
             hp, got=htxt[:160], want='"{width} {height} 2 1", "  c {bg_color}", "X c {stroke_color}"')


def _tok(expr, var, env=None):
    return [ev.ev(expr, dict(env or {}, **{var: b})) for b in (0, 1)]


@rule('C09', 'R6', 7, 'polarity: value 1 reaches the dark token / colour of each format')
def r6(fx):
    xpm = fx.fn('writers', 'write_xpm')
    tok = [n for n in ast.walk(xpm) if isinstance(n, ast.IfExp) and 'X' in ast.unparse(n) and isinstance(n.body, ast.Constant) and n.body.value in (' ', 'X')]
    t = single(tok, 'XPM pixel token')
    tv = [n.id for n in ast.walk(t.test) if isinstance(n, ast.Name)]
    need(len(set(tv)) == 1, 'XPM pixel token: one variable expected')
    yield ob('XPM: 0 -> " " (light colour line), 1 -> "X" (dark colour line)', _tok(t, tv[0]) == [' ', 'X'], t, got=_tok(t, tv[0]), want=[' ', 'X'])
    hdr_parts = [v for n in ast.walk(xpm) if isinstance(n, ast.JoinedStr) for v in n.values]
    def _after(prefix):
        for i, v in enumerate(hdr_parts):
            if isinstance(v, ast.Constant) and isinstance(v.value, str) and v.value.endswith(prefix) and i + 1 < len(hdr_parts) \
                    and isinstance(hdr_parts[i + 1], ast.FormattedValue):
                return hdr_parts[i + 1].value
        return None
    xd, xl = _after('"X c '), _after('"  c ')
    need(xd is not None and xl is not None, 'XPM colour lines not found')
    yield ob('XPM: X = dark, blank = light', nf.same_inlined(xpm, xd, "color_to_rgb_hex(dark) if dark is not None else 'None'")
             and nf.same_inlined(xpm, xl, "color_to_rgb_hex(light) if light is not None else 'None'"), xpm,
             got=(ast.unparse(nf.inline(xpm, xd)), ast.unparse(nf.inline(xpm, xl))), want='X <- dark, blank <- light')
    txt = fx.fn('writers', 'write_txt')
    j = [n for n in ast.walk(txt) if isinstance(n, ast.GeneratorExp) and pat.match(n, '(H_c[H_v] for H_v in H_r)') is not None]
    need(len(j) == 1, 'TXT: per-cell character lookup not found')
    cexpr = pat.match(j[0], '(H_c[H_v] for H_v in H_r)')['c']
    yield ob('TXT: (light, dark)[bit], one character per cell, newline per row', nf.same_inlined(txt, cexpr, '(str(light), str(dark))'), j[0],
             got=ast.unparse(nf.inline(txt, cexpr)), want='(str(light), str(dark))')
    pam = fx.fn('writers', 'write_pam')
    inv = fx.fn('writers', 'write_pam.invert_row_bits')
    r = single([s for s in inv.body if isinstance(s, ast.Return)], 'return of invert_row_bits')
    got = list(ev.ev(r.value, {'row': [0, 1, 1, 0]}))
    yield ob('PAM BLACKANDWHITE: 1 (dark) -> sample 0 (black)', got == [1, 0, 0, 1], r, got=got, want=[1, 0, 0, 1])
    cols = [s for s in src.statements(pam.body) if isinstance(s, ast.Assign) and isinstance(s.value, ast.Tuple) and len(s.value.elts) == 2
            and isinstance(s.targets[0], ast.Name) and (pat.match(s.value, '(pack(H_f, *H_a), pack(H_f, *H_b))') is not None
                                                        or all(isinstance(e, ast.Constant) and isinstance(e.value, bytes) for e in s.value.elts))]
    need(len(cols) == 2, 'write_pam: the two colour tuples')
    okc = True
    detail = []
    sc = [s for s in pam.body if isinstance(s, ast.Assign) and pat.match(s.value, '_color_to_rgb_or_rgba(dark, alpha_float=False)') is not None]
    need(len(sc) == 1, 'write_pam: stroke colour')
    stroke_name = ast.unparse(sc[0].targets[0])
    for s_ in cols:
        b_ = pat.match(s_.value, '(pack(H_f, *H_a), pack(H_f, *H_b))')
        if b_ is None:
            okc &= ev.ev(s_.value, {}) == (b'\x01\x00', b'\x00\x01')
            detail.append(ast.unparse(s_.value))
        else:
            okc &= ast.unparse(b_['b']) == stroke_name and ast.unparse(b_['a']) != stroke_name
            detail.append(f'(light: {ast.unparse(b_["a"])}, dark: {ast.unparse(b_["b"])})')
    yield ob('PAM colour tuples are (light, dark) indexed by the bit', okc, pam, got=detail, want="(b'\\x01\\x00', b'\\x00\\x01'); (pack(bg), pack(stroke))")
    rc = fx.fn('writers', 'write_pam.row_to_color_values')
    rr = single([s for s in rc.body if isinstance(s, ast.Return)], 'return of row_to_color_values')
    yield ob('PAM colour rows: colours[bit] per pixel', pat.match(rr.value, "b''.join(colours[H_v] for H_v in row)") is not None, rr, got=ast.unparse(rr.value),
             want="b''.join(colours[b] for b in row)")
    term = fx.fn('writers', 'write_terminal')
    tc = single([s for s in src.statements(term.body) if isinstance(s, ast.Assign) and ast.unparse(s.targets[0]) == 'colours'], 'terminal colours')
    comp = fx.fn('writers', 'write_terminal_compact')
    bl = single([s for s in comp.body if isinstance(s, ast.Assign) and ast.unparse(s.targets[0]) == 'blocks'], 'compact blocks')
    blocks = ev.ev(bl.value, {})
    okc = blocks == {(1, 1): ' ', (0, 1): '▀', (1, 0): '▄', (0, 0): '█'}
    okt = ev.ev(tc.value, {}) == ['\033[7m', '\033[49m']
    yield ob('terminal writers: dark = terminal background, light = inverse / full block (both writers agree)', okc and okt, term,
             got=(ev.ev(tc.value, {}), blocks), want='[ESC[7m, ESC[49m]; {(1,1): " ", (0,0): full block, ...}')


@rule('C09', 'R8', 14, 'PAM header decision over all (dark, light) colour classes; MAXVAL / PPM maxval = scale of the samples')
def r8(fx):
    fn = fx.fn('writers', 'write_pam')
    it = Interp(max_steps=20_000_000)
    genv = callable_env(fx.forest, 'writers', it, {'pack': struct.pack, 'partial': __import__('functools').partial})
    w = [i for i, s in enumerate(fn.body) if isinstance(s, ast.With)]
    need(len(w) == 1, 'write_pam: output block')
    pre = fn.body[:w[0]]
    classes = {'black': ('#000', 'bw'), 'black2': ('black', 'bw'), 'white': ('#FFFFFF', 'bw'), 'red': ('red', 'c'), 'navy': ((0, 0, 139), 'c'),
               'yellow': ('yellow', 'c'), 'none': (None, 'n')}
    for dk in ('black', 'black2', 'white', 'red', 'navy'):
        for lk in ('none', 'white', 'black', 'yellow', 'red'):
            dark, dcls = classes[dk]
            light, lcls = classes[lk]
            e = dict(genv, matrix=[[0]], matrix_size=(21, 21), out='<out>', scale=1, border=None, dark=dark, light=light)
            e['matrix_iter'] = lambda *a, **k: []
            try:
                it.block(pre, e)
                got = (e['tuple_type'], e['depth'], e['maxval'])
            except PyRaise as ex:
                got = f'raises {ex.name}'
            if lcls == 'n':
                want = ('GRAYSCALE_ALPHA', 2, 1) if dcls == 'bw' else ('RGB_ALPHA', 4, 255)
            elif dcls == 'bw' and lcls == 'bw':
                want = ('BLACKANDWHITE', 1, 1)
            else:
                want = ('RGB', 3, 255)
            yield ob(f'PAM dark={dark!r} light={light!r}', got == want, fn, got=got, want=want)
    ppm = fx.fn('writers', 'write_ppm')
    hdr = [c for c in src.calls_in(ppm) if src.call_name(c) == 'write'][0]
    htxt = ast.unparse(hdr.args[0])
    yield ob('PPM header: P6, {width} {height}, maxval 255', 'P6 #' in htxt and '{width} {height} 255' in htxt, hdr, got=htxt[:100], want='P6 ... {width} {height} 255')
    conv = [s for s in src.statements(ppm.body) if isinstance(s, ast.Assign) and 'colormap[mt]' in ast.unparse(s.targets[0])]
    c = single(conv, 'PPM colour conversion')
    yield ob('PPM samples come from _color_to_rgb (0..255)', pat.match(c.value, '_color_to_rgb(clr)') is not None, c, got=ast.unparse(c.value), want='_color_to_rgb(clr)')
    hp = [c for c in src.calls_in(fn) if src.call_name(c) == 'write'][0]
    htxt = ast.unparse(hp.args[0])
    yield ob('PAM header fields from the computed values', all(x in htxt for x in ('WIDTH {width}', 'HEIGHT {height}', 'DEPTH {depth}', 'MAXVAL {maxval}', 'TUPLTYPE {tuple_type}', 'ENDHDR')),
             hp, got=htxt[:200], want='WIDTH/HEIGHT/DEPTH/MAXVAL/TUPLTYPE/ENDHDR')


@rule('C09', 'R3', 12, 'iterator mapping and validation (C11.R6), validation before output (C14.R8)')
def r3(fx):
    for o in p11.r6(fx):
        if o.key.startswith('matrix_iter size') and ('scale 2.9' in o.key or 'scale 1 ' in o.key or 'scale 3' in o.key):
            yield o
    for o in p14.r8(fx):
        if 'validates scale and border' in o.key or '_valid_width_height_and_border' in o.key:
            yield o


def _png_prefix(fx, it, dark, light, **per_type):
    """Interpret the part of write_png before the output block for one colour configuration (no matrix involved)."""
    fn = fx.fn('writers', 'write_png')
    genv = callable_env(fx.forest, 'writers', it, {'pack': struct.pack, 'zlib': _Z(), 'reduce': __import__('functools').reduce})
    mk = genv['_make_colormap']
    cm = mk(21, 21, dark=dark, light=light, **per_type)
    w = [i for i, s in enumerate(fn.body) if isinstance(s, ast.With)]
    need(len(w) == 1, 'write_png: output block')
    e = dict(genv, matrix=[[0] * 21 for _ in range(21)], matrix_size=(21, 21), out='<out>', colormap=cm, scale=1, border=0, compresslevel=9, dpi=None)
    e['matrix_iter_verbose'] = lambda *a, **k: []
    it.block(fn.body[:w[0]], e)
    return cm, e


@rule('C09', 'R9', 30, 'PNG palette: entries pairwise distinct, every module type indexes its own colour, alpha kept, transparent entry really transparent')
def r9(fx):
    fn = fx.fn('writers', 'write_png')
    it = Interp(max_steps=20_000_000)
    qz, dk = C(fx, 'TYPE_QUIET_ZONE'), C(fx, 'TYPE_FINDER_PATTERN_DARK')
    darks = ['#000', 'aliceblue', '#f0f8ff', (240, 248, 255), (255, 0, 0, 128), 'antiquewhite']
    lights = [None, '#fff', 'aliceblue', (0, 0, 255, 64)]
    extras = [{}, {'finder_dark': (255, 0, 0, 128)}, {'finder_dark': 'red', 'data_light': None}, {'timing_dark': 'aliceblue'}]
    for d in darks:
        for l in lights:
            for ex in extras:
                if d is None and l is None:
                    continue
                key = f'PNG dark={d!r} light={l!r} {ex}'
                try:
                    cm, e = _png_prefix(fx, it, d, l, **ex)
                except PyRaise as exn:
                    yield ob(key, False, fn, got=f'raises {exn.name}', want='a palette')
                    continue
                pal, clr_map, ci = e['palette'], e['clr_map'], e['color_index']
                grey, tidx = e['is_greyscale'], e['png_trans_idx']
                probs = []
                if len({tuple(c) for c in pal}) != len(pal):
                    probs.append(f'palette entries collide: {pal}')
                lens = [len(c) for c in pal]
                if not grey and lens != sorted(lens, reverse=True):
                    probs.append(f'RGBA entries are not first: {pal}')
                # what each type will be painted with
                multi = set(ci) >= set(cm)
                for t, colour in cm.items():
                    if not multi and t not in (qz, dk):
                        continue
                    idx = ci[t] if multi else (ci[0] if t == qz else ci[1])
                    entry = pal[idx]
                    if colour is None:
                        transparent = (len(entry) == 4 and entry[3] == 0) or (len(entry) == 3 and tidx == idx) or (grey and tidx == idx)
                        if not transparent:
                            probs.append(f'type {t}: transparent requested, palette[{idx}] = {entry}, tRNS index {tidx}')
                        others = [i for i, c in enumerate(pal) if i != idx and tuple(c[:3]) == tuple(entry[:3]) and len(c) == len(entry)]
                        if others:
                            probs.append(f'type {t}: transparent entry {entry} equals another palette colour')
                    else:
                        want = e['png_color'](colour)
                        if tuple(entry) != tuple(want) and not (grey and tuple(entry[:3]) == tuple(want[:3])):
                            probs.append(f'type {t}: colour {colour!r} painted with palette[{idx}] = {entry}, expected {want}')
                        if not grey and len(want) == 4 and (len(pal[0]) < 4):
                            probs.append(f'type {t}: alpha of {want} lost (first palette entry {pal[0]} decides the tRNS form)')
                if len(pal) > 2 ** e['png_bit_depth']:
                    probs.append(f'{len(pal)} colours in bit depth {e["png_bit_depth"]}')
                yield ob(key, not probs, fn, got='; '.join(probs[:3]) or 'consistent', want='consistent')
