"""Rules for C02 (see DESIGN.md section 5)."""
