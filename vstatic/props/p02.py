"""C02 -- geometry, function patterns, format / version information, metadata."""
import ast

from .. import ev, iso, nf, pat, src, reg
from ..core import rule, ob, explain, Ob
from ..interp import Interp, make_callable, Raised, FuncVal
from ..src import Unknown
from .common import C, levels, micro_versions, table_ob, need, single, repo_version

explain('C02', '''Decided (structural, exhaustive): the 32+32 format words and 34 version words equal the
BCH(15,5)/Golay(18,6) codewords XOR mask; the alignment table equals ISO Annex E; the size formula; for each of the
44 symbol sizes the function-pattern writers (make_matrix, add_timing_pattern, add_finder_patterns,
add_alignment_patterns, add_format_info, add_version_info) are interpreted on an abstract matrix and EVERY cell is
compared with an independent anchored layout: finder/separator/timing/alignment values, the bit number carried by
each format/version cell in both copies, the dark module, and that every other cell is still the data placeholder
(so reservation = written regions and the number of data cells equals the ISO data-module count); the index used to
look up the format word equals (level indicator << 3 | mask) resp. (Micro symbol number << 2 | mask) for all 1312
(version, level, mask) triples; the version/error/mask handed to the format writers are the definitions stored in the
returned Code and reported by QRCode. NOT decided: that add_codewords fills the data cells in ISO order (C03.R6 decides
its guards only); 'only dark/light values' for data cells follows from C03.R6's completeness check and cell conservation.''')


@rule('C02', 'R1', 98, 'format and version words = BCH(15,5)^mask / Golay(18,6) codewords')
def r1(fx):
    f, fm, vi = C(fx, 'FORMAT_INFO'), C(fx, 'FORMAT_INFO_MICRO'), C(fx, 'VERSION_INFO')
    need(len(f) == 32 and len(fm) == 32 and len(vi) == 34, 'format/version table lengths')
    for d in range(32):
        yield table_ob(fx, 'FORMAT_INFO', d, f[d], iso.format_word(d))
    for d in range(32):
        yield table_ob(fx, 'FORMAT_INFO_MICRO', d, fm[d], iso.format_word_micro(d))
    for v in range(7, 41):
        yield table_ob(fx, 'VERSION_INFO', v - 7, vi[v - 7], iso.golay18_6(v))


@rule('C02', 'R2', 39, 'ALIGNMENT_POS = ISO Annex E centres for versions 2..40')
def r2(fx):
    ap = C(fx, 'ALIGNMENT_POS')
    need(len(ap) == 39, f'ALIGNMENT_POS has {len(ap)} rows')
    for v in range(2, 41):
        yield table_ob(fx, 'ALIGNMENT_POS', v - 2, list(ap[v - 2]), iso.alignment_centres(v))


@rule('C02', 'R3', 48, 'matrix size = 17+4v / 9+2k; Micro version constants ordered below 1')
def r3(fx):
    mv = micro_versions(fx)
    yield ob('Micro constants strictly ascending and < 1', mv[-3] < mv[-2] < mv[-1] < mv[0] < 1
             and all(isinstance(x, int) for x in mv.values()), fx.forest.mod('consts'), where='consts.VERSION_M*',
             got=[mv[k] for k in (-3, -2, -1, 0)], want='M1 < M2 < M3 < M4 < 1 (integers)')
    mm = C(fx, 'MICRO_VERSION_MAPPING')
    yield ob('MICRO_VERSION_MAPPING names', mm == {'M1': mv[-3], 'M2': mv[-2], 'M3': mv[-1], 'M4': mv[0]},
             fx.forest.mod('consts'), where='consts.MICRO_VERSION_MAPPING', got=mm, want='M1..M4 -> VERSION_M1..M4')
    yield ob('MICRO_VERSIONS sorted tuple', tuple(C(fx, 'MICRO_VERSIONS')) == (mv[-3], mv[-2], mv[-1], mv[0]),
             fx.forest.mod('consts'), where='consts.MICRO_VERSIONS', got=C(fx, 'MICRO_VERSIONS'), want='(M1, M2, M3, M4)')
    it = Interp()
    f = make_callable(fx.forest, 'encoder', 'calc_matrix_size', it)
    fn = fx.fn('encoder', 'calc_matrix_size')
    for v in iso.ALL_VERSIONS:
        got = f(mv[v] if v < 1 else v)
        yield ob(f'calc_matrix_size v{v}', got == iso.size_of(v), fn, got=got, want=iso.size_of(v))
    # _encode uses it for width and height
    enc = fx.fn('encoder', '_encode')
    w = [s for s in enc.body if isinstance(s, ast.Assign) and ast.unparse(s.targets[0]) == 'width']
    wa = single(w, 'assignment of width in _encode')
    b = pat.need(wa.value, 'calc_matrix_size(H_v)', 'width in _encode')
    h = single([s for s in enc.body if isinstance(s, ast.Assign) and ast.unparse(s.targets[0]) == 'height'], 'height')
    yield ob('_encode: width = calc_matrix_size(version), height = width',
             pat.slot(b['v'], ['version'], 'size argument') and pat.slot(h.value, ['width', 'calc_matrix_size(version)'], 'height'),
             wa, got=f'{ast.unparse(wa)}; {ast.unparse(h)}', want='width = calc_matrix_size(version); height = width')


def _build(fx, bld, v):
    """Abstract matrix for iso version v after each stage: returns (after_patterns, final, used_version_index)."""
    mv = micro_versions(fx)
    rv = mv[v] if v < 1 else v
    n = iso.size_of(v)
    vt = reg.WordTable('V', 34)
    genv = bld.with_consts(VERSION_INFO=vt)
    genv['calc_format_info'] = lambda version, error, mask_pattern: reg.Word('F')
    g = {k: (FuncVal(val.node, genv, bld.interp) if isinstance(val, FuncVal) else val) for k, val in genv.items()}
    for k, val in g.items():
        if isinstance(val, FuncVal):
            val.genv = g
    m = g['make_matrix'](n, n)
    if not isinstance(m, reg.Matrix):
        raise Unknown('make_matrix did not build a tuple of bytearray rows')
    g['add_finder_patterns'](m, n, n)
    g['add_alignment_patterns'](m, n, n)
    stage1 = m.grid()
    g['add_format_info'](m, rv, '<error>', '<mask>')
    g['add_version_info'](m, rv)
    return stage1, m.grid(), vt.used


def _describe(val):
    if isinstance(val, reg.Bit):
        return repr(val)
    return repr(val)


@rule('C02', 'R5', 132, 'every cell of every symbol size: function patterns, format/version bit maps (both copies), reservation, conservation')
def r5(fx):
    bld = reg.Builder(fx.forest)
    mv = micro_versions(fx)
    where = 'encoder.make_matrix/add_*'
    anchors = {k: fx.fn('encoder', k) for k in ('make_matrix', 'add_timing_pattern', 'add_finder_patterns',
                                                'add_alignment_patterns', 'add_format_info', 'add_version_info')}
    kind_fn = {'finder': 'add_finder_patterns', 'separator': 'add_finder_patterns', 'timing': 'add_timing_pattern',
               'alignment': 'add_alignment_patterns', 'format': 'add_format_info', 'darkmodule': 'add_format_info',
               'version': 'add_version_info', 'data': 'make_matrix'}
    total_cells = 0
    for v in iso.ALL_VERSIONS:
        n = iso.size_of(v)
        stage1, final, used = _build(fx, bld, v)
        lay = iso.layout(v)
        need(len(final) == n and all(len(r) == n for r in final), f'v{v}: matrix is not {n}x{n}')
        bad = {}      # kind -> first few mismatches
        for r in range(n):
            for c in range(n):
                total_cells += 1
                got = final[r][c]
                exp = lay.get((r, c))
                if exp is None:
                    ok = got == 2
                    kind, want = 'data', 'placeholder 0x2 (data cell, untouched by function-pattern writers)'
                else:
                    kind, val = exp
                    if kind == 'format':
                        ok = isinstance(got, reg.Bit) and got.word == 'F' and got.k == val[2]
                        want = f'format bit {val[2]} (copy {val[1] + 1})'
                    elif kind == 'version':
                        ok = isinstance(got, reg.Bit) and isinstance(got.word, tuple) and got.word[0] == 'V' and got.k == val[2]
                        want = f'version bit {val[2]} (copy {val[1] + 1})'
                    else:
                        ok = (not isinstance(got, reg.Bit)) and got == val
                        want = f'{kind} module {val}'
                if not ok:
                    bad.setdefault(kind, []).append(((r, c), _describe(got), want))
        for kind in ('finder', 'separator', 'timing', 'alignment', 'format', 'darkmodule', 'version', 'data'):
            if kind in ('alignment',) and v < 2 or kind == 'darkmodule' and v < 1 or kind == 'version' and v < 7:
                if kind not in bad:
                    continue
            b = bad.get(kind)
            anc = anchors[kind_fn[kind]]
            key = f'v{v} {kind} cells'
            if b:
                def anch(rc):
                    return tuple((x if x < n // 2 else f'N-{n - x}') for x in rc)
                yield Ob(key, False, f'encoder.{kind_fn[kind]}', anc.lineno,
                         '; '.join(f'{anch(rc)}: {g}' for rc, g, w in b[:4]) + (f' (+{len(b) - 4} more)' if len(b) > 4 else ''),
                         '; '.join(f'{anch(rc)}: {w}' for rc, g, w in b[:4]), True)
            else:
                yield Ob(key, True, f'encoder.{kind_fn[kind]}', anc.lineno, 'as required', 'ISO layout', True)
        # reservation: before format/version info is written, exactly those cells are 0-reserved
        res_bad = []
        for (r, c), (kind, val) in lay.items():
            if kind in ('format', 'version', 'darkmodule') and stage1[r][c] != 0:
                res_bad.append(((r, c), stage1[r][c]))
        yield Ob(f'v{v} reservation covers format/version/dark-module cells', not res_bad, 'encoder.make_matrix',
                 anchors['make_matrix'].lineno, res_bad[:5], 'value 0 before add_codewords', True)
        # conservation
        ndata = sum(1 for r in range(n) for c in range(n) if stage1[r][c] == 2)
        want = iso.raw_data_modules(v) if v >= 1 else iso.MICRO_DATA_MODULES[v]
        yield Ob(f'v{v} data cells = ISO data modules', ndata == want, 'encoder.make_matrix', anchors['make_matrix'].lineno,
                 ndata, want, True)
        # version word index
        if v >= 7:
            yield Ob(f'v{v} version word index', used == [v - 7], 'encoder.add_version_info', anchors['add_version_info'].lineno,
                     used, [v - 7], True)
        else:
            yield Ob(f'v{v} no version information', used == [], 'encoder.add_version_info', anchors['add_version_info'].lineno,
                     used, [], True)
    fx.info['C02.R5 cells compared'] = total_cells


@rule('C02', 'R6', 1312, 'format word index = (level indicator << 3 | mask) / (Micro symbol number << 2 | mask) for all (version, level, mask)')
def r6(fx):
    lv = levels(fx)
    mv = micro_versions(fx)
    for n, want in iso.LEVEL_INDICATOR.items():
        yield table_ob(fx, 'ERROR_LEVEL_' + n, 'indicator', lv[n], want)
    t13 = C(fx, 'ERROR_LEVEL_TO_MICRO_MAPPING')
    for (v, l), want in iso.MICRO_SYMBOL_NUMBER.items():
        got = t13.get(mv[v], {}).get(None if l is None else lv[l])
        yield table_ob(fx, 'ERROR_LEVEL_TO_MICRO_MAPPING', f'{v}-{l}', got, want)
    bld = reg.Builder(fx.forest)
    fq, fm = reg.WordTable('FQ', 32), reg.WordTable('FM', 32)
    genv = bld.with_consts(FORMAT_INFO=fq, FORMAT_INFO_MICRO=fm)
    f = FuncVal(fx.fn('encoder', 'calc_format_info'), genv, bld.interp)
    fn = fx.fn('encoder', 'calc_format_info')
    for v in iso.ALL_VERSIONS:
        for l in iso.levels_of(v):
            for mask in range(8 if v >= 1 else 4):
                w = f(mv[v] if v < 1 else v, None if l is None else lv[l], mask)
                if v >= 1:
                    want = ('FQ', (iso.LEVEL_INDICATOR[l] << 3) | mask)
                else:
                    want = ('FM', (iso.MICRO_SYMBOL_NUMBER[(v, l)] << 2) | mask)
                got = w.name if isinstance(w, reg.Word) and w.shift == 0 else w
                yield ob(f'format index v{v}-{l} mask {mask}', got == want, fn, got=got, want=want)
    # add_format_info uses calc_format_info(version, error, mask_pattern) of its own parameters
    afi = fx.fn('encoder', 'add_format_info')
    a = single([s for s in afi.body if isinstance(s, ast.Assign) and ast.unparse(s.targets[0]) == 'format_info'], 'format_info')
    b = pat.need(a.value, 'calc_format_info(H_v, H_e, H_m)', 'format word lookup')
    yield ob('add_format_info looks up its own (version, error, mask_pattern)',
             pat.slot(b['v'], ['version'], 'v') and pat.slot(b['e'], ['error'], 'e') and pat.slot(b['m'], ['mask_pattern'], 'm'),
             a, got=ast.unparse(a.value), want='calc_format_info(version, error, mask_pattern)')


def _top_calls(fn):
    """[(name, call, stmt)] for top-level statements of fn that are calls or assignments from calls."""
    out = []
    for st in fn.body:
        call = None
        if isinstance(st, ast.Expr) and isinstance(st.value, ast.Call):
            call = st.value
        elif isinstance(st, (ast.Assign, ast.Return)) and isinstance(st.value, ast.Call):
            call = st.value
        if call is not None and src.call_name(call):
            out.append((src.call_name(call), call, st))
    return out


@rule('C02', 'R7', 60, 'metadata: values written into the symbol are the ones stored in Code and reported by QRCode; name maps invertible')
def r7(fx):
    enc = fx.fn('encoder', '_encode')
    calls = _top_calls(enc)
    names = [c[0] for c in calls]
    seq = ['make_matrix', 'add_finder_patterns', 'add_alignment_patterns', 'add_codewords', 'find_and_apply_best_mask',
           'add_format_info', 'add_version_info', 'Code']
    idxs = [names.index(s) if s in names else -1 for s in seq]
    yield ob('_encode stage order', all(i >= 0 for i in idxs) and idxs == sorted(idxs) and all(names.count(s) == 1 for s in seq),
             enc, got=[n for n in names if n in seq], want=seq)
    need(all(i >= 0 for i in idxs), 'a stage of _encode is missing')
    by = {c[0]: c for c in calls}
    afi = pat.need(by['add_format_info'][1], 'add_format_info(matrix, H_v, H_e, H_m)', 'add_format_info call')
    avi = pat.need(by['add_version_info'][1], 'add_version_info(matrix, H_v)', 'add_version_info call')
    code = pat.need(by['Code'][1], 'Code(matrix, H_v, H_e, H_m, H_s)', 'Code(...) call')
    yield ob('format info gets (version, error, mask) = Code fields',
             all(pat.slot(x, [w], w) for x, w in ((afi['v'], 'version'), (afi['e'], 'error'), (afi['m'], 'mask'),
                                                  (code['v'], 'version'), (code['e'], 'error'), (code['m'], 'mask'),
                                                  (avi['v'], 'version'), (code['s'], 'segments'))),
             by['Code'][2], got=f"{ast.unparse(by['add_format_info'][1])}; {ast.unparse(by['add_version_info'][1])}; {ast.unparse(by['Code'][1])}",
             want='add_format_info(matrix, version, error, mask); add_version_info(matrix, version); Code(matrix, version, error, mask, segments)')
    # no redefinition of version / error / mask / matrix between the mask stage and Code(...)
    i_mask = enc.body.index(by['find_and_apply_best_mask'][2])
    redefs = []
    for st in enc.body[i_mask + 1:]:
        for n in ast.walk(st):
            if isinstance(n, ast.Name) and isinstance(n.ctx, ast.Store) and n.id in ('version', 'error', 'mask', 'matrix'):
                redefs.append(f'{n.id} at line {n.lineno}')
    yield ob('no redefinition of version/error/mask/matrix after masking', not redefs, enc, got=redefs, want=[])
    mst = by['find_and_apply_best_mask'][2]
    okm = isinstance(mst, ast.Assign) and ast.unparse(mst.targets[0]) in ('(mask, matrix)', 'mask, matrix')
    yield ob('mask and matrix are the pair returned by find_and_apply_best_mask', okm, mst, got=ast.unparse(mst)[:80],
             want='mask, matrix = find_and_apply_best_mask(matrix, width, height, mask)')
    # version is never reassigned in _encode
    vdefs = [n for n in ast.walk(enc) if isinstance(n, ast.Name) and isinstance(n.ctx, ast.Store) and n.id == 'version']
    yield ob('version has a single definition (the parameter) in _encode', not vdefs, enc,
             got=[f'line {n.lineno}' for n in vdefs], want=[])
    # QRCode.__init__ copies
    init = fx.fn('__init__', 'QRCode.__init__')
    want_copy = {'self.matrix': ['matrix', 'code.matrix'], 'self.mask': ['code.mask'], 'self._version': ['code.version'],
                 'self._error': ['code.error']}
    got_copy = {ast.unparse(s.targets[0]): s.value for s in init.body if isinstance(s, ast.Assign)}
    for tgt, acc in want_copy.items():
        need(tgt in got_copy, f'QRCode.__init__ does not assign {tgt}')
        yield ob(f'QRCode.__init__: {tgt}', pat.slot(got_copy[tgt], acc, tgt), init, got=ast.unparse(got_copy[tgt]), want=acc[-1])
    need('matrix' in got_copy or True, '')
    if 'matrix' in got_copy:
        yield ob('QRCode.__init__: matrix', pat.slot(got_copy['matrix'], ['code.matrix'], 'matrix'), init,
                 got=ast.unparse(got_copy['matrix']), want='code.matrix')
    ms = got_copy.get('self._matrix_size')
    need(ms is not None, 'QRCode.__init__ does not assign self._matrix_size')
    yield ob('QRCode._matrix_size is read from the matrix', nf.same(ms, '(len(matrix[0]), len(matrix))'), init,
             got=ast.unparse(ms), want='(len(matrix[0]), len(matrix))')
    md = got_copy.get('self._mode')
    need(md is not None, 'QRCode.__init__ does not assign self._mode')
    bm = pat.need(md, 'code.segments[0].mode if len(code.segments) == 1 else None', 'QRCode._mode')
    yield ob('QRCode._mode is the mode of the single segment', bm is not None, init, got=ast.unparse(md),
             want='code.segments[0].mode if len(code.segments) == 1 else None')
    # properties
    props = {'version': 'encoder.get_version_name(self._version)', 'is_micro': 'self._version < 1',
             'default_border_size': 'utils.get_default_border_size(self._matrix_size)'}
    for p, want in props.items():
        f = fx.fn('__init__', f'QRCode.{p}')
        rets = [s for s in ast.walk(f) if isinstance(s, ast.Return)]
        r = single(rets, f'return in QRCode.{p}')
        yield ob(f'QRCode.{p}', pat.slot(r.value, [want], p) if pat.simple(r.value) or nf.norm(r.value) == nf.norm(ast.parse(want, mode="eval").body)
                 else _unknown(f'QRCode.{p} returns `{ast.unparse(r.value)}`'), f, got=ast.unparse(r.value), want=want)
    f = fx.fn('__init__', 'QRCode.error')
    rets = sorted(ast.unparse(s.value) for s in ast.walk(f) if isinstance(s, ast.Return))
    yield ob('QRCode.error', rets == ['None', 'encoder.get_error_name(self._error)'], f, got=rets,
             want=['None', 'encoder.get_error_name(self._error)'])
    f = fx.fn('__init__', 'QRCode.mode')
    rets = sorted(ast.unparse(s.value) for s in ast.walk(f) if isinstance(s, ast.Return))
    yield ob('QRCode.mode', rets == ['None', 'encoder.get_mode_name(self._mode)'], f, got=rets,
             want=['None', 'encoder.get_mode_name(self._mode)'])
    # name functions invert the mappings (decision table over all constants)
    it = Interp()
    mv = micro_versions(fx)
    gvn = make_callable(fx.forest, 'encoder', 'get_version_name', it)
    for v in iso.ALL_VERSIONS:
        want = v if v >= 1 else f'M{v + 4}'
        got = gvn(mv[v] if v < 1 else v)
        yield ob(f'get_version_name v{v}', got == want, fx.fn('encoder', 'get_version_name'), got=got, want=want)
    gen = make_callable(fx.forest, 'encoder', 'get_error_name', it)
    for n, val in levels(fx).items():
        yield ob(f'get_error_name {n}', gen(val) == n, fx.fn('encoder', 'get_error_name'), got=gen(val), want=n)
    gmn = make_callable(fx.forest, 'encoder', 'get_mode_name', it)
    mm = C(fx, 'MODE_MAPPING')
    yield ob('MODE_MAPPING values unique', len(set(mm.values())) == len(mm), fx.forest.mod('consts'),
             where='consts.MODE_MAPPING', got=mm, want='injective')
    for name, val in mm.items():
        yield ob(f'get_mode_name {name}', gmn(val) == name, fx.fn('encoder', 'get_mode_name'), got=gmn(val), want=name)
    # designator
    f = fx.fn('__init__', 'QRCode.designator')
    r = single([s for s in ast.walk(f) if isinstance(s, ast.Return)], 'return in designator')
    yield ob('QRCode.designator', nf.same(r.value, "'-'.join((version, self.error) if self.error else (version,))")
             and any(ast.unparse(s) == 'version = str(self.version)' for s in f.body), f, got=ast.unparse(r.value),
             want="'-'.join((version, self.error) if self.error else (version,))")
    # default border and symbol size over all sizes
    gdb = make_callable(fx.forest, 'utils', 'get_default_border_size', it)
    bad = [(v, gdb((iso.size_of(v),) * 2)) for v in iso.ALL_VERSIONS if gdb((iso.size_of(v),) * 2) != (2 if v < 1 else 4)]
    yield ob('default border: 2 for the four Micro sizes, 4 for the forty QR sizes', not bad, fx.fn('utils', 'get_default_border_size'),
             got=bad[:4], want=[])
    gss = make_callable(fx.forest, 'utils', 'get_symbol_size', it)
    bad = []
    for v in (-3, 0, 1, 7, 40):
        n = iso.size_of(v)
        for s in (1, 3, 2.5):
            for b in (None, 0, 1, 5):
                bb = (2 if v < 1 else 4) if b is None else b
                got = gss((n, n), s, b)
                if tuple(got) != ((n + 2 * bb) * s, (n + 2 * bb) * s):
                    bad.append((n, s, b, got))
    yield ob('get_symbol_size = (size + 2*border) * scale', not bad, fx.fn('utils', 'get_symbol_size'), got=bad[:3], want=[])
    f = fx.fn('__init__', 'QRCode.symbol_size')
    r = single([s for s in ast.walk(f) if isinstance(s, ast.Return)], 'return in symbol_size')
    yield ob('QRCode.symbol_size', nf.same(r.value, 'utils.get_symbol_size(self._matrix_size,scale=scale,border=border)'), f,
             got=ast.unparse(r.value), want='utils.get_symbol_size(self._matrix_size, scale=scale, border=border)')


def _unknown(msg):
    raise Unknown(msg)


@rule('C02', 'R8', 29, 'the mask number announced in the format information is the mask that was applied (selection and requested path, C06.R2/R3)')
def r8(fx):
    from . import p06
    yield from p06.r2(fx)
    yield from p06.r3(fx)


@rule('C02', 'R9', 160, 'every data placeholder is overwritten: remainder bits per version = modules not covered by codewords (C03.R5)')
def r9(fx):
    from . import p03
    for o in p03.r5(fx):
        if o.key.startswith('final message v') and not o.key.startswith('final message v-') and not o.key.startswith('final message v0'):
            yield o


@rule('C02', 'R4', 3, 'literal patterns: finder 7x7 with separator ring, alignment 5x5')
def r4(fx):
    fp = C(fx, '_FINDER_PATTERN', 'encoder')
    want = [[0] * 9] + [[0] + list(r) + [0] for r in iso.FINDER] + [[0] * 9]
    yield table_ob(fx, '_FINDER_PATTERN', 'all', [list(r) for r in fp], want, mod='encoder')
    fn = fx.fn('encoder', 'add_alignment_patterns')
    a = single([s for s in fn.body if isinstance(s, ast.Assign) and ast.unparse(s.targets[0]) == 'pattern'], 'alignment literal')
    val = list(ev.ev(a.value, {}))
    yield ob('alignment literal', val == [x for r in iso.ALIGNMENT for x in r], a, got=val, want='ISO 5x5 alignment pattern')
    v = single([s for s in fn.body if isinstance(s, ast.Assign) and ast.unparse(s.targets[0]) == 'version'], 'version from width')
    okv = all(ev.ev(v.value, {'width': iso.size_of(k)}) == k for k in range(1, 41))
    yield ob('version derived from width for all 40 QR sizes', okv, v, got=ast.unparse(v.value), want='(width - 17) // 4')
