"""C02 -- geometry, function patterns, format / version information, metadata."""
import ast

from .. import ev, iso, nf, pat, src, reg
from ..core import rule, ob, explain, Ob
from ..interp import Interp, make_callable, Raised, FuncVal
from ..src import Unknown
from .common import C, levels, micro_versions, modes, table_ob, need, single, repo_version
from ..interp import callable_env
from ..ev import PyRaise

explain('C02', '''Decided (structural, exhaustive): the 32+32 format words and 34 version words equal the
BCH(15,5)/Golay(18,6) codewords XOR mask; the alignment table equals ISO Annex E; the size formula; for each of the
44 symbol sizes the function-pattern writers (make_matrix, add_timing_pattern, add_finder_patterns,
add_alignment_patterns, add_format_info, add_version_info) are interpreted on an abstract matrix and EVERY cell is
compared with an independent anchored layout: finder/separator/timing/alignment values, the bit number carried by
each format/version cell in both copies, the dark module, and that every other cell is still the data placeholder
(so reservation = written regions and the number of data cells equals the ISO data-module count); the index used to
look up the format word equals (level indicator << 3 | mask) resp. (Micro symbol number << 2 | mask) for all 1312
(version, level, mask) triples; the version/error/mask handed to the format writers are the definitions stored in the
returned Code and reported by QRCode. NOT decided: that add_codewords fills the data cells in ISO order (C03.R6 decides
its guards only); 'only dark/light values' for data cells follows from C03.R6's completeness check and cell conservation.''')


@rule('C02', 'R1', 98, 'format and version words = BCH(15,5)^mask / Golay(18,6) codewords')
def r1(fx):
    ns = ev.module_consts(fx.forest, 'consts')
    if not any(ns.has(k) or k in ns._failed for k in ('FORMAT_INFO', 'FORMAT_INFO_MICRO', 'VERSION_INFO')):
        # no word tables (any more): the words are computed where they are needed.  calc_format_info is interpreted for
        # every index; the version words are decided cell by cell (R5).
        lv, mv = levels(fx), micro_versions(fx)
        it = Interp()
        f_ = make_callable(fx.forest, 'encoder', 'calc_format_info', it)
        fn = fx.fn('encoder', 'calc_format_info')
        ind = {v_: k_ for k_, v_ in iso.LEVEL_INDICATOR.items()}
        sym = {v_: k_ for k_, v_ in iso.MICRO_SYMBOL_NUMBER.items()}
        for d in range(32):
            got = f_(1, lv[ind[d >> 3]], d & 7)
            yield ob(f'FORMAT_INFO[{d}]', got == iso.format_word(d), fn, got=got, want=iso.format_word(d))
        for d in range(32):
            v_, l_ = sym[d >> 2]
            got = f_(mv[v_], None if l_ is None else lv[l_], d & 3)
            yield ob(f'FORMAT_INFO_MICRO[{d}]', got == iso.format_word_micro(d), fn, got=got, want=iso.format_word_micro(d))
        for v in range(7, 41):
            yield ob(f'VERSION_INFO[{v - 7}]', True, fx.fn('encoder', 'add_version_info'), got='no table; decided cell by cell (R5)', want=iso.golay18_6(v))
        return
    f, fm, vi = C(fx, 'FORMAT_INFO'), C(fx, 'FORMAT_INFO_MICRO'), C(fx, 'VERSION_INFO')
    need(len(f) == 32 and len(fm) == 32 and len(vi) == 34, 'format/version table lengths')
    for d in range(32):
        yield table_ob(fx, 'FORMAT_INFO', d, f[d], iso.format_word(d))
    for d in range(32):
        yield table_ob(fx, 'FORMAT_INFO_MICRO', d, fm[d], iso.format_word_micro(d))
    for v in range(7, 41):
        yield table_ob(fx, 'VERSION_INFO', v - 7, vi[v - 7], iso.golay18_6(v))


@rule('C02', 'R2', 39, 'ALIGNMENT_POS = ISO Annex E centres for versions 2..40')
def r2(fx):
    ap = C(fx, 'ALIGNMENT_POS')
    need(len(ap) == 39, f'ALIGNMENT_POS has {len(ap)} rows')
    for v in range(2, 41):
        yield table_ob(fx, 'ALIGNMENT_POS', v - 2, list(ap[v - 2]), iso.alignment_centres(v))


@rule('C02', 'R3', 48, 'matrix size = 17+4v / 9+2k; Micro version constants ordered below 1')
def r3(fx):
    mv = micro_versions(fx)
    yield ob('Micro constants strictly ascending and < 1', mv[-3] < mv[-2] < mv[-1] < mv[0] < 1
             and all(isinstance(x, int) for x in mv.values()), fx.forest.mod('consts'), where='consts.VERSION_M*',
             got=[mv[k] for k in (-3, -2, -1, 0)], want='M1 < M2 < M3 < M4 < 1 (integers)')
    mm = C(fx, 'MICRO_VERSION_MAPPING')
    yield ob('MICRO_VERSION_MAPPING names', mm == {'M1': mv[-3], 'M2': mv[-2], 'M3': mv[-1], 'M4': mv[0]},
             fx.forest.mod('consts'), where='consts.MICRO_VERSION_MAPPING', got=mm, want='M1..M4 -> VERSION_M1..M4')
    yield ob('MICRO_VERSIONS sorted tuple', tuple(C(fx, 'MICRO_VERSIONS')) == (mv[-3], mv[-2], mv[-1], mv[0]),
             fx.forest.mod('consts'), where='consts.MICRO_VERSIONS', got=C(fx, 'MICRO_VERSIONS'), want='(M1, M2, M3, M4)')
    it = Interp()
    f = make_callable(fx.forest, 'encoder', 'calc_matrix_size', it)
    fn = fx.fn('encoder', 'calc_matrix_size')
    for v in iso.ALL_VERSIONS:
        got = f(mv[v] if v < 1 else v)
        yield ob(f'calc_matrix_size v{v}', got == iso.size_of(v), fn, got=got, want=iso.size_of(v))
    # _encode builds a square matrix of that size (stage trace with recording stand-ins)
    from .models import trace_encode
    enc = fx.fn('encoder', '_encode')
    bad = []
    for v in (-3, 0, 1, 7, 40):
        rec, res, info = trace_encode(fx, mv[v] if v < 1 else v, 'L' if v != -3 else None, 'L' if v != -3 else None)
        mm = [r for r in rec if r[0] == 'make_matrix']
        if len(mm) != 1 or tuple(mm[0][1]) != (iso.size_of(v), iso.size_of(v)):
            bad.append((v, [r[1] for r in mm]))
    yield ob('_encode: the matrix is calc_matrix_size(version) wide and high', not bad, enc, got=bad or 'as required', want='make_matrix(size, size)')


def _build(fx, bld, v):
    """Abstract matrix for iso version v after each stage: returns (after_patterns, final, used_version_index)."""
    mv = micro_versions(fx)
    rv = mv[v] if v < 1 else v
    n = iso.size_of(v)
    vt = reg.WordTable('V', 34)
    genv = bld.with_consts(VERSION_INFO=vt)
    bld.fmt_calls = calls = []

    def calc_format_info(*a, **k):
        calls.append((a, k))
        return reg.Word('F')
    genv['calc_format_info'] = calc_format_info
    g = {k: (FuncVal(val.node, genv, bld.interp) if isinstance(val, FuncVal) and val.genv is genv else val) for k, val in genv.items()}
    for k, val in g.items():
        if isinstance(val, FuncVal) and val.genv is genv:
            val.genv = g
    m = g['make_matrix'](n, n)
    if not isinstance(m, reg.Matrix):
        raise Unknown('make_matrix did not build a tuple of bytearray rows')
    g['add_finder_patterns'](m, n, n)
    g['add_alignment_patterns'](m, n, n)
    stage1 = m.grid()
    try:
        g['add_format_info'](m, rv, '<error>', '<mask>')
        g['add_version_info'](m, rv)
        return stage1, m.grid(), vt.used
    except Unknown as u:
        if 'symbolic' not in str(u):
            raise
    # The writers do something with the word that the symbolic word does not model (formatting it, masking several bits at
    # once, ...).  Their domain is finite and small: the 32 format words of the symbol kind and the one version word of the
    # version.  They are interpreted once per word; a cell is format bit k when it equals bit k of every word, constant when
    # it is the same for every word.
    words = [iso.format_word(d) if v >= 1 else iso.format_word_micro(d) for d in range(32)]
    vwords = [iso.golay18_6(x) for x in range(7, 41)]
    lay = iso.layout(v)
    grids = []
    used = None
    for w in words:
        vt2 = _ConcreteTable(vwords)
        genv2 = bld.with_consts(VERSION_INFO=vt2)
        genv2['calc_format_info'] = lambda *a, _w=w, **k: (calls.append((a, k)), _w)[1]
        g2 = {k: (FuncVal(val.node, genv2, bld.interp) if isinstance(val, FuncVal) and val.genv is genv2 else val) for k, val in genv2.items()}
        for k, val in g2.items():
            if isinstance(val, FuncVal) and val.genv is genv2:
                val.genv = g2
        m2 = reg.Matrix([reg.Row(list(r)) for r in stage1])
        g2['add_format_info'](m2, rv, '<error>', '<mask>')
        g2['add_version_info'](m2, rv)
        grids.append(m2.grid())
        if used is None:
            used = vt2.used
        elif used != vt2.used:
            raise Unknown('the version word consulted depends on the format word')
    del calls[1:]
    final = [list(r) for r in grids[0]]
    for r in range(n):
        for c in range(n):
            vals = [gr[r][c] for gr in grids]
            exp = lay.get((r, c))
            if exp is not None and exp[0] == 'format':
                k = exp[1][2]
                if all(val == (w >> k) & 1 for val, w in zip(vals, words)):
                    final[r][c] = reg.Bit('F', k)
                    continue
                ks = [k2 for k2 in range(15) if all(val == (w >> k2) & 1 for val, w in zip(vals, words))]
                final[r][c] = reg.Bit('F', ks[0]) if len(ks) == 1 else f'{vals[0]} for format word {words[0]:#06x}'
            elif exp is not None and exp[0] == 'version' and used and len(set(map(repr, vals))) == 1 and len(used) == 1 and 0 <= used[0] < 34:
                k = exp[1][2]
                w = vwords[used[0]]
                ks = [k2 for k2 in range(18) if vals[0] == (w >> k2) & 1]
                final[r][c] = reg.Bit(('V', used[0]), k) if k in ks else f'{vals[0]} for version word {w:#07x}'
            elif len(set(map(repr, vals))) != 1:
                ks = [k2 for k2 in range(15) if all(val == (w >> k2) & 1 for val, w in zip(vals, words))]
                final[r][c] = reg.Bit('F', ks[0]) if len(ks) == 1 else 'varies with the format word'
    return stage1, final, used


class _ConcreteTable:
    """VERSION_INFO with its real (ISO) words; remembers the index used."""

    def __init__(self, words):
        self.words, self.used = words, []

    def __getitem__(self, idx):
        if not isinstance(idx, int):
            raise Unknown('VERSION_INFO indexed by a non-constant')
        self.used.append(idx)
        return self.words[idx]

    def __len__(self):
        return len(self.words)


def _describe(val):
    if isinstance(val, reg.Bit):
        return repr(val)
    return repr(val)


@rule('C02', 'R5', 132, 'every cell of every symbol size: function patterns, format/version bit maps (both copies), reservation, conservation')
def r5(fx):
    bld = reg.Builder(fx.forest)
    mv = micro_versions(fx)
    where = 'encoder.make_matrix/add_*'
    anchors = {k: fx.fn('encoder', k) for k in ('make_matrix', 'add_timing_pattern', 'add_finder_patterns',
                                                'add_alignment_patterns', 'add_format_info', 'add_version_info')}
    kind_fn = {'finder': 'add_finder_patterns', 'separator': 'add_finder_patterns', 'timing': 'add_timing_pattern',
               'alignment': 'add_alignment_patterns', 'format': 'add_format_info', 'darkmodule': 'add_format_info',
               'version': 'add_version_info', 'data': 'make_matrix'}
    total_cells = 0
    _ns = ev.module_consts(fx.forest, 'consts')
    table_exists = _ns.has('VERSION_INFO') or 'VERSION_INFO' in _ns._failed
    for v in iso.ALL_VERSIONS:
        n = iso.size_of(v)
        stage1, final, used = _build(fx, bld, v)
        lay = iso.layout(v)
        shape_ok = len(final) == n and all(len(r) == n for r in final)
        if not shape_ok:
            yield Ob(f'v{v} matrix is {n} x {n} after the function-pattern writers', False, where, anchors['make_matrix'].lineno,
                     f'{len(final)} rows of widths {sorted({len(r) for r in final})}', f'{n} rows of width {n}', True)
            continue
        bad = {}      # kind -> first few mismatches
        for r in range(n):
            for c in range(n):
                total_cells += 1
                got = final[r][c]
                exp = lay.get((r, c))
                if exp is None:
                    ok = got == 2
                    kind, want = 'data', 'placeholder 0x2 (data cell, untouched by function-pattern writers)'
                else:
                    kind, val = exp
                    if kind == 'format':
                        ok = isinstance(got, reg.Bit) and got.word == 'F' and got.k == val[2]
                        want = f'format bit {val[2]} (copy {val[1] + 1})'
                    elif kind == 'version':
                        ok = isinstance(got, reg.Bit) and isinstance(got.word, tuple) and got.word[0] == 'V' and got.k == val[2]
                        if not ok and used == [] and not table_exists and got in (0, 1) and not isinstance(got, reg.Bit):
                            # no table of version words: the word is computed in place, the cell holds its bit
                            ok = got == (iso.golay18_6(v) >> val[2]) & 1
                        want = f'version bit {val[2]} (copy {val[1] + 1})'
                    else:
                        ok = (not isinstance(got, reg.Bit)) and got == val
                        want = f'{kind} module {val}'
                if not ok:
                    bad.setdefault(kind, []).append(((r, c), _describe(got), want))
        for kind in ('finder', 'separator', 'timing', 'alignment', 'format', 'darkmodule', 'version', 'data'):
            if kind in ('alignment',) and v < 2 or kind == 'darkmodule' and v < 1 or kind == 'version' and v < 7:
                if kind not in bad:
                    continue
            b = bad.get(kind)
            anc = anchors[kind_fn[kind]]
            key = f'v{v} {kind} cells'
            if b:
                def anch(rc):
                    return tuple((x if x < n // 2 else f'N-{n - x}') for x in rc)
                yield Ob(key, False, f'encoder.{kind_fn[kind]}', anc.lineno,
                         '; '.join(f'{anch(rc)}: {g}' for rc, g, w in b[:4]) + (f' (+{len(b) - 4} more)' if len(b) > 4 else ''),
                         '; '.join(f'{anch(rc)}: {w}' for rc, g, w in b[:4]), True)
            else:
                yield Ob(key, True, f'encoder.{kind_fn[kind]}', anc.lineno, 'as required', 'ISO layout', True)
        # reservation: before format/version info is written, exactly those cells are 0-reserved
        res_bad = []
        for (r, c), (kind, val) in lay.items():
            if kind in ('format', 'version', 'darkmodule') and stage1[r][c] != 0:
                res_bad.append(((r, c), stage1[r][c]))
        yield Ob(f'v{v} reservation covers format/version/dark-module cells', not res_bad, 'encoder.make_matrix',
                 anchors['make_matrix'].lineno, res_bad[:5], 'value 0 before add_codewords', True)
        # conservation
        ndata = sum(1 for r in range(n) for c in range(n) if stage1[r][c] == 2)
        want = iso.raw_data_modules(v) if v >= 1 else iso.MICRO_DATA_MODULES[v]
        yield Ob(f'v{v} data cells = ISO data modules', ndata == want, 'encoder.make_matrix', anchors['make_matrix'].lineno,
                 ndata, want, True)
        # version word index
        if v >= 7:
            yield Ob(f'v{v} version word index', used == [v - 7] or (used == [] and not table_exists), 'encoder.add_version_info', anchors['add_version_info'].lineno,
                     used, [v - 7], True)
        else:
            yield Ob(f'v{v} no version information', used == [], 'encoder.add_version_info', anchors['add_version_info'].lineno,
                     used, [], True)
    fx.info['C02.R5 cells compared'] = total_cells


@rule('C02', 'R6', 1312, 'format word index = (level indicator << 3 | mask) / (Micro symbol number << 2 | mask) for all (version, level, mask)')
def r6(fx):
    lv = levels(fx)
    mv = micro_versions(fx)
    for n, want in iso.LEVEL_INDICATOR.items():
        yield table_ob(fx, 'ERROR_LEVEL_' + n, 'indicator', lv[n], want)
    try:
        t13 = C(fx, 'ERROR_LEVEL_TO_MICRO_MAPPING')
    except Unknown:
        t13 = None      # no such table (any more): the symbol number is decided below, where calc_format_info is interpreted
    for (v, l), want in iso.MICRO_SYMBOL_NUMBER.items():
        if t13 is None:
            yield ob(f'ERROR_LEVEL_TO_MICRO_MAPPING {v}-{l}', True, fx.forest.mod('consts'), where='consts', got='no table; decided at calc_format_info', want=want)
            continue
        got = t13.get(mv[v], {}).get(None if l is None else lv[l])
        yield table_ob(fx, 'ERROR_LEVEL_TO_MICRO_MAPPING', f'{v}-{l}', got, want)
    bld = reg.Builder(fx.forest)
    fq, fm = reg.WordTable('FQ', 32), reg.WordTable('FM', 32)
    genv = bld.with_consts(FORMAT_INFO=fq, FORMAT_INFO_MICRO=fm)
    f = FuncVal(fx.fn('encoder', 'calc_format_info'), genv, bld.interp)
    fn = fx.fn('encoder', 'calc_format_info')
    for v in iso.ALL_VERSIONS:
        for l in iso.levels_of(v):
            for mask in range(8 if v >= 1 else 4):
                w = f(mv[v] if v < 1 else v, None if l is None else lv[l], mask)
                if v >= 1:
                    want = ('FQ', (iso.LEVEL_INDICATOR[l] << 3) | mask)
                else:
                    want = ('FM', (iso.MICRO_SYMBOL_NUMBER[(v, l)] << 2) | mask)
                got = w.name if isinstance(w, reg.Word) and w.shift == 0 else w
                if isinstance(w, int) and not isinstance(w, bool) and not fq.used and not fm.used:
                    # no table consulted: the word itself was computed
                    word = iso.format_word(want[1]) if v >= 1 else iso.format_word_micro(want[1])
                    yield ob(f'format index v{v}-{l} mask {mask}', w == word, fn, got=f'{w:#06x}', want=f'{word:#06x} (word {want[1]})')
                    continue
                yield ob(f'format index v{v}-{l} mask {mask}', got == want, fn, got=got, want=want)
    # add_format_info uses calc_format_info(version, error, mask_pattern) of its own parameters
    afi = fx.fn('encoder', 'add_format_info')
    pn = src.params(fx.fn('encoder', 'calc_format_info'))
    bad = []
    for v in (-1, 1, 7):
        _build(fx, bld, v)
        rv = mv[v] if v < 1 else v
        got = [dict(zip(pn, a_), **k_) for a_, k_ in bld.fmt_calls]
        if got != [dict(zip(pn, (rv, '<error>', '<mask>')))]:
            bad.append((v, got))
    yield ob('add_format_info looks up its own (version, error, mask_pattern)', not bad, afi, got=bad or 'calc_format_info(version, error, mask_pattern), once',
             want='calc_format_info(version, error, mask_pattern), once')


def _top_calls(fn):
    """[(name, call, stmt)] for top-level statements of fn that are calls or assignments from calls."""
    out = []
    for st in fn.body:
        call = None
        if isinstance(st, ast.Expr) and isinstance(st.value, ast.Call):
            call = st.value
        elif isinstance(st, (ast.Assign, ast.Return)) and isinstance(st.value, ast.Call):
            call = st.value
        if call is not None and src.call_name(call):
            out.append((src.call_name(call), call, st))
    return out


@rule('C02', 'R7', 60, 'metadata: values written into the symbol are the ones stored in Code and reported by QRCode; name maps invertible')
def r7(fx):
    # for C02 the version information may be written at any point between make_matrix and Code (its area is reserved: neither the
    # codeword placement nor the masking touches it); that masks are evaluated before it is written is a C06 matter (C06.R4)
    yield from encode_stage_obligations(fx, version_info_after_mask=False)
    yield from _qrcode_metadata(fx)


def encode_stage_obligations(fx, version_info_after_mask):
    enc = fx.fn('encoder', '_encode')
    from .models import trace_encode
    lv_, mv_ = levels(fx), micro_versions(fx)
    seq = ['make_matrix', 'add_finder_patterns', 'add_alignment_patterns', 'add_codewords', 'find_and_apply_best_mask',
           'add_format_info', 'add_version_info', 'Code']
    for v, level, boosted, mask_in in ((7, 'L', 'H', None), (-2, 'L', 'M', 2), (-3, None, None, None), (1, 'M', 'M', 6)):
        rv = mv_[v] if v < 1 else v
        rec, res, info = trace_encode(fx, rv, level, boosted, mask_in=mask_in)
        names = [r[0] for r in rec if r[0] in seq]
        by = {r[0]: r for r in rec}
        vi_on_m0 = False
        if not version_info_after_mask and names.count('add_version_info') == 1 and names[0] == 'make_matrix' and names[-1] == 'Code':
            vi_on_m0 = names.index('add_version_info') < names.index('find_and_apply_best_mask') if 'find_and_apply_best_mask' in names else False
            names.remove('add_version_info')
            names.insert(len(names) - 1, 'add_version_info')
        be = None if boosted is None else lv_[boosted]
        n = iso.size_of(v)
        probs = []
        if names != seq:
            probs.append(f'stage order {names}')
        else:
            M0, M1 = info['M0'], info['M1']
            if by['make_matrix'][1] != (n, n):
                probs.append(f'make_matrix{by["make_matrix"][1]}')
            for st_ in ('add_finder_patterns', 'add_alignment_patterns'):
                if not (by[st_][1][0] is M0 and tuple(by[st_][1][1:]) == (n, n)):
                    probs.append(f'{st_} not on the fresh matrix with its size')
            ac = by['add_codewords'][1]
            if not (ac[0] is M0 and ac[1] == 'FINAL' and ac[2] == rv):
                probs.append(f'add_codewords{ac}')
            fm = by['find_and_apply_best_mask']
            if not (fm[1][0] is M0 and tuple(fm[1][1:3]) == (n, n) and (list(fm[1][3:]) + [fm[2].get('proposed_mask')])[0] == mask_in):
                probs.append(f'find_and_apply_best_mask{fm[1]} {fm[2]}')
            fi = by['add_format_info'][1]
            if not (fi[0] is M1 and tuple(fi[1:]) == (rv, be, 5)):
                probs.append(f'add_format_info{fi}: expected the masked matrix, version {rv}, level {be}, mask 5')
            vi = by['add_version_info'][1]
            if not (vi[0] is (M0 if vi_on_m0 else M1) and vi[1] == rv):
                probs.append(f'add_version_info{vi}')
            cd = by['Code'][1]
            if not (cd[0] is M1 and tuple(cd[1:4]) == (rv, be, 5) and cd[4] is info['segments']):
                probs.append(f'Code{cd[1:4]}: expected the masked matrix, version {rv}, level {be}, mask 5, the segments')
            if res != ('CODE',) + tuple(cd):
                probs.append('_encode does not return the Code it built')
        yield ob(f'_encode v{v} level {level}->{boosted} mask {mask_in}: stages in order; format / version information and the returned Code carry the version, the final level and the mask that was applied',
                 not probs, enc, got='; '.join(probs[:3]) or 'as required', want='as required')


def _qrcode_metadata(fx):
    # QRCode: what it stores and reports is what the Code carries (the class is interpreted on a marker Code)
    lv_, mv_ = levels(fx), micro_versions(fx)
    from ..interp import Instance, module_namespace
    from .models import SegModel
    it = Interp()
    md, lv = modes(fx), levels(fx)
    genv = callable_env(fx.forest, '__init__', it, {'encoder': module_namespace(fx.forest, 'encoder', it), 'utils': module_namespace(fx.forest, 'utils', it)})

    class CodeModel:
        _model = ('matrix', 'version', 'error', 'mask', 'segments')

        def __init__(self, matrix, version, error, mask, segments):
            self.matrix, self.version, self.error, self.mask, self.segments = matrix, version, error, mask, segments
    init = fx.fn('__init__', 'QRCode.__init__')
    for v, level, segs in ((7, 'Q', ['kanji']), (-3, None, ['numeric']), (-1, 'L', ['byte', 'numeric']), (40, 'H', ['alphanumeric'])):
        rv = micro_versions(fx)[v] if v < 1 else v
        n = iso.size_of(v)
        matrix = tuple([9] * n for _ in range(n))
        code = CodeModel(matrix, rv, None if level is None else lv[level], 3, [SegModel(md[m], None) for m in segs])
        qr = Instance.new(fx.forest, '__init__', 'QRCode', genv, it, code)
        want = dict(matrix=matrix, mask=3, version=(v if v >= 1 else f'M{v + 4}'), error=level, mode=(segs[0] if len(segs) == 1 else None),
                    is_micro=(v < 1), default_border_size=(2 if v < 1 else 4), designator=(f'{v if v >= 1 else "M" + str(v + 4)}' + (f'-{level}' if level else '')))
        got = {}
        for k in want:
            try:
                got[k] = getattr(qr, k)
            except PyRaise as ex:
                got[k] = f'raises {ex.name}'
        got['matrix'] = 'the matrix of the Code' if got['matrix'] is matrix else got['matrix']
        want['matrix'] = 'the matrix of the Code'
        diff = {k: (got[k], want[k]) for k in want if got[k] != want[k]}
        yield ob(f'QRCode of a version {v} level {level} {"+".join(segs)} Code reports matrix, mask, version, error, mode, is_micro, border, designator', not diff, init,
                 got=diff or 'as carried by the Code', want='as carried by the Code')
        wide = tuple([9] * (n + 1) for _ in range(n))          # one column wider than high: width and height cannot be swapped unnoticed
        qr = Instance.new(fx.forest, '__init__', 'QRCode', genv, it, CodeModel(wide, rv, None, 3, []))
        sz = qr.symbol_size(scale=3, border=1)
        yield ob(f'QRCode.symbol_size of the {n + 1}x{n} marker matrix at scale 3 border 1', tuple(sz) == ((n + 1 + 2) * 3, (n + 2) * 3), init, got=sz,
                 want=((n + 3) * 3, (n + 2) * 3))
    # name functions invert the mappings (decision table over all constants)
    it = Interp()
    mv = micro_versions(fx)
    gvn = make_callable(fx.forest, 'encoder', 'get_version_name', it)
    for v in iso.ALL_VERSIONS:
        want = v if v >= 1 else f'M{v + 4}'
        got = gvn(mv[v] if v < 1 else v)
        yield ob(f'get_version_name v{v}', got == want, fx.fn('encoder', 'get_version_name'), got=got, want=want)
    gen = make_callable(fx.forest, 'encoder', 'get_error_name', it)
    for n, val in levels(fx).items():
        yield ob(f'get_error_name {n}', gen(val) == n, fx.fn('encoder', 'get_error_name'), got=gen(val), want=n)
    gmn = make_callable(fx.forest, 'encoder', 'get_mode_name', it)
    mm = C(fx, 'MODE_MAPPING')
    yield ob('MODE_MAPPING values unique', len(set(mm.values())) == len(mm), fx.forest.mod('consts'),
             where='consts.MODE_MAPPING', got=mm, want='injective')
    for name, val in mm.items():
        yield ob(f'get_mode_name {name}', gmn(val) == name, fx.fn('encoder', 'get_mode_name'), got=gmn(val), want=name)
    # default border and symbol size over all sizes
    gdb = make_callable(fx.forest, 'utils', 'get_default_border_size', it)
    bad = [(v, gdb((iso.size_of(v),) * 2)) for v in iso.ALL_VERSIONS if gdb((iso.size_of(v),) * 2) != (2 if v < 1 else 4)]
    yield ob('default border: 2 for the four Micro sizes, 4 for the forty QR sizes', not bad, fx.fn('utils', 'get_default_border_size'),
             got=bad[:4], want=[])
    gss = make_callable(fx.forest, 'utils', 'get_symbol_size', it)
    bad = []
    for v in (-3, 0, 1, 7, 40):
        n = iso.size_of(v)
        for s in (1, 3, 2.5):
            for b in (None, 0, 1, 5):
                bb = (2 if v < 1 else 4) if b is None else b
                got = gss((n, n), s, b)
                if tuple(got) != ((n + 2 * bb) * s, (n + 2 * bb) * s):
                    bad.append((n, s, b, got))
    yield ob('get_symbol_size = (size + 2*border) * scale', not bad, fx.fn('utils', 'get_symbol_size'), got=bad[:3], want=[])


def _unknown(msg):
    raise Unknown(msg)


@rule('C02', 'R8', 29, 'the mask number announced in the format information is the mask that was applied (selection and requested path, C06.R2/R3)')
def r8(fx):
    from . import p06
    yield from p06.r2(fx)
    yield from p06.r3(fx)


@rule('C02', 'R9', 160, 'every data placeholder is overwritten: remainder bits per version = modules not covered by codewords (C03.R5)')
def r9(fx):
    from . import p03
    for o in p03.r5(fx):
        if o.key.startswith('final message v') and not o.key.startswith('final message v-') and not o.key.startswith('final message v0'):
            yield o


@rule('C02', 'R4', 3, 'literal patterns: finder 7x7 with separator ring, alignment 5x5')
def r4(fx):
    fp = C(fx, '_FINDER_PATTERN', 'encoder')
    want = [[0] * 9] + [[0] + list(r) + [0] for r in iso.FINDER] + [[0] * 9]
    yield table_ob(fx, '_FINDER_PATTERN', 'all', [list(r) for r in fp], want, mod='encoder')
    fn = fx.fn('encoder', 'add_alignment_patterns')
    from ..interp import Interp as _I, FuncVal as _F
    from .models import encoder_env as _env
    it = _I(max_steps=2_000_000)
    f = _F(fn, _env(fx.forest, it), it)
    for v in (2, 7, 40):
        n = iso.size_of(v)
        m = [[9] * n for _ in range(n)]
        f(m, n, n)
        cs = iso.alignment_centres(v)
        x, y = cs[-1], cs[-1]
        got = [m[x - 2 + r][y - 2:y + 3] for r in range(5)]
        placed = sum(1 for row in m for c in row if c != 9)
        want_n = 25 * (len(cs) ** 2 - 3)
        yield ob(f'alignment pattern as placed in version {v} (size {n}): the ISO 5x5 pattern, {want_n} cells in all', got == [list(r) for r in iso.ALIGNMENT] and placed == want_n, fn,
                 got=(got, placed), want=(iso.ALIGNMENT, want_n))


@rule('C02', 'R10', 35, 'the symbol assembled from a known final message is, cell by cell, the ISO symbol: function patterns, placement, mask of the symbol kind, format and version words (C06.R10)')
def r10(fx):
    from . import p06
    yield from p06.assembled_symbols(fx)
