"""C05 -- error level never below the request; boosting keeps the version."""
import ast

from .. import ev, iso, nf, pat, src
from ..core import rule, ob, explain, Ob
from ..ev import PyRaise
from ..interp import Interp, make_callable, FuncVal
from ..src import Unknown
from .common import C, levels, micro_versions, modes, table_ob, need, single
from .models import SegModel, SegmentsModel, encoder_env
from . import p04, wrappers

explain('C05', '''Decided (structural): capacities strictly decrease along L, M, Q, H for every version (which is what
makes "stop at the first level that does not fit" equal to "highest level that fits"); boost_error_level - control code
over (version, level, needed bits, number of segments) - is interpreted abstractly for every version, every requested
level and both sides of every higher level's capacity, and returns the highest level of that version that still holds
the needed bits, never a lower one, never H/Q where the version does not define it, and the unchanged level for
multi-segment content, for H and for M1; _encode boosts only under its flag, with the same length measure the version
search used, and never redefines the version; encode supplies L as default (none for M1), refuses H for Micro and passes
boost_error through; the factories forward error/boost_error. NOT decided: the needed-bit count of a concrete content
(C01.R2/R3).''')


@rule('C05', 'R1', 44, 'capacities strictly decrease along L > M > Q > H for every version')
def r1(fx):
    cap = C(fx, 'SYMBOL_CAPACITY')
    lv, mv = levels(fx), micro_versions(fx)
    for v in iso.ALL_VERSIONS:
        row = cap[mv[v] if v < 1 else v]
        seq = [row.get(lv[l]) for l in 'LMQH' if lv[l] in row]
        yield table_ob(fx, 'SYMBOL_CAPACITY', f'v{v} monotone', all(a > b for a, b in zip(seq, seq[1:])), True,
                       note=f'{seq}')


@rule('C05', 'R2', 130, 'boost_error_level returns the highest level of the version that holds the needed bits (abstract decision table)')
def r2(fx):
    fn = fx.fn('encoder', 'boost_error_level')
    lv, mv, md = levels(fx), micro_versions(fx), modes(fx)
    inv_l = {val: k for k, val in lv.items()}
    it = Interp(max_steps=20_000_000)
    genv = encoder_env(fx.forest, it)
    f = FuncVal(fn, genv, it)
    order = 'LMQH'
    for v in iso.ALL_VERSIONS:
        rv = mv[v] if v < 1 else v
        avail = [l for l in order if l in iso.levels_of(v)]
        for req in iso.levels_of(v):
            bad = None
            n = 0
            needs = {0, 1}
            for l in avail:
                c = iso.capacity_bits(v, l)
                needs |= {c - 1, c, c + 1}
            for nd in sorted(needs):
                for nseg in (1, 2):
                    segs = SegmentsModel([SegModel(md['byte'], None)] * nseg, blwo=lambda ver, e, is_sa=False, nd=nd: nd)
                    eci_flag, sa_flag = (nd % 2 == 0), (nd % 3 == 0 and v >= 1)
                    try:
                        got = f(rv, None if req is None else lv[req], segs, eci_flag, sa_flag)
                        got = inv_l.get(got, got)
                    except PyRaise as e:
                        got = f'raises {e.name}'
                    # the length is measured for this version with the caller's eci / is_sa (the measure of the version search)
                    if any(c != (rv, eci_flag, sa_flag) for c in segs.blwo_calls) and bad is None:
                        bad = (nd, nseg, f'length measured with (version, eci, is_sa) = {segs.blwo_calls[0]}', f'{(rv, eci_flag, sa_flag)}')
                    if req is None or nseg > 1:
                        want = req
                    else:
                        want = req
                        for l in avail[avail.index(req) + 1:]:
                            if iso.capacity_bits(v, l) >= nd:
                                want = l
                            else:
                                break
                    n += 1
                    if got != want and bad is None:
                        bad = (nd, nseg, got, want)
            yield ob(f'v{v} requested {req} ({n} cases)', bad is None, fn,
                     got=f'needed {bad[0]} bits, {bad[1]} segment(s): {bad[2]}' if bad else 'highest fitting level',
                     want=f'{bad[3]}' if bad else 'highest fitting level')


@rule('C05', 'R4', 20, '_encode: the level booster is consulted exactly when `boost_error` is set - for every version class and level -, with (version, level, the segments, eci, Structured Append in use), and its answer is the level used from then on')
def r4(fx):
    from .models import trace_encode, SAModel
    enc = fx.fn('encoder', '_encode')
    lv, mv = levels(fx), micro_versions(fx)
    for v, level, boosted in ((-3, None, None), (-2, 'L', 'M'), (-1, 'M', 'M'), (0, 'L', 'Q'), (0, 'M', 'Q'), (0, 'Q', 'Q'), (1, 'L', 'H'), (5, 'M', 'Q'), (40, 'H', 'H'), (7, 'Q', 'H')):
        rv = mv[v] if v < 1 else v
        for flag in (True, False):
            for eci, sa in ((False, None), (True, SAModel((3, 0, 1, 7)))) if v >= 1 else ((False, None),):
                rec, res, info = trace_encode(fx, rv, level, boosted, eci=eci, sa_info=sa, boost_error=flag)
                calls = [r for r in rec if r[0] == 'boost_error_level']
                fin = [r for r in rec if r[0] == 'make_final_message']
                want_level = (None if boosted is None else lv[boosted]) if flag else (None if level is None else lv[level])
                probs = []
                if flag and boosted != level and len(calls) != 1:
                    probs.append(f'{len(calls)} consultations of the level booster')
                if len(calls) > 1:
                    probs.append(f'{len(calls)} consultations of the level booster')
                if not flag and calls:
                    probs.append('level booster consulted although boost_error is off')
                if flag and calls:
                    a, k = calls[0][1], calls[0][2]
                    is_sa = (list(a[4:]) + [k.get('is_sa', False)])[0]
                    if tuple(a[:2]) != (rv, None if level is None else lv[level]) or a[2] is not info['segments'] or a[3] is not eci or bool(is_sa) != (sa is not None):
                        probs.append(f'booster called with {a[:2]}, eci={a[3]}, is_sa={is_sa}')
                if not fin or tuple(fin[0][1][:2]) != (rv, want_level):
                    probs.append(f'final message built for {fin[0][1][:2] if fin else None}, expected ({rv}, {want_level})')
                code = [r for r in rec if r[0] == 'Code']
                if not code or code[0][1][2] != want_level:
                    probs.append(f'Code carries level {code[0][1][2] if code else None}')
                yield ob(f'v{v} level {level} boost_error={flag} eci={eci} sa={sa is not None}', not probs, enc, got='; '.join(probs) or 'as required', want='as required')
    # measure: boost_error_level asks the segments for their bit count in that version with the same eci / is_sa (C05.R2 records the arguments)


@rule('C05', 'R9', 11, '_encode with the real level booster: the level of the symbol is the highest level of its version that holds the bits the content needs in that version (and the requested one when boosting is off)')
def r9(fx):
    """End to end over _encode: the content is a model whose bit count depends on the version it is asked about (the right
    version gives the intended count, any other argument a count that lands on the other side of the boundary)."""
    from .models import trace_encode
    enc = fx.fn('encoder', '_encode')
    lv, mv, md = levels(fx), micro_versions(fx), modes(fx)
    inv_l = {val: k for k, val in lv.items()}
    order = 'LMQH'
    versions = iso.ALL_VERSIONS if fx.tier == 'thorough' else (-3, -2, -1, 0, 1, 2, 9, 10, 26, 27, 40)
    for v in versions:
        rv = mv[v] if v < 1 else v
        avail = [l for l in order if l in iso.levels_of(v)]
        bad = None
        n = 0
        for req in iso.levels_of(v):
            caps = sorted({iso.capacity_bits(v, l) for l in avail}) if avail else [iso.capacity_bits(v, None)]
            for nd in sorted({c + d for c in caps for d in (0, 1)} | {1}):
                if nd > iso.capacity_bits(v, req):
                    continue        # does not fit the requested level: _encode is never reached with it
                for flag in (True, False):
                    def blwo(ver, e='<not passed>', is_sa=False, nd=nd):
                        return nd if ver == rv else nd + 9
                    # a numeric segment whose header and payload add up to `nd` bits in this version (a consistent model,
                    # whichever way the length is obtained)
                    head = (4 + iso.CCI['numeric'][iso.version_range(v)]) if v >= 1 else ({-3: 0, -2: 1, -1: 2, 0: 3}[v] + iso.CCI['numeric'][v])
                    if nd - head < 1:
                        continue
                    segs = SegmentsModel([SegModel(md['numeric'], None, nbits=nd - head, char_count=3)], blwo=blwo)
                    try:
                        rec, res, info = trace_encode(fx, rv, req, None, boost_error=flag, segments=segs, real=('boost_error_level',))
                        fin = [r for r in rec if r[0] == 'make_final_message']
                        got = inv_l.get(fin[0][1][1], fin[0][1][1]) if fin else '<no final message>'
                        code = [r for r in rec if r[0] == 'Code']
                        if code and inv_l.get(code[0][1][2], code[0][1][2]) != got:
                            got = f'{got} in the final message but {inv_l.get(code[0][1][2], code[0][1][2])} in the result'
                    except PyRaise as ex:
                        got = f'raises {ex.name}'
                    want = req
                    if flag and req is not None:
                        for l in avail[avail.index(req) + 1:]:
                            if iso.capacity_bits(v, l) >= nd:
                                want = l
                            else:
                                break
                    n += 1
                    if got != want and bad is None:
                        bad = (req, nd, flag, got, want)
        yield ob(f'v{v}: level of the symbol for every requested level, both sides of every capacity, boosting on and off ({n} cases)', bad is None, enc,
                 got=f'requested {bad[0]}, {bad[1]} bits, boost_error={bad[2]}: {bad[3]}' if bad else 'highest fitting level', want=f'{bad[4]}' if bad else 'highest fitting level')


@rule('C05', 'R5', 30, 'encode: default level L (none for M1), H refused for Micro, boost flag and level passed through')
def r5(fx):
    fn = fx.fn('encoder', 'encode')
    lv, mv = levels(fx), micro_versions(fx)
    it = Interp()
    for guessed in (-3, -2, 0, 1, 40):
        for err in (None, 'l', 'M', 'q', 'H'):
            for micro in (None, True, False):
                for boost in (True, False):
                    if micro is True and guessed >= 1 or micro is False and guessed < 1:
                        continue
                    if err is not None and err.upper() not in iso.levels_of(guessed) and not (err == 'H' and micro):
                        continue        # the version search never answers with a version that lacks the requested level (R6)
                    genv, rec = p04._encode_stub_env(fx, it, mv[guessed] if guessed < 1 else guessed)
                    try:
                        FuncVal(fn, genv, it)('<content>', err, None, None, None, None, False, micro, boost)
                        e = rec['_encode']
                        got = (e['error'], e['boost_error'], e['version'])
                    except PyRaise as ex:
                        got = f'raises {ex.name}'
                    if err == 'H' and (micro or guessed < 1 and micro is None and False):
                        want = 'raises ValueError'
                    elif err == 'H' and micro:
                        want = 'raises ValueError'
                    else:
                        if err is None:
                            wl = None if guessed == -3 else lv['L']
                        else:
                            wl = lv[err.upper()]
                        want = (wl, boost, mv[guessed] if guessed < 1 else guessed)
                    yield ob(f'level={err} micro={micro} boost={boost}, search result v{guessed}', got == want, fn, got=got, want=want)
    # H with an explicit Micro version
    for ver in ('M2', 'm4'):
        genv, rec = p04._encode_stub_env(fx, it, mv[-2])
        try:
            FuncVal(fn, genv, it)('<content>', 'H', ver, None, None, None, False, None, True)
            got = 'accepted'
        except PyRaise as ex:
            got = f'raises {ex.name}'
        yield ob(f'level H with version {ver}', got == 'raises ValueError', fn, got=got, want='raises ValueError')


@rule('C05', 'R6', 9, 'find_version never yields a Micro version for level H / Q outside M4 (no capacity key)')
def r6(fx):
    cap = C(fx, 'SYMBOL_CAPACITY')
    lv, mv = levels(fx), micro_versions(fx)
    for v in (-3, -2, -1, 0):
        row = cap[mv[v]]
        yield table_ob(fx, 'SYMBOL_CAPACITY', f'v{v} has no H', lv['H'] in row, False)
        if v < 0:
            yield table_ob(fx, 'SYMBOL_CAPACITY', f'v{v} has no Q', lv['Q'] in row, False)
    fv = fx.fn('encoder', 'find_version')
    it0 = Interp()
    md = modes(fx)
    genv0 = encoder_env(fx.forest, it0)
    f0 = FuncVal(fv, genv0, it0)
    bad = []
    for level, micro, want in (('H', None, 1), ('H', False, 1), ('Q', None, mv[0]), ('Q', True, mv[0]), ('M', None, mv[-2]), ('L', True, mv[-2])):
        segs = SegmentsModel([SegModel(md['numeric'], None)], blwo=lambda version, eci, is_sa=False: 10)
        try:
            got = f0(segs, lv[level], False, micro)
        except PyRaise as e:
            got = f'raises {e.name}'
        if got != want:
            bad.append((level, micro, got, want))
    try:
        got = f0(SegmentsModel([SegModel(md['numeric'], None)], blwo=lambda version, eci, is_sa=False: 10), lv['H'], False, True)
    except PyRaise as e:
        got = f'raises {e.name}'
    if got != 'raises DataOverflowError':
        bad.append(('H', True, got, 'raises DataOverflowError'))
    yield ob('a (version, level) pair the capacity table does not define is skipped by the version search, never substituted', not bad, fv, got=bad[:3] or 'skipped',
             want='10 bits: H -> version 1, Q -> M4, M / L -> M2; H with micro=True -> DataOverflowError')
    ne = fx.fn('encoder', 'normalize_errorlevel')
    it = Interp()
    f = make_callable(fx.forest, 'encoder', 'normalize_errorlevel', it)
    ok = all(f(x, accept_none=True) == lv[x.upper()] for x in ('l', 'L', 'm', 'M', 'q', 'Q', 'h', 'H')) and f(None, accept_none=True) is None
    yield ob('normalize_errorlevel maps letters (any case) to the level constants', ok, ne, got=ok, want=True)


@rule('C05', 'R8', 100, 'the measure used for boosting is the number of bits written (ECI header only where one is written)')
def r8(fx):
    for o in p04.sized_equals_written(fx):
        if 'eci=True' in o.key or 'hanzi' in o.key:
            yield o


@rule('C05', 'R7', 12, 'public factories forward error / boost_error unchanged')
def r7(fx):
    yield from wrappers.forwarding(fx, {'error', 'boost_error'})


@rule('C05', 'R10', 9, 'sequences: the booster is asked about the version the symbol is built in, and the level it answers is the level of the final message, the format information and Code (C08.R7)')
def r10(fx):
    from . import p08
    yield from p08.sequence_symbols_consistent(fx)


@rule('C05', 'R11', 212, 'the capacities the booster compares with are the ISO data capacities of every version and level (C04.R1): a cell that is too large lets a level be chosen that does not hold the content')
def r11(fx):
    from . import p04
    yield from p04.r1(fx)
