"""Rules for C05 (see DESIGN.md section 5)."""
