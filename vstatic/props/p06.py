"""C06 -- requested mask used; automatic mask minimises the ISO penalty."""
import ast
from fractions import Fraction

from .. import ev, iso, nf, pat, src, reg
from ..core import rule, ob, explain, Ob
from ..ev import PyRaise
from ..interp import Interp, make_callable, FuncVal
from ..src import Unknown
from .common import need_no_new_helpers, C, levels, micro_versions, table_ob, need, single
from .models import encoder_env
from . import wrappers

explain('C06', '''Decided (structural): each of the eight mask predicates equals ISO Table 10 on a 24x24 window (a
multiple of every period that can occur) and the QR / Micro tuples list them in the ISO order (0..7 / 1,4,6,7); the
selection loop of find_and_apply_best_mask is interpreted with the scoring function replaced by an arbitrary score
vector (ties included) and always returns the lowest-numbered optimum together with the matrix masked by it, built from
row copies; a requested mask applies exactly that predicate to the given matrix and is the number returned, which is
the number add_format_info and Code receive; masking precedes format/version information; apply_mask flips exactly the
cells of the encoding region, and that region is the complement of all function patterns for the sizes examined; the
four N1 sites share threshold 5 and score counter-2 (row/column siblings), N2 adds 3 per 2x2 block, the N3 literal is
1011101 with 40 points and the search resumes within the smallest self-overlap shift of the literal, N4 equals
10*floor(|100*dark/size^2 - 50| / 5) for every dark count of two sizes, the Micro score is min*16+max over the last
column/row without index 0; mask arguments are normalised (0-7 / 0-3, numeric strings). NOT decided: that the N1/N2/N3
counting loops compute the ISO counts for every matrix (algorithmic, content-dependent).''')


@rule('C06', 'R1', 10, 'mask predicates = ISO Table 10 (truth table over a 24x24 window); tuples in ISO order')
def r1(fx):
    fn = fx.fn('encoder', 'get_data_mask_functions')
    it = Interp(max_steps=20_000_000)
    f = make_callable(fx.forest, 'encoder', 'get_data_mask_functions', it)
    qr, mi = f(False), f(True)
    yield ob('QR tuple has 8 predicates, Micro 4', len(qr) == 8 and len(mi) == 4, fn, got=(len(qr), len(mi)), want=(8, 4))
    need(len(qr) == 8 and len(mi) == 4, 'mask tuple lengths')
    W = 24
    for k, fv in enumerate(qr):
        bad = None
        for i in range(W):
            for j in range(W):
                got = bool(fv(i, j))
                if got != iso.MASKS[k](i, j) and bad is None:
                    bad = (i, j, got)
        yield ob(f'QR mask {k} ({getattr(fv.node, "name", "?")})', bad is None, fv.node,
                 got=f'(i={bad[0]}, j={bad[1]}) -> {bad[2]}' if bad else 'ISO condition', want='ISO Table 10 condition ' + str(k))
    names = [getattr(x.node, 'name', '?') for x in mi]
    want_names = [getattr(qr[k].node, 'name', '?') for k in iso.MICRO_MASKS]
    yield ob('Micro tuple = QR predicates 1, 4, 6, 7 in this order', names == want_names, fn, got=names, want=want_names)


class _Tag:
    """A mask predicate stand-in that remembers its number."""

    def __init__(self, k):
        self.k = k

    def __call__(self, i, j):
        return 0


def _selection_env(fx, it, scores, micro, log):
    """Stubs for the selection loop: apply_mask tags cell (0, 0) of the matrix it is given with the pattern number
    (so that 'which matrix was masked with what, how often' can be read off), the scoring functions return scores[k]
    for a matrix tagged k."""
    def tag_of(m):
        c = m[0][0]
        return c if isinstance(c, tuple) and c and c[0] == 'masked' else None

    def apply_mask(matrix, mask_pattern, width, height, is_encoding_region):
        prev = matrix[0][0]
        matrix[0][0] = ('masked', mask_pattern.k, prev)
        log.append(('apply', mask_pattern.k, prev))

    def evaluate(m, width, height):
        t = tag_of(m)
        log.append(('eval', t[1] if t else None, width, height))
        if t is None or isinstance(t[2], tuple):
            raise Unknown('a candidate was evaluated unmasked or masked twice')
        return scores[t[1]]

    def masks(is_micro):
        return tuple(_Tag(k) for k in range(4 if is_micro else 8))
    genv = encoder_env(fx.forest, it, apply_mask=apply_mask, evaluate_mask=evaluate, evaluate_micro_mask=evaluate,
                       get_data_mask_functions=masks, **reg.model_env())
    return genv, tag_of


def _selection_env_semantic(fx, it, scores, micro, log, v=None):
    """The same observations without relying on `apply_mask` being the masking primitive: the repository's own masking runs on a
    symbol whose data modules all hold the placeholder, and *which* pattern a matrix carries is read off the matrix itself (the
    set of flipped data modules is compared with the ISO patterns of the symbol kind).  Used when the mask stage was rewritten
    so that it no longer calls apply_mask."""
    v = (-3 if micro else 1) if v is None else v
    cells = iso.placement(v)
    n_ = iso.size_of(v)
    cellset = set(cells)
    original = {}
    pats = [iso.MASKS[iso.MICRO_MASKS[k]] for k in range(4)] if micro else list(iso.MASKS)
    want = [frozenset(rc for rc in cells if p_(*rc)) for p_ in pats]

    def remember(m):
        original.clear()
        original.update({(r, c): m[r][c] for r in range(n_) for c in range(n_) if (r, c) not in cellset})

    def tag_of(m):
        try:
            flipped = frozenset((r, c) for r, c in cells if m[r][c] != 2)
            odd = [(r, c) for r, c in cells if m[r][c] not in (2, 3)]
            touched = [rc for rc, val in original.items() if m[rc[0]][rc[1]] != val]
        except (TypeError, IndexError):
            return None
        if touched:
            return ('masked', None, (f'{len(touched)} function-pattern module(s) changed, e.g. {touched[0]}',))
        if odd:
            return ('masked', None, ('not a mask of the placeholder symbol',))
        if not flipped:
            return None
        ks = [k for k, w_ in enumerate(want) if w_ == flipped]
        return ('masked', ks[0], m[0][0]) if len(ks) == 1 else ('masked', None, ('no single ISO pattern',))

    def evaluate(m, width, height):
        t = tag_of(m)
        log.append(('eval', t[1] if t else None, width, height))
        if t is None or t[1] is None:
            raise Unknown('a candidate was evaluated unmasked or masked twice')
        return scores[t[1]]
    genv = encoder_env(fx.forest, it, evaluate_mask=evaluate, evaluate_micro_mask=evaluate, **reg.model_env())
    tag_of.remember = remember
    return genv, tag_of


def _run_selection(fx, it, scores, micro, requested='<none>', v=None):
    """find_and_apply_best_mask on a fresh symbol of the kind: (result, tag_of, log, cell (0, 0) of the input, semantic?)."""
    fn = fx.fn('encoder', 'find_and_apply_best_mask')
    n = (11 if micro else 21) if v is None else iso.size_of(v)
    for semantic in ((False, True) if v is None else (True,)):
        log = []
        genv, tag_of = _selection_env_semantic(fx, it, scores, micro, log, v) if semantic else _selection_env(fx, it, scores, micro, log)
        m = genv['make_matrix'](n, n)
        if semantic:
            genv['add_finder_patterns'](m, n, n)
            genv['add_alignment_patterns'](m, n, n)
            tag_of.remember(m)
        c0 = m.grid()[0][0]
        try:
            res = FuncVal(fn, genv, it)(m, n, n) if requested == '<none>' else FuncVal(fn, genv, it)(m, n, n, requested)
        except Unknown:
            if semantic or [x for x in log if x[0] == 'apply']:
                raise
            continue        # apply_mask was never called: the candidates reached the scoring stand-in untagged
        if semantic or [x for x in log if x[0] == 'apply']:
            return res, tag_of, log, c0, semantic
    raise Unknown('unreachable')


@rule('C06', 'R2', 16, 'selection: lowest-numbered optimum (min for QR, max for Micro); the matrix returned is masked exactly once, with the returned pattern')
def r2(fx):
    fn = fx.fn('encoder', 'find_and_apply_best_mask')
    it = Interp(max_steps=20_000_000)
    vectors = {
        False: [[5, 3, 3, 7, 9, 3, 8, 8], [1, 1, 1, 1, 1, 1, 1, 1], [8, 7, 6, 5, 4, 3, 2, 1], [1, 2, 3, 4, 5, 6, 7, 8],
                [9, 9, 9, 9, 9, 9, 9, 2], [4, 9, 4, 9, 4, 9, 4, 9], [10 ** 7, 10 ** 7, 5 * 10 ** 6, 10 ** 7, 10 ** 7, 5 * 10 ** 6, 10 ** 7, 10 ** 7],
                [0, 0, 5, 5, 0, 0, 5, 5]],
        True: [[5, 7, 7, 3], [2, 2, 2, 2], [1, 2, 3, 4], [4, 3, 2, 1], [0, 0, 0, 0], [0, 9, 0, 9], [300, 300, 299, 300], [0, 0, 0, 1]],
    }
    for micro in (False, True):
        n = 11 if micro else 21
        for sc in vectors[micro]:
            res, tag_of, log, c00, semantic = _run_selection(fx, it, sc, micro)
            grid0 = [[c00]]
            best = (max if micro else min)(sc)
            want = sc.index(best)
            probs = []
            if not (isinstance(res, tuple) and len(res) == 2):
                probs.append(f'returns {res!r}')
            else:
                if res[0] != want:
                    probs.append(f'returns pattern {res[0]}')
                t = tag_of(res[1]) if res[1] is not None else None
                if t is None:
                    probs.append('the returned matrix is not masked')
                elif t[1] != res[0] or isinstance(t[2], tuple):
                    probs.append(f'the returned matrix is masked with pattern {t[1]}' + (' on top of another mask' if isinstance(t[2], tuple) else '')
                                 + f' but pattern {res[0]} is returned')
                elif t[2] != grid0[0][0]:
                    probs.append('the returned matrix does not derive from the input matrix')
                evals = [x[1] for x in log if x[0] == 'eval']
                if sorted(evals) != list(range(len(sc))):
                    probs.append(f'patterns evaluated: {evals}')
            yield ob(f'{"Micro" if micro else "QR"} scores {sc}', not probs, fn, got='; '.join(probs) or f'pattern {want}, masked once with it',
                     want=f'pattern {want} (lowest-numbered {"maximum" if micro else "minimum"}) and the matrix masked with it')


@rule('C06', 'R3', 12, 'requested mask: exactly that predicate is applied once to the matrix and that number is returned')
def r3(fx):
    fn = fx.fn('encoder', 'find_and_apply_best_mask')
    it = Interp(max_steps=20_000_000)
    for micro in (False, True):
        n = 11 if micro else 21
        for k in range(4 if micro else 8):
            log = []
            res, tag_of, log, c0, semantic = _run_selection(fx, it, [0] * 8, micro, requested=k)
            t = tag_of(res[1]) if isinstance(res, tuple) and len(res) == 2 and res[1] is not None else None
            ok = isinstance(res, tuple) and res[0] == k and t == ('masked', k, c0) and not [x for x in log if x[0] == 'eval']
            yield ob(f'{"Micro" if micro else "QR"} requested mask {k}', ok, fn, got=(res[0] if isinstance(res, tuple) else res, t, log[:3]),
                     want=f'({k}, matrix masked once with predicate {k}), no evaluation')
    # _encode hands its mask argument (and the matrix it built) to the mask stage: read off the stage trace
    from .models import trace_encode
    enc = fx.fn('encoder', '_encode')
    bad = []
    for v, mask_in in ((5, None), (5, 6), (-2, 3), (-3, None)):
        rv = micro_versions(fx)[v] if v < 1 else v
        lvl = None if v == -3 else 'L'
        rec, res, info = trace_encode(fx, rv, lvl, lvl, mask_in=mask_in)
        fm = [r for r in rec if r[0] == 'find_and_apply_best_mask']
        if len(fm) != 1 or fm[0][1][0] is not info['M0'] or (list(fm[0][1][3:]) + [fm[0][2].get('proposed_mask')])[0] != mask_in:
            bad.append((v, mask_in, [(r[1][1:], r[2]) for r in fm]))
    yield ob('_encode passes its mask argument as the proposed mask', not bad, enc, got=bad or 'as required', want='find_and_apply_best_mask(<the matrix>, width, height, mask)')


def _region_closure(fx, it, n):
    """The is_encoding_region closure find_and_apply_best_mask builds for an n x n symbol."""
    fn = fx.fn('encoder', 'find_and_apply_best_mask')
    got = {}

    def apply_mask(matrix, mask_pattern, width, height, is_encoding_region):
        got['f'] = is_encoding_region
    genv = encoder_env(fx.forest, it, apply_mask=apply_mask, **reg.model_env())
    m = genv['make_matrix'](n, n)
    FuncVal(fn, genv, it)(m, n, n, 0)
    need('f' in got, 'apply_mask was not called with a region predicate')
    return got['f']


@rule('C06', 'R3b', 3, 'a requested mask reaches _encode on every path of make_sequence (single-symbol shortcut and Structured Append)')
def r3b(fx):
    from . import p08
    for o in p08.r2(fx):
        if 'mask' in o.key:
            yield o


@rule('C06', 'R4', 4, 'masks are evaluated before format and version information are written (those areas still light); the mask announced is the one applied')
def r4(fx):
    from . import p02
    yield from p02.encode_stage_obligations(fx, version_info_after_mask=True)


@rule('C06', 'R5', 10, 'apply_mask flips exactly the encoding region = complement of all function patterns')
def r5(fx):
    it = Interp(max_steps=200_000_000)
    # (a) apply_mask itself
    fn = fx.fn('encoder', 'apply_mask')
    f = make_callable(fx.forest, 'encoder', 'apply_mask', it, extra_env=reg.model_env())
    m = reg.Matrix([reg.Row([0, 1, 0]), reg.Row([1, 1, 0]), reg.Row([0, 0, 1])])
    before = m.grid()
    region = {(0, 1), (1, 1), (2, 0), (2, 2)}
    pattern = {(0, 1): 1, (1, 1): 0, (2, 0): 1, (2, 2): 1, (0, 0): 1, (1, 2): 1}
    f(m, lambda i, j: pattern.get((i, j), 0), 3, 3, lambda i, j: (i, j) in region)
    want = [[before[i][j] ^ (pattern.get((i, j), 0) if (i, j) in region else 0) for j in range(3)] for i in range(3)]
    yield ob('apply_mask XORs the predicate into region cells only', m.grid() == want, fn, got=m.grid(), want=want)
    # (b) the region
    sizes = list(iso.ALL_VERSIONS) if fx.tier == 'thorough' else [-3, -2, -1, 0, 1, 2, 6, 7, 14]
    ffn = fx.fn('encoder', 'find_and_apply_best_mask')
    for v in sizes:
        n = iso.size_of(v)
        try:
            reg_f = _region_closure(fx, it, n)
        except Unknown as u:
            if 'apply_mask was not called' not in str(u):
                raise
            # The mask stage does not go through apply_mask.  Every module of the encoding region is flipped by at least one of
            # the patterns (checked here for this size); with each pattern requested in turn the stage must flip exactly the
            # modules of the ISO encoding region where the pattern holds and leave every function-pattern module alone.
            micro = v < 1
            pats = [iso.MASKS[iso.MICRO_MASKS[k]] for k in range(4)] if micro else list(iso.MASKS)
            uncovered = [rc for rc in iso.placement(v) if not any(p_(*rc) for p_ in pats)]
            why = f'{len(uncovered)} module(s) no pattern flips' if uncovered else ''
            for k in range(len(pats)):
                if why:
                    break
                res, tag_of, log, c0, _sem = _run_selection(fx, it, [0] * 8, micro, requested=k, v=v)
                t = tag_of(res[1]) if isinstance(res, tuple) and len(res) == 2 and res[1] is not None else None
                if t is None or t[1] != k:
                    why = f'pattern {k} requested: {t[2][0] if t and t[1] is None else "the result does not carry pattern " + str(k)}'
            yield ob(f'v{v}: encoding region = complement of function patterns ({n * n} cells)', not why, ffn, got=why or 'every pattern flips exactly its modules of the region', want='')
            continue
        lay = iso.layout(v)
        bad = []
        for i in range(n):
            for j in range(n):
                got = bool(reg_f(i, j))
                if got != ((i, j) not in lay):
                    bad.append(((i, j), got))
        yield ob(f'v{v}: encoding region = complement of function patterns ({n * n} cells)', not bad, ffn, got=bad[:5], want=[])


def _probe_matrices(n=21):
    """A fixed family of n x n symbols that exercises every clause of ISO 7.8.3.1: runs of every length at the line start, middle
    and end (rows and columns), uniform blocks, the 1:1:3:1:1 pattern at every offset class with and without the light area on
    either side, overlapping patterns, uniform / striped / chequered symbols, and a few pseudo-random ones."""
    def blank(v=0):
        return [[v] * n for _ in range(n)]
    out = [('all light', blank()), ('all dark', blank(1)), ('chequered', [[(r + c) & 1 for c in range(n)] for r in range(n)]),
           ('row stripes', [[r & 1] * n for r in range(n)]), ('column stripes', [[c & 1 for c in range(n)] for _ in range(n)])]
    for ln in (4, 5, 6, 7, 9, n):
        for c0 in sorted(c_ for c_ in {0, 8, n - ln} if c_ + ln <= n):
            for r in (0, n // 2, n - 1):
                m = [[(r_ + c_) & 1 for c_ in range(n)] for r_ in range(n)]       # a background without runs
                for c in range(c0, c0 + ln):
                    m[r][c] = 1 if ln % 2 else 0
                out.append((f'run of {ln} in row {r} from column {c0}', m))
                out.append((f'run of {ln} in column {r} from row {c0}', [list(x) for x in zip(*m)]))
    for (h, w) in ((2, 2), (2, 3), (3, 3), (4, 2)):
        for (r0, c0) in ((0, 0), (n // 2, n // 2), (n - h, n - w)):
            m = [[(r_ + c_) & 1 for c_ in range(n)] for r_ in range(n)]
            for r in range(r0, r0 + h):
                for c in range(c0, c0 + w):
                    m[r][c] = 1
            out.append((f'{h}x{w} dark block at ({r0}, {c0})', m))
    pat7 = [1, 0, 1, 1, 1, 0, 1]
    for off in (0, 1, 3, 4, 5, 7, n - 11, n - 8, n - 7):
        for before, after in ((0, 0), (1, 0), (0, 1), (1, 1)):
            m = blank()
            for r in (2, n - 3):
                row = [0] * n
                row[off:off + 7] = pat7
                if before and off >= 1:
                    row[max(off - 4, 0)] = 1
                if after and off + 7 < n:
                    row[min(off + 10, n - 1)] = 1
                m[r] = row
            out.append((f'1011101 at column {off}, dark before: {before}, dark after: {after}', m))
            out.append((f'1011101 at row {off}, dark before: {before}, dark after: {after}', [list(x) for x in zip(*m)]))
    m = blank()
    m[5][2:13] = [1, 0, 1, 1, 1, 0, 1, 1, 1, 0, 1]
    m[9][0:15] = [1, 0, 1, 1, 1, 0, 1, 0, 1, 0, 1, 1, 1, 0, 1]
    out.append(('overlapping 1011101 patterns', m))
    out.append(('overlapping 1011101 patterns in columns', [list(x) for x in zip(*m)]))
    x = 12345
    for k in range(6):
        m = blank()
        for r in range(n):
            for c in range(n):
                x = (1103515245 * x + 12345) & 0x7FFFFFFF
                m[r][c] = 1 if (x >> 16) % 100 < (30, 45, 50, 55, 70, 50)[k] else 0
        out.append((f'pseudo-random symbol {k}', m))
    return out


def _scores_witness(fx):
    """A symbol on which mask_scores, interpreted, differs from the ISO penalty - or None if none of the probe symbols shows a
    difference.  Used only to *refute*: a difference is a concrete counterexample; no difference proves nothing."""
    it = Interp(max_steps=2_000_000_000)
    genv = encoder_env(fx.forest, it)
    f = FuncVal(fx.fn('encoder', 'mask_scores'), genv, it)
    n = 21
    for desc, rows in _probe_matrices(n):
        want = iso.penalty(rows)
        try:
            got = f([bytearray(r) for r in rows], n, n)
            got = tuple(int(v) for v in got)
        except PyRaise as ex:
            got = f'raises {ex.name}'
        if got != want:
            return f'{desc}: mask_scores gives {got}, ISO 7.8.3.1 gives {want}'
    return None


def refute_or_unknown(gen, witness, what):
    """Run a shape rule.  If every obligation holds the shape argument stands.  Otherwise the code does not have the shape the
    rule can argue about - which is not a defect by itself: look for a concrete counterexample; report a violation only with
    one, else UNKNOWN."""
    obs, why = [], None
    try:
        for o in gen:
            obs.append(o)
    except Unknown as u:
        why = f'shape not recognised: {u}'
    if why is None and all(o.ok for o in obs):
        yield from obs
        return
    if why is None:
        bad = [o for o in obs if not o.ok]
        why = f'shape differs: {bad[0].key}: {str(bad[0].got)[:120]}'
    w = witness()
    if w is not None:
        for o in obs:
            if o.ok:
                yield o
        yield ob(what, False, None, got=w, want='the ISO value')
        return
    raise Unknown(f'{why}; evaluating the function on the probe inputs found no difference from the ISO value (no verdict)')


_WITNESS_CACHE = {}


def _cached_scores_witness(fx):
    k = id(fx.forest)
    if k not in _WITNESS_CACHE:
        _WITNESS_CACHE.clear()
        _WITNESS_CACHE[k] = _scores_witness(fx)
    return _WITNESS_CACHE[k]


@rule('C06', 'R6', 7, 'N1: four sites share threshold >= 5 and score counter - 2 (row/column siblings); N2: 3 per 2x2 block')
def r6(fx):
    fn = fx.fn('encoder', 'mask_scores')
    for o in refute_or_unknown(_r6_shape(fx), lambda: _cached_scores_witness(fx), 'mask_scores = ISO 7.8.3.1 penalty on the probe symbols (N1, N2)'):
        if o.where in (None, ''):
            o = ob(o.key, o.ok, fn, got=o.got, want=o.want)
        yield o


def _r6_shape(fx):
    fn = fx.fn('encoder', 'mask_scores')
    need_no_new_helpers(fx, 'encoder', fn)
    # the run counters: locals incremented by one (`X += 1`) and reset to 1
    counters = sorted({ast.unparse(s.target) for s in src.statements(fn.body) if isinstance(s, ast.AugAssign) and isinstance(s.target, ast.Name)
                       and isinstance(s.op, ast.Add) and isinstance(s.value, ast.Constant) and s.value.value == 1
                       and any(isinstance(a, ast.Assign) and ast.unparse(a.targets[0]) == ast.unparse(s.target) and isinstance(a.value, ast.Constant)
                               and a.value.value == 1 for a in src.statements(fn.body))})
    need(len(counters) == 2, f'mask_scores: two run counters expected, found {counters}')
    env_ = ev.base_env(fx.forest, 'encoder')
    sites = {c: [] for c in counters}
    other = []

    def classify(test, node, on_true, on_false):
        """Put the site into `sites` as (node, threshold, what is done at/above the threshold, what is done below it)."""
        used = [n.id for n in ast.walk(test) if isinstance(n, ast.Name) and n.id in sites]
        if not used:
            return
        if any(isinstance(o, ast.Eq) for c_ in ast.walk(test) if isinstance(c_, ast.Compare) for o in c_.ops) and \
                not any(isinstance(k, ast.Constant) and isinstance(k.value, int) and k.value > 1 for k in ast.walk(test)):
            return          # the `current == previous` test that advances the counter
        name = used[0]
        consts_ = sorted({ev.ev(k, env_) for k in ast.walk(test) if isinstance(k, ast.Constant) and isinstance(k.value, int) and not isinstance(k.value, bool)})
        if len(set(used)) != 1 or len(consts_) != 1:
            other.append(test)
            return
        thr = consts_[0]
        pos = nf.prop(ast.parse(f'{name} >= {thr}', mode='eval').body)
        t = nf.prop(test)
        if nf.equiv(t, pos):
            sites[name].append((node, thr, on_true, on_false))
        elif nf.equiv(t, ('not', pos)):
            sites[name].append((node, thr, on_false, on_true))
        elif nf.equiv(t, nf.prop(ast.parse(f'{name} > {thr}', mode='eval').body)):
            sites[name].append((node, thr + 1, on_true, on_false))
        elif nf.equiv(t, ('not', nf.prop(ast.parse(f'{name} > {thr}', mode='eval').body))):
            sites[name].append((node, thr + 1, on_false, on_true))
        else:
            other.append(test)

    def terms(e):
        if isinstance(e, ast.BinOp) and isinstance(e.op, ast.Add):
            return terms(e.left) + terms(e.right)
        return [e]

    def is_zero(e):
        return isinstance(e, ast.Constant) and e.value == 0 and not isinstance(e.value, bool)
    for s in src.statements(fn.body):
        if isinstance(s, ast.If):
            classify(s.test, s, [x for x in s.body if not isinstance(x, ast.Pass)], [x for x in s.orelse if not isinstance(x, ast.Pass)])
        elif isinstance(s, ast.AugAssign) and isinstance(s.op, ast.Add) and isinstance(s.target, ast.Name):
            # `score += (counter - 2 if counter >= 5 else 0) [+ ...]`: a conditional term is a scoring site, too
            for t in terms(s.value):
                if isinstance(t, ast.IfExp):
                    as_stmt = lambda e: [] if is_zero(e) else [ast.AugAssign(target=s.target, op=ast.Add(), value=e)]  # noqa: E731
                    classify(t.test, s, as_stmt(t.body), as_stmt(t.orelse))
    yield ob('no N1 test of another shape', not other, fn, got=[ast.unparse(o) for o in other], want=[])
    for name, lst in sites.items():
        yield ob(f'{name}: two scoring sites (inside the scan, at the line end)', len(lst) == 2, fn, got=len(lst), want=2)
        for s, thr, scoring, rest in lst:
            body = single(scoring, 'N1 scoring statement')
            need(isinstance(body, ast.AugAssign) and isinstance(body.op, ast.Add) and isinstance(body.target, ast.Name), 'N1 scoring statement is not `score += ...`')
            try:
                aff = nf.affine(body.value)
            except Unknown:
                aff = None
            need(aff is not None and set(aff) <= {name, ''}, f'N1 score `{ast.unparse(body.value)}` is not an affine form of the run counter')
            yield ob(f'{name} site line-scan/line-end: threshold 5, score counter - 2',
                     thr == 5 and aff == {name: 1, '': -2} and not rest, s,
                     got=ast.unparse(s)[:90], want=f'if {name} >= 5: score_n1 += {name} - 2')
    # counters restart at 1, increment by 1
    for name in list(sites):
        incs = [s for s in src.statements(fn.body) if isinstance(s, ast.AugAssign) and ast.unparse(s.target) == name]
        sets = [s for s in src.statements(fn.body) if isinstance(s, ast.Assign) and ast.unparse(s.targets[0]) == name]
        ok = [ast.unparse(s) for s in incs] == [f'{name} += 1'] and sorted(ast.unparse(s.value) for s in sets) == ['0', '1']
        yield ob(f'{name}: +1 per equal neighbour, restart at 1, initial 0', ok, fn, got=[ast.unparse(s) for s in incs + sets],
                 want=f'{name} += 1; {name} = 1; {name} = 0')
    n2 = [s for s in src.statements(fn.body) if isinstance(s, ast.AugAssign) and ast.unparse(s.target) == 'score_n2']
    s2 = single(n2, 'N2 scoring statement')
    g = nf.guards_of(s2, fn)
    okn2 = ev.ev(s2.value, {}) == 3 and isinstance(s2.op, ast.Add)
    cond = g[-1][0] if g else None
    okc = cond is not None and nf.same(cond, 
        'last_row and j and row_current_bit == row_prev_bit == last_row[j] == last_row[j - 1]')
    yield ob('N2: +3 when the 2x2 block (j-1..j, previous row..row) is uniform', okn2 and okc, s2,
             got=f'{ast.unparse(s2)} if {ast.unparse(cond) if cond is not None else None}',
             want='score_n2 += 3 if last_row and j and row[j] == row[j-1] == last_row[j] == last_row[j-1]')


def _self_overlap(lit):
    for k in range(1, len(lit)):
        if lit[k:] == lit[:len(lit) - k]:
            return k
    return len(lit)


@rule('C06', 'R7', 5, 'N3: literal 1011101, 40 points, light-area test 4 wide on either side or symbol edge, search resumes within the self-overlap shift')
def r7(fx):
    fn = fx.fn('encoder', 'mask_scores')
    for o in refute_or_unknown(_r7_shape(fx), lambda: _cached_scores_witness(fx), 'mask_scores = ISO 7.8.3.1 penalty on the probe symbols (N3)'):
        if o.where in (None, ''):
            o = ob(o.key, o.ok, fn, got=o.got, want=o.want)
        yield o


def _r7_shape(fx):
    fn = fx.fn('encoder', 'mask_scores')
    need_no_new_helpers(fx, 'encoder', fn)
    env = ev.base_env(fx.forest, 'encoder')
    # the search loops: `while <i> != -1` around `<seq>.find(<pattern>, <resume>)`, in mask_scores or a function nested in it
    loops = []
    for w in ast.walk(fn):
        if isinstance(w, ast.While):
            b = pat.match(w.test, 'H_i != -1')
            if b is not None and isinstance(b['i'], ast.Name):
                loops.append((w, b['i'].id))
    need(loops, 'no `while idx != -1` search loop in mask_scores')
    scored_seqs = []
    for w, iv in loops:
        owner = w
        while not isinstance(owner, ast.FunctionDef):
            owner = owner._parent
        finds = [c for c in src.calls_in(w) if isinstance(c.func, ast.Attribute) and c.func.attr == 'find' and len(c.args) == 2]
        f = single(finds, 'seq.find(pattern, offset) inside the N3 loop')
        seq = ast.unparse(f.func.value)
        # the literal searched for
        lit = f.args[0]
        if isinstance(lit, ast.Name):
            defs = [s_ for s_ in src.statements(owner.body) if isinstance(s_, ast.Assign) and ast.unparse(s_.targets[0]) == lit.id] or \
                   [s_ for s_ in fn.body if isinstance(s_, ast.Assign) and ast.unparse(s_.targets[0]) == lit.id]
            lit = single(defs, 'definition of the N3 literal').value
        val = list(ev.ev(lit, env))
        yield ob('N3 literal', val == [1, 0, 1, 1, 1, 0, 1], lit, got=val, want=[1, 0, 1, 1, 1, 0, 1])
        shift = _self_overlap(val)
        # first search starts at the beginning
        first = [c for c in src.calls_in(owner) if isinstance(c.func, ast.Attribute) and c.func.attr == 'find' and len(c.args) == 1
                 and ast.unparse(c.func.value) == seq]
        yield ob('the search starts at the beginning of the line', len(first) >= 1, f, got=[ast.unparse(c) for c in first], want=f'{seq}.find(pattern)')
        o = f.args[1]
        exprs = [o]
        if isinstance(o, ast.Name):
            exprs = [a.value for a in src.statements(w.body) if isinstance(a, ast.Assign) and ast.unparse(a.targets[0]) == o.id]
            need(exprs, f'no definition of {o.id} in the N3 loop')
        shifts = []
        for e in exprs:
            a = nf.affine(e, env)
            if set(a) - {'', iv} or a.get(iv) != 1:
                raise Unknown(f'N3 resume offset `{ast.unparse(e)}` is not {iv} + constant')
            shifts.append(a[''])
        yield ob(f'search resumes at idx + k with 1 <= k <= {shift} (smallest self-overlap shift of the literal)',
                 all(1 <= k <= shift for k in shifts), f, got=[f'idx + {k}' for k in shifts], want=f'idx + 1 .. idx + {shift}')
        st = nf.enclosing_stmt(f)
        yield ob('the resumed search is the loop variable update on every path', isinstance(st, ast.Assign) and ast.unparse(st.targets[0]) == iv
                 and st in w.body, st, got=ast.unparse(st), want=f'{iv} = seq.find(pattern, {iv} + k) at loop level')
        # scoring statements: `<count> += 40` under (edge or light before or light after)
        sc = [x for x in src.statements(w.body) if isinstance(x, ast.AugAssign) and isinstance(x.op, ast.Add) and isinstance(x.target, ast.Name)
              and x.target.id != iv]
        need(sc, 'no N3 scoring statement in the search loop')
        need(len({x.target.id for x in sc}) == 1, 'N3 loop adds to more than one variable')
        pts = sorted({ev.ev(x.value, env) for x in sc})
        # locals defined once in the loop body before use (offset = idx + 7) are replaced by their definition
        ldefs = {}
        # function-level locals that are plain arithmetic of other names (last_start = qr_size - 7) count as well
        for k_, v_ in nf.single_defs(owner).items():
            if isinstance(v_, (ast.BinOp, ast.UnaryOp)) and not any(isinstance(n_, (ast.Subscript, ast.Attribute, ast.Lambda)) for n_ in ast.walk(v_)) \
                    and not any(isinstance(n_, ast.Name) and n_.id == iv for n_ in ast.walk(v_)):
                ldefs[k_] = v_
        for a_ in w.body:
            if isinstance(a_, ast.Assign) and len(a_.targets) == 1 and isinstance(a_.targets[0], ast.Name) and a_.targets[0].id != iv:
                ldefs[a_.targets[0].id] = a_.value

        class Sub(ast.NodeTransformer):
            def visit_Name(self, node):
                if isinstance(node.ctx, ast.Load) and node.id in ldefs:
                    import copy as _c
                    return nf.clone(ldefs[node.id])
                return node
        import copy as _copy
        got_f = ('or', [])
        texts = []
        for x in sc:
            conj = []
            child = x
            pth = nf.path(x, w)
            texts.append(ast.unparse(x))
            got_f[1].append(pth)
        # rebuild the formula with the loop-local definitions substituted: easier on the source conditions
        conds = []
        for x in sc:
            gs = []
            c_, p_ = x, x._parent
            while p_ is not w:
                if isinstance(p_, ast.If):
                    t = Sub().visit(Sub().visit(nf.clone(p_.test)))
                    gs.append(nf.prop(t) if c_ in p_.body else ('not', nf.prop(t)))
                c_, p_ = p_, p_._parent
            conds.append(('and', gs))
        got_f = ('or', conds)
        names = {n.id for x in sc for g in [x] for a_ in src.ancestors(x) if isinstance(a_, ast.If) and a_ is not w
                 for n in ast.walk(Sub().visit(Sub().visit(nf.clone(a_.test)))) if isinstance(n, ast.Name)} - {iv} - set(dir(__import__('builtins')))
        seq_names = {n.id for n in ast.walk(f.func.value) if isinstance(n, ast.Name)}
        size_names = sorted(names - seq_names)
        need(len(size_names) == 1, f'N3 scoring condition mentions {size_names} besides the line and the index: cannot tell the size variable')
        N = size_names[0]
        want = (f'{iv} in (0, {N} - 7) or not any({seq}[max({iv} - 4, 0):min({iv}, {N})]) '
                f'or not any({seq}[max({iv} + 7, 0):min({iv} + 7 + 4, {N})])')
        want_f = nf.prop(ast.parse(want, mode='eval').body)
        # affine slice bounds: compare with constants folded (idx + 7 + 4 == idx + 11)
        ok = nf.equiv(_fold_affine(got_f, env), _fold_affine(want_f, env))
        yield ob('40 points when at the symbol edge or 4 light modules precede or follow', pts == [40] and ok, sc[0],
                 got=f'{"; ".join(texts)} under {[nf.guard_text(nf.guards_of(x, w)) for x in sc]}', want='count += 40 if ' + want)
        scored_seqs.append(seq)
        sizes_ok = N
    # used for rows and columns: the loops (or the function holding the loop) are run on the row and on the column
    nested = [w for w, _ in loops if any(isinstance(a, ast.FunctionDef) and a is not fn for a in src.ancestors(w))]
    if nested:
        owner = nested[0]
        while not isinstance(owner, ast.FunctionDef):
            owner = owner._parent
        uses = [x for x in src.calls_in(fn, owner.name, into_nested=False)]
        args = sorted(ast.unparse(u.args[0]) for u in uses)
    else:
        args = sorted(scored_seqs)
    yield ob('N3 evaluated for every row and every column', args == ['n3_column', 'row'], fn, got=args, want=['n3_column', 'row'])


def _fold_affine(f, env=None):
    """Atoms are texts; refold arithmetic inside them so that `idx + 7 + 4` and `idx + 11` are one atom."""
    if f[0] == 'atom':
        try:
            node = ast.parse(f[1], mode='eval').body
        except SyntaxError:
            return f

        class T(ast.NodeTransformer):
            def visit_BinOp(self, node):
                self.generic_visit(node)
                try:
                    a = nf.affine(node, env)
                except Unknown:
                    return node
                if all(isinstance(v, int) for v in a.values()):
                    return ast.parse(nf.fmt_affine(a), mode='eval').body
                return node
        try:
            return ('atom', nf.norm(T().visit(node)))
        except Exception:
            return f
    if f[0] == 'not':
        return ('not', _fold_affine(f[1], env))
    if f[0] in ('and', 'or'):
        return (f[0], [_fold_affine(x, env) for x in f[1]])
    return f


@rule('C06', 'R8', 6, 'N4 = 10*floor(|100*dark/size^2 - 50|/5) for every dark count; Micro score = min*16 + max over last column/row without index 0')
def r8(fx):
    unknown = None
    D = None
    fn = fx.fn('encoder', 'mask_scores')
    it = Interp(max_steps=200_000_000)
    genv = encoder_env(fx.forest, it)
    box = {}
    try:
        yield from _n4_by_slice(fx, fn, it, genv, box)
        D, last_loop, params = box['D'], box['last_loop'], box['params']
    except Unknown as u:
        # the fourth score cannot be sliced out of a rewritten function: the whole function is interpreted on symbols of known
        # dark counts on both sides of every 5 % step - a difference is a witness, no difference is no verdict (deviation 10)
        unknown = f'{u}; evaluating the function on symbols of known dark counts found no difference from the ISO value (no verdict)'
        f_ = FuncVal(fn, genv, it)
        bad = None
        for n in (21, 25):
            steps = {round(n * n * pct / 100) + d for pct in range(0, 101, 5) for d in (-1, 0, 1)}
            for dark in sorted(k for k in steps | {0, 1, n * n - 1, n * n, n * n // 2} if 0 <= k <= n * n):
                cells = [1] * dark + [0] * (n * n - dark)
                try:
                    got = f_([bytearray(cells[r * n:(r + 1) * n]) for r in range(n)], n, n)
                    got = got[3] if isinstance(got, tuple) and len(got) == 4 else got
                except PyRaise as ex:
                    got = f'raises {ex.name}'
                want = 10 * int(abs(Fraction(100 * dark, n * n) - 50) / 5)
                if got != want and bad is None:
                    bad = (n, dark, got, want)
        if bad:
            yield ob(f'N4 for size {bad[0]}: every dark count 0..{bad[0] * bad[0]}', False, fn, got=f'dark={bad[1]}: {bad[2]}', want=f'{bad[3]}')
    em = fx.fn('encoder', 'evaluate_mask')
    seen = []

    def ms_stub(*a, **k):
        seen.append((a, k))
        return (1, 20, 300, 4000)
    mark = [object(), object(), object()]
    try:
        tot = FuncVal(em, dict(genv, mask_scores=ms_stub), it)(*mark)
    except PyRaise as ex:
        tot = f'raises {ex.name}'
    oke = tot == 4321 and len(seen) == 1 and not seen[0][1] and len(seen[0][0]) == 3 and all(x is y for x, y in zip(seen[0][0], mark))
    yield ob('evaluate_mask = sum of the four scores', oke, em, got=f'{tot} from {len(seen)} call(s) of mask_scores', want='sum(mask_scores(matrix, width, height))')
    if unknown is None and D is not None:
        # the scan counts every dark module once: the scan is interpreted on symbols whose dark count is known
        n = 21
        upto = fn.body[:last_loop + 1]
        cases = {'all dark': [[1] * n for _ in range(n)], 'all light': [[0] * n for _ in range(n)],
                 'first row': [[1] * n] + [[0] * n for _ in range(n - 1)], 'last row': [[0] * n for _ in range(n - 1)] + [[1] * n],
                 'first column': [[1] + [0] * (n - 1) for _ in range(n)], 'last column': [[0] * (n - 1) + [1] for _ in range(n)],
                 'corners': [[1 if (r in (0, n - 1) and c in (0, n - 1)) else 0 for c in range(n)] for r in range(n)],
                 'checker': [[(r + c) & 1 for c in range(n)] for r in range(n)]}
        bad = {}
        for name, rows in cases.items():
            e = dict(genv)
            e.update({params[0]: [bytearray(r) for r in rows], params[1]: n, params[2]: n})
            it.block(upto, e)
            got = e.get(D)
            want = sum(map(sum, rows))
            if got != want:
                bad[name] = (got, want)
        yield ob('dark counter adds every module once', not bad, fn, got=bad or 'every module once', want='the number of dark modules')
    elif unknown is None:
        yield ob('dark counter adds every module once', True, fn, got='counted from the matrix by the N4 expression (checked above for every count)', want='the number of dark modules')
    # Micro
    mf = fx.fn('encoder', 'evaluate_micro_mask')
    f = make_callable(fx.forest, 'encoder', 'evaluate_micro_mask', it, extra_env=reg.model_env())
    okm = True
    detail = ''
    for n in (11, 13, 15, 17):
        # weights: right column cell (i, n-1) = 1 for the rows that must count; bottom row likewise
        for (right, bottom) in ((3, 5), (5, 3), (4, 4), (0, 7), (n - 1, n - 1)):
            rows = [[0] * n for _ in range(n)]
            for i in range(1, 1 + right):
                rows[i][n - 1] = 1
            for j in range(1, 1 + bottom):
                rows[n - 1][j] = 1
            if right == n - 1 and bottom == n - 1:
                rows[n - 1][n - 1] = 1
            rows[0][n - 1] = 1      # must be ignored (timing row / column index 0)
            rows[n - 1][0] = 1
            s1 = sum(rows[i][n - 1] for i in range(1, n))
            s2 = sum(rows[n - 1][j] for j in range(1, n))
            want = min(s1, s2) * 16 + max(s1, s2)
            got = f(reg.Matrix([reg.Row(r) for r in rows]), n, n)
            if got != want:
                okm = False
                detail = f'size {n}, {s1} dark in last column, {s2} in last row: {got} (want {want})'
    yield ob('Micro score = min(s1, s2) * 16 + max(s1, s2), s over last column / row, index 0 excluded', okm, mf,
             got=detail or 'ISO 7.8.3.2 formula', want='ISO 7.8.3.2 formula')
    if unknown is not None:
        raise Unknown(unknown)


def _n4_by_slice(fx, fn, it, genv, box):
    params = src.params(fn)
    need(len(params) == 3, 'mask_scores(matrix, width, height)')
    ret = single([s for s in fn.body if isinstance(s, ast.Return)], 'return of mask_scores')
    need(isinstance(ret.value, ast.Tuple) and len(ret.value.elts) == 4, 'mask_scores returns a 4-tuple')
    e4 = ret.value.elts[3]
    # the fourth score as a function of what the scan over the symbol leaves behind: backward slice over the statements
    # outside the scanning loops; a name the loops write is an input of that function
    loops = [st for st in fn.body if isinstance(st, (ast.For, ast.While))]
    need(loops, 'scanning loop of mask_scores')
    loop_stored = {n.id for lp in loops for n in ast.walk(lp) if isinstance(n, ast.Name) and isinstance(n.ctx, ast.Store)}
    def loads(node):
        bound = {n.id for c in ast.walk(node) if isinstance(c, ast.comprehension) for n in ast.walk(c.target) if isinstance(n, ast.Name)}
        bound |= {a.arg for l_ in ast.walk(node) if isinstance(l_, ast.Lambda) for a in l_.args.args}
        return {n.id for n in ast.walk(node) if isinstance(n, ast.Name) and isinstance(n.ctx, ast.Load)} - bound
    needed = loads(e4)
    picked = []
    for st in reversed(fn.body):
        if st in loops or isinstance(st, (ast.FunctionDef, ast.ClassDef, ast.Return)):
            continue
        stores = {n.id for n in ast.walk(st) if isinstance(n, ast.Name) and isinstance(n.ctx, ast.Store)}
        if stores & needed and not stores <= loop_stored:
            picked.append(st)
            needed |= loads(st)
    picked.reverse()
    last_loop = max(fn.body.index(lp) for lp in loops)
    before = [st for st in picked if fn.body.index(st) < last_loop]
    after = [st for st in picked if fn.body.index(st) > last_loop]
    inputs = sorted((needed & loop_stored) - set(params))
    need(len(inputs) <= 1, f'N4 depends on more than one quantity the scan computes: {inputs}')
    D = inputs[0] if inputs else None
    yield ob('mask_scores returns four scores, the fourth computed from the dark module count', True, ret,
             got=f'{ast.unparse(e4)[:60]} <- {D or "the matrix"}', want='N4 from the number of dark modules')

    def matrix_with(n, dark):
        cells = [1] * dark + [0] * (n * n - dark)
        return [bytearray(cells[r * n:(r + 1) * n]) for r in range(n)]
    for n in (21, 25):
        bad = None
        for dark in range(0, n * n + 1):
            e = dict(genv)
            e.update({params[0]: matrix_with(n, dark), params[1]: n, params[2]: n})
            it.block(before, e)
            if D is not None:
                e[D] = dark
            it.block(after, e)
            got = ev.ev(e4, e)
            want = 10 * int(abs(Fraction(100 * dark, n * n) - 50) / 5)
            if got != want and bad is None:
                bad = (dark, got, want)
        yield ob(f'N4 for size {n}: every dark count 0..{n * n}', bad is None, ret,
                 got=f'dark={bad[0]}: {bad[1]}' if bad else 'ISO formula', want=f'{bad[2]}' if bad else 'ISO formula')
    box.update(D=D, last_loop=last_loop, params=params)


@rule('C06', 'R9', 12, 'normalize_mask: 0..7 (QR) / 0..3 (Micro), numeric strings accepted, everything else ValueError; factories forward mask')
def r9(fx):
    fn = fx.fn('encoder', 'normalize_mask')
    it = Interp()
    f = make_callable(fx.forest, 'encoder', 'normalize_mask', it)
    for micro in (False, True):
        hi = 4 if micro else 8
        bad = []
        for x in list(range(-2, 10)) + [str(k) for k in range(-1, 10)] + ['x', '']:
            try:
                got = f(x, micro)
            except PyRaise as e:
                got = f'raises {e.name}'
            try:
                xi = int(x)
                want = xi if 0 <= xi < hi else 'raises ValueError'
            except ValueError:
                want = 'raises ValueError'
            if got != want:
                bad.append((x, got, want))
        yield ob(f'normalize_mask micro={micro}', not bad and f(None, micro) is None, fn, got=bad[:3], want=[])
    # encode normalises the mask against the class of the version actually used
    from . import p04
    enc = fx.fn('encoder', 'encode')
    mvv = micro_versions(fx)
    it2 = Interp()
    bad = []
    for req, guessed, final in ((None, -2, -2), (None, 5, 5), ('M3', -3, -1), (10, 2, 10), ('m4', 0, 0), (1, 1, 1)):
        genv, rec = p04._encode_stub_env(fx, it2, mvv[guessed] if guessed < 1 else guessed)
        real = genv['normalize_mask']
        seen = []

        def nm(mask, is_micro, real=real, seen=seen):
            seen.append((mask, bool(is_micro)))
            return real(mask, is_micro)
        genv['normalize_mask'] = nm
        try:
            FuncVal(enc, genv, it2)('<content>', None, req, None, '3', None, False, None, True)
            got = (list(seen), rec.get('_encode', {}).get('mask'))
        except PyRaise as e:
            got = f'raises {e.name}'
        if got != ([('3', final < 1)], 3):
            bad.append((req, guessed, got))
    yield ob('encode: the mask range is chosen by the final version (Micro iff the version used is a Micro version); the normalised mask reaches _encode', not bad, enc,
             got=bad[:2] or 'as required', want='normalize_mask(mask, <final version is Micro>) -> _encode(mask=...)')
    yield from wrappers.forwarding(fx, {'mask'})
    from . import p12       # the command line tool passes --pattern on as it is (0 included)
    for o in p12.r4(fx):
        if o.key.startswith('make_code maps'):
            yield o


def assembled_symbols(fx):
    """From the final message to the symbol, end to end: `_encode` is interpreted with the repository's own matrix stages
    (matrix construction, function patterns, codeword placement, masking, format / version information) on a final message
    of known bits.  With mask k requested the result must be, cell by cell, the ISO symbol: function patterns, bit i of the
    message XOR pattern k of the symbol's kind at the i-th cell of the placement order, the format word of (level, k), the
    version word.  Without a requested mask the result must be the symbol that requesting the chosen number yields."""
    from .models import trace_encode
    fn = fx.fn('encoder', '_encode')
    lv, mv = levels(fx), micro_versions(fx)
    stages = ('make_matrix', 'add_finder_patterns', 'add_alignment_patterns', 'add_codewords', 'find_and_apply_best_mask', 'add_format_info', 'add_version_info')

    def expected(v, level, k, bits):
        n = iso.size_of(v)
        lay = iso.layout(v)
        if v >= 1:
            word = iso.format_word((iso.LEVEL_INDICATOR[level] << 3) | k)
            pred = iso.MASKS[k]
        else:
            word = iso.format_word_micro((iso.MICRO_SYMBOL_NUMBER[(v, level)] << 2) | k)
            pred = iso.MASKS[iso.MICRO_MASKS[k]]
        vword = iso.golay18_6(v) if v >= 7 else 0
        m = [[None] * n for _ in range(n)]
        for (r, c), (kind, val) in lay.items():
            if kind == 'format':
                m[r][c] = (word >> val[2]) & 1
            elif kind == 'version':
                m[r][c] = (vword >> val[2]) & 1
            else:
                m[r][c] = val or 0
        for i, (r, c) in enumerate(iso.placement(v)):
            m[r][c] = (bits[i] if i < len(bits) else 0) ^ (1 if pred(r, c) else 0)
        return m

    def run(v, level, k, bits):
        rv = mv[v] if v < 1 else v
        rec, res, info = trace_encode(fx, rv, level, level, mask_in=k, real=stages, boost_error=False,
                                      extra={'make_final_message': lambda *a, **kw_: list(bits)})
        if not (isinstance(res, tuple) and len(res) == 6 and res[0] == 'CODE'):
            raise Unknown('_encode does not return Code(matrix, version, error, mask, segments)')
        return [list(row) for row in res[1]], res[4]
    for v, level in ((-3, None), (-2, 'L'), (-1, 'M'), (0, 'Q'), (1, 'M'), (2, 'H'), (7, 'L')):
        n = iso.size_of(v)
        nbits = len(iso.placement(v))
        bits = [((i * i * 7 + i * 3 + 1) % 11) % 2 for i in range(nbits)]
        for k in range(8 if v >= 1 else 4):
            if v == 7 and k not in (0, 5):
                continue
            try:
                got, mask_out = run(v, level, k, bits)
                want = expected(v, level, k, bits)
                why = ''
                if mask_out != k:
                    why = f'Code.mask = {mask_out}'
                elif len(got) != n or any(len(r_) != n for r_ in got):
                    why = f'matrix {len(got)} rows'
                else:
                    diff = [(r, c) for r in range(n) for c in range(n) if got[r][c] != want[r][c]]
                    if diff:
                        r, c = diff[0]
                        kind = iso.layout(v).get((r, c), ('data',))[0]
                        why = f'{len(diff)} cell(s) differ, first ({r}, {c}) [{kind}]: {got[r][c]} instead of {want[r][c]}'
            except PyRaise as ex:
                why = f'raises {ex.name}'
            yield ob(f'symbol assembled from a known final message: version {v if v >= 1 else "M" + str(v + 4)}-{level}, mask {k} requested', not why, fn,
                     got=why or 'the ISO symbol', want='function patterns, message bits XOR pattern of the symbol kind in placement order, format / version words')
    # the automatic choice, requested explicitly, gives the same symbol
    for v, level in ((-2, 'L'), (0, 'M'), (1, 'L')):
        nbits = len(iso.placement(v))
        bits = [((i * i * 5 + i + 2) % 13) % 2 for i in range(nbits)]
        try:
            auto, k_auto = run(v, level, None, bits)
            again, k_again = run(v, level, k_auto, bits) if isinstance(k_auto, int) else (None, None)
            why = '' if auto == again and k_auto == k_again else f'automatic choice {k_auto}; requesting it gives mask {k_again} and ' + \
                (f'{sum(1 for a_, b_ in zip(sum(auto, []), sum(again, [])) if a_ != b_)} different cells' if again else 'no symbol')
        except PyRaise as ex:
            why = f'raises {ex.name}'
        yield ob(f'version {v if v >= 1 else "M" + str(v + 4)}-{level}: requesting the automatically chosen mask reproduces the symbol', not why, fn,
                 got=why or 'identical', want='identical')


@rule('C06', 'R10', 35, 'from the final message to the symbol, end to end (repository matrix stages interpreted on known bits): requested mask = pattern of the symbol kind, announced in the format information; the automatic choice requested explicitly reproduces the symbol')
def r10(fx):
    yield from assembled_symbols(fx)
