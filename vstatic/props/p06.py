"""Rules for C06 (see DESIGN.md section 5)."""
