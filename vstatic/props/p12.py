"""Rules for C12 (see DESIGN.md section 5)."""
