"""C12 -- all output routes give the same document."""
import ast

from .. import ev, iso, nf, pat, src
from ..core import rule, ob, explain, Ob
from ..ev import PyRaise
from ..interp import Interp, make_callable, FuncVal, callable_env
from ..src import Unknown
from .common import C, need, single
from . import p14

explain('C12', '''Decided (structural): the dispatch table has the 12 kinds and kind / file extension are lower-cased, svgz
is the SVG writer through gzip.open (shared with C14.R3); as_svg_data_uri forwards each of its named parameters to the
same-named parameter of write_svg plus **kw and its defaults equal write_svg's except the two documented ones (xmldecl, nl)
and unit '' which write_svg normalises; as_png_data_uri, QRCode.svg_data_uri / png_data_uri / save / svg_inline forward
everything and pin only the documented constants; between a writer's output and the value a route returns only the
transport coding is applied (base64, percent-encoding, decoding) - as_svg_data_uri additionally rewrites attribute
quotes: known finding, pinned by tests; the command line: every argparse destination is consumed by symbol creation, is
output/compact, or is a serialiser keyword; build_config - control code over the option dictionary - is interpreted with
the parser's defaults for every output kind in lower, upper and mixed case of the extension and passes exactly the
keywords the serialiser accepts, each with a value equal to the serialiser's own default or normalised to it by the
serialiser; the colour list equals the 17 colour parameters; a sequence is saved to name-NN-MM.ext built from the parts of
the name (never used as a format template) with the options forwarded; without --output the tool calls
QRCode.terminal(border, compact). NOT decided: byte equality of the outputs themselves.''')


@rule('C12', 'R1', 4, 'dispatch: 12 kinds, any letter case by kind= or extension, svgz, unknown kinds refused (C14.R3)')
def r1(fx):
    for o in p14.r3(fx):
        if 'serialiser' in o.key or 'kind' in o.key or 'svgz' in o.key:
            yield o


def _call_binding(fx, call, callee_fn, skip_first=0):
    params = src.params(callee_fn)[skip_first:]
    bound = {}
    star_kw = None
    for i, a in enumerate(call.args):
        if isinstance(a, ast.Starred):
            raise Unknown('starred positional forwarding')
        bound[params[i]] = a
    for k in call.keywords:
        if k.arg is None:
            star_kw = ast.unparse(k.value)
        else:
            bound[k.arg] = k.value
    return bound, star_kw


@rule('C12', 'R2', 30, 'route wrappers forward every option to the same-named serialiser parameter (marker arguments, recording serialisers); defaults agree')
def r2(fx):
    from ..interp import Instance
    it = Interp(max_steps=5_000_000)
    calls = []

    def rec(name):
        def f(*a, **k):
            from .. import refsig
            calls.append((name, a, refsig.drop_new_defaults(fx.forest, 'writers', name, k)))
        return f
    io_ns = ev.Namespace('io', {'BytesIO': _BytesIO})
    import base64 as _b64
    wenv = callable_env(fx.forest, 'writers', it, {'write_svg': rec('write_svg'), 'write_png': rec('write_png'), 'io': io_ns,
                                                    'base64': ev.Namespace('base64', {'b64encode': _b64.b64encode}), 'partial': __import__('functools').partial})
    svg = fx.fn('writers', 'write_svg')
    wrapper = fx.fn('writers', 'colorful.decorate.wrapper')
    uri = fx.fn('writers', 'as_svg_data_uri')
    own = [p for p in src.params(uri) if p not in ('matrix', 'matrix_size', 'encode_minimal', 'omit_charset')]
    svg_params = set(src.params(svg)) | set(src.params(wrapper))
    # every option under its own name, extra keywords passed through, the symbol and a buffer of its own
    calls.clear()
    marks = {p: f'<{p}>' for p in own}
    marks['encoding'] = 'utf-8'
    FuncVal(uri, wenv, it)('<m>', (21, 21), **marks, dark='<dark>', draw_transparent='<dt>')
    need(len(calls) == 1 and calls[0][0] == 'write_svg', 'as_svg_data_uri does not call write_svg exactly once')
    a, k = calls[0][1], calls[0][2]
    for p in own:
        yield ob(f'as_svg_data_uri({p}) -> write_svg({p})', k.get(p, '<not passed>') == marks[p] and p in svg_params, uri, got=f'{p}={k.get(p, "<not passed>")}', want=f'{p}={marks[p]}')
    yield ob('as_svg_data_uri forwards **kw (colours, draw_transparent)', k.get('dark') == '<dark>' and k.get('draw_transparent') == '<dt>', uri,
             got={x: k.get(x) for x in ('dark', 'draw_transparent')}, want='**kw')
    yield ob('as_svg_data_uri writes (matrix, matrix_size) to its own buffer', len(a) >= 3 and a[0] == '<m>' and a[1] == (21, 21) and isinstance(a[2], _BytesIO), uri,
             got=[type(x).__name__ for x in a], want=['matrix', 'matrix_size', 'buff'])
    # falsy but meaningful values ('' is not None: an empty title is an element, border 0 is no quiet zone) are not dropped on the way
    falsy = {p_: '' for p_ in ('title', 'desc', 'svgid', 'svgclass', 'lineclass', 'unit') if p_ in own}
    falsy.update({p_: False for p_ in ('xmldecl', 'svgns', 'omitsize', 'nl') if p_ in own})
    if 'border' in own:
        falsy['border'] = 0
    calls.clear()
    FuncVal(uri, wenv, it)('<m>', (21, 21), **falsy)
    kf = calls[0][2]
    sd_ = src.param_defaults(svg)
    lost = []
    for p_, v_ in falsy.items():
        if p_ in kf:
            if kf[p_] != v_ or type(kf[p_]) is not type(v_):
                lost.append((p_, v_, kf[p_]))
            continue
        dflt = ev.ev(sd_[p_], ev.base_env(fx.forest, 'writers')) if p_ in sd_ else '<required>'
        if dflt == v_ and type(dflt) is type(v_):
            continue
        from . import p10
        try:
            o1, _ = p10._render(fx, it, 'write_svg', 2, '#000', None, **{p_: v_})
            o2, _ = p10._render(fx, it, 'write_svg', 2, '#000', None)
            same = o1 == o2
        except PyRaise:
            same = False
        if not same:
            lost.append((p_, v_, f'not passed (serialiser default {dflt!r} means something else)'))
    yield ob('as_svg_data_uri passes empty strings, False and 0 on as given', not lost, uri, got=lost[:3], want=[])
    # defaults: what write_svg receives when nothing is given = its own defaults (documented differences: xmldecl, nl)
    calls.clear()
    FuncVal(uri, wenv, it)('<m>', (21, 21))
    k0 = calls[0][2]
    sd = src.param_defaults(svg)
    senv = ev.base_env(fx.forest, 'writers')
    documented = {'xmldecl': False, 'nl': False}
    for p in own:
        if p not in sd:
            continue
        want_v = ev.ev(sd[p], senv)
        got_v = k0.get(p, want_v)
        if p in documented:
            ok, want = got_v is documented[p], f'{documented[p]} (documented difference)'
        else:
            ok, want = got_v == want_v and type(got_v) is type(want_v), repr(want_v)
            if not ok and p == 'unit' and {got_v, want_v} <= {'', None}:
                from . import p10
                a1, _ = p10._render(fx, it, 'write_svg', 2, '#000', None, unit='')
                a2, _ = p10._render(fx, it, 'write_svg', 2, '#000', None, unit=None)
                ok, want = a1 == a2, f'{want_v!r} (or a value the SVG serialiser treats like it)'
        yield ob(f'default of as_svg_data_uri({p})', ok, uri, got=repr(got_v), want=want)
    # png data uri
    pu = fx.fn('writers', 'as_png_data_uri')
    calls.clear()
    FuncVal(pu, wenv, it)('<m>', (21, 21), scale='<scale>', border='<border>', compresslevel='<cl>', dark='<dark>', dpi='<dpi>')
    okp = len(calls) == 1 and calls[0][0] == 'write_png' and calls[0][1][:2] == ('<m>', (21, 21)) and isinstance(calls[0][1][2], _BytesIO) and \
        calls[0][2] == dict(scale='<scale>', border='<border>', compresslevel='<cl>', dark='<dark>', dpi='<dpi>')
    yield ob('as_png_data_uri forwards scale, border, compresslevel and **kw', okp, pu, got=calls[:1], want='write_png(matrix, matrix_size, buff, scale=.., border=.., compresslevel=.., **kw)')
    calls.clear()
    FuncVal(pu, wenv, it)('<m>', (21, 21))
    wd = src.param_defaults(fx.fn('writers', 'write_png'))
    for p in ('scale', 'border', 'compresslevel'):
        want_v = ev.ev(wd[p], senv)
        got_v = calls[0][2].get(p, want_v)
        yield ob(f'default of as_png_data_uri({p})', got_v == want_v, pu, got=repr(got_v), want=repr(want_v))
    # QRCode methods
    wcalls = []

    def wrec(name):
        def f(*a_, **k_):
            from .. import refsig
            wcalls.append((name, a_, refsig.drop_new_defaults(fx.forest, 'writers', name, k_)))
            return f'<{name} result>'
        return f
    stdout = object()
    wns = ev.Namespace('writers', {n: wrec(n) for n in ('as_svg_data_uri', 'as_png_data_uri', 'save', 'write_terminal', 'write_terminal_compact', 'write_terminal_win')})

    class SysNs:
        _model = ('stdout', 'platform')
        platform = 'linux'
    SysNs.stdout = stdout
    qenv = callable_env(fx.forest, '__init__', it, {'writers': wns, 'sys': SysNs(), 'io': io_ns})

    def qr():
        q_ = Instance(fx.forest, '__init__', 'QRCode', qenv, it)
        q_.matrix, q_._matrix_size = '<m>', (21, 21)
        return q_
    ud = src.param_defaults(uri)
    uenv = senv
    qd = src.param_defaults(fx.fn('__init__', 'QRCode.svg_data_uri'))
    wcalls.clear()
    res = qr().svg_data_uri(xmldecl='<x>', encode_minimal='<em>', omit_charset='<oc>', nl='<nl>', scale='<s>', dark='<d>')
    ok = wcalls == [('as_svg_data_uri', ('<m>', (21, 21)), dict(xmldecl='<x>', encode_minimal='<em>', omit_charset='<oc>', nl='<nl>', scale='<s>', dark='<d>'))] \
        and res == '<as_svg_data_uri result>'
    okd = all(ev.ev(qd[p], qenv) == ev.ev(ud[p], uenv) for p in ('xmldecl', 'nl', 'encode_minimal', 'omit_charset'))
    yield ob('QRCode.svg_data_uri forwards its four options and **kw, same defaults', ok and okd, fx.fn('__init__', 'QRCode.svg_data_uri'), got=wcalls[:1], want='as_svg_data_uri(self.matrix, self._matrix_size, ..., **kw)')
    wcalls.clear()
    res = qr().png_data_uri(scale='<s>', dark='<d>')
    yield ob('QRCode.png_data_uri', wcalls == [('as_png_data_uri', ('<m>', (21, 21)), dict(scale='<s>', dark='<d>'))] and res == '<as_png_data_uri result>',
             fx.fn('__init__', 'QRCode.png_data_uri'), got=wcalls[:1], want='writers.as_png_data_uri(self.matrix, self._matrix_size, **kw)')
    wcalls.clear()
    qr().save('<out>', kind='<kind>', scale='<s>')
    got_save = [(n, a_, k_) for n, a_, k_ in wcalls]
    oks = len(got_save) == 1 and got_save[0][0] == 'save' and (got_save[0][1] + tuple(got_save[0][2].get(x) for x in ('kind',) if x in got_save[0][2]))[:4] == ('<m>', (21, 21), '<out>', '<kind>') \
        and {k_: v for k_, v in got_save[0][2].items() if k_ != 'kind'} == {'scale': '<s>'}
    yield ob('QRCode.save', oks, fx.fn('__init__', 'QRCode.save'), got=got_save, want='writers.save(self.matrix, self._matrix_size, out, kind, **kw)')
    for kw_, want_name, want_out in ((dict(), 'write_terminal', stdout), (dict(out='<o>', border=3), 'write_terminal', '<o>'), (dict(compact=True, border=1), 'write_terminal_compact', stdout),
                                     (dict(out='<o>', compact=True), 'write_terminal_compact', '<o>')):
        wcalls.clear()
        qr().terminal(**kw_)
        okt = len(wcalls) == 1 and wcalls[0][0] == want_name and wcalls[0][1][:2] == ('<m>', (21, 21)) and wcalls[0][1][2] is want_out and \
            (list(wcalls[0][1][3:]) + [wcalls[0][2].get('border')])[0] == kw_.get('border')
        yield ob(f'QRCode.terminal({kw_}) -> {want_name}(matrix, size, out or stdout, border)', okt, fx.fn('__init__', 'QRCode.terminal'), got=[(c_[0], c_[1][2:], c_[2]) for c_ in wcalls],
                 want=f'{want_name}(self.matrix, self._matrix_size, out or sys.stdout, border)')


def _transport(expr, source_txt):
    """Strip transport codings from a returned expression; returns (inner expression text, codings, other calls)."""
    codings, others = [], []
    e = expr
    while True:
        if isinstance(e, ast.Call):
            nm = src.call_name(e) or ''
            last = nm.split('.')[-1]
            if last in ('b64encode', 'encode', 'quote') or nm in ('encode',):
                codings.append(nm)
                e = e.args[0] if e.args else e.func.value
                continue
            if last == 'decode' and isinstance(e.func, ast.Attribute):
                codings.append(nm.split('.')[-1])
                e = e.func.value
                continue
            if ast.unparse(e) == source_txt:
                return ast.unparse(e), codings, others
            others.append(nm)
            if e.args:
                e = e.args[0]
                continue
        return ast.unparse(e), codings, others


class _BytesIO:
    _model = ('write', 'getvalue', 'tell', 'seek')

    def __init__(self, initial=b''):
        self.data = bytearray(initial)

    def write(self, b):
        self.data += b
        return len(b)

    def getvalue(self):
        return bytes(self.data)

    def tell(self):
        return len(self.data)

    def seek(self, pos, whence=0):
        return pos


SVG_TEXT = '<svg class="a b" id=\'i\' d="M0 0h1"><title>27" x 3\' = "q"</title>caf\u00e9 100% &amp; #+?\n</svg>'      # non-ASCII, both quote styles in tags and in text, reserved characters


def _tags_requoted(raw):
    """The document with the attribute delimiters inside tags normalised to one quote style; character data untouched."""
    import re as _re
    parts = _re.split(rb'(<[^>]*>)', raw)
    return b''.join(p_.replace(b'"', b"'") if p_.startswith(b'<') else p_ for p_ in parts)
PNG_MARK = bytes(range(256)) + b'\x89PNG'


@rule('C12', 'R2b', 5, 'routes apply only their transport coding to the serialiser output: the data URI / inline text decodes to exactly the bytes the serialiser wrote')
def r2b(fx):
    from urllib.parse import unquote_to_bytes
    import base64 as _b64
    it = Interp(max_steps=5_000_000)
    calls = []

    def write_svg(matrix, matrix_size, out, **kw):
        calls.append(('write_svg', kw))
        out.write(SVG_TEXT.encode(kw.get('encoding') or 'utf-8'))

    def write_png(matrix, matrix_size, out, **kw):
        calls.append(('write_png', kw))
        out.write(PNG_MARK)
    io_ns = ev.Namespace('io', {'BytesIO': _BytesIO})
    b64_ns = ev.Namespace('base64', {'b64encode': _b64.b64encode})
    genv = callable_env(fx.forest, 'writers', it, {'write_svg': write_svg, 'write_png': write_png, 'io': io_ns, 'base64': b64_ns,
                                                    'partial': __import__('functools').partial})
    fn = fx.fn('writers', 'as_svg_data_uri')
    f = FuncVal(fn, genv, it)
    exact, modulo = [], []
    for kw in ({}, {'encoding': 'latin-1'}, {'encode_minimal': True}, {'encode_minimal': True, 'encoding': 'latin-1', 'omit_charset': True}):
        enc = kw.get('encoding', 'utf-8')
        SVG_MARK = SVG_TEXT.encode(enc)
        try:
            uri = f('<m>', (21, 21), **kw)
        except PyRaise as ex:
            uri = f'raises {ex.name}'
        head = 'data:image/svg+xml' + ('' if kw.get('omit_charset') else f';charset={enc}') + ','
        if not isinstance(uri, str) or not uri.startswith(head):
            exact.append(f'{kw}: header {str(uri)[:40]!r}')
            modulo.append(f'{kw}: header {str(uri)[:40]!r}')
            continue
        payload = uri[len(head):]
        if any(ord(ch) > 127 for ch in payload) or '#' in payload or '"' in payload or '\n' in payload or ('%' in payload.replace('%', '', 0) and
                                                                                                      __import__('re').search(r'%(?![0-9A-Fa-f]{2})', payload)):
            modulo.append(f'{kw}: a character that must be percent-encoded survives in {payload[:40]!r}')
        raw = unquote_to_bytes(payload)
        if raw != SVG_MARK:
            exact.append(f'{kw}: decodes to {raw[:50]!r}')
        if _tags_requoted(raw) != _tags_requoted(SVG_MARK):
            modulo.append(f'{kw}: decodes to {raw[:90]!r}')
    yield ob('as_svg_data_uri: codings applied to the serialiser output', not exact, fn, got=exact[:2] or 'percent-decodes to the serialiser output',
             want='percent-decodes to exactly the bytes the SVG serialiser wrote')
    yield ob('as_svg_data_uri: percent-decodes to the serialiser output up to the quote style, in the declared charset; reserved characters encoded', not modulo, fn,
             got=modulo[:2] or 'as required', want='as required')
    fn = fx.fn('writers', 'as_png_data_uri')
    uri = FuncVal(fn, genv, it)('<m>', (21, 21), scale=3)
    head = 'data:image/png;base64,'
    ok = isinstance(uri, str) and uri.startswith(head)
    try:
        raw = _b64.b64decode(uri[len(head):], validate=True) if ok else None
    except Exception:
        raw = None
    yield ob('as_png_data_uri: base64 of exactly the bytes the PNG serialiser wrote', raw == PNG_MARK and calls[-1][1].get('scale') == 3, fn,
             got='as required' if raw == PNG_MARK else str(uri)[:60], want='data:image/png;base64,<base64 of the output>')
    # QRCode.svg_inline: the text of the SVG the serialiser wrote, decoded with the encoding it was written in
    from ..interp import Instance
    saves = []

    def save(matrix, matrix_size, out, kind=None, **kw):
        saves.append((kind, kw))
        out.write(SVG_TEXT.encode(kw.get('encoding') or 'utf-8'))
    genv2 = callable_env(fx.forest, '__init__', it, {'io': io_ns, 'writers': ev.Namespace('writers', {'save': save})})
    init = fx.fn('__init__', 'QRCode.svg_inline')
    for kw, enc in (({}, 'utf-8'), ({'encoding': 'latin-1', 'scale': 2}, 'latin-1')):
        qr = Instance(fx.forest, '__init__', 'QRCode', genv2, it)
        qr.matrix, qr._matrix_size = '<m>', (21, 21)
        saves.clear()
        try:
            got = qr.svg_inline(**kw)
        except PyRaise as ex:
            got = f'raises {ex.name}'
        want = SVG_TEXT
        okk = len(saves) == 1 and saves[0][0] == 'svg' and saves[0][1] == dict(kw, xmldecl=False, svgns=False, nl=False)
        yield ob(f'QRCode.svg_inline({kw}): the SVG text as written (no XML declaration, no namespace, no newline), decoded with {enc}', got == want and okk, init,
                 got=(str(got)[:50], saves), want='the serialiser output decoded')


def _parser_defaults(fx):
    """{dest: default value} of the argparse definitions in cli.make_parser (static extraction)."""
    fn = fx.fn('cli', 'make_parser')
    out = {}
    for c in src.calls_in(fn, 'add_argument'):
        kw = src.kwargs_of(c)
        opts = [a.value for a in c.args if isinstance(a, ast.Constant) and isinstance(a.value, str)]
        if not opts:
            continue
        if 'dest' in kw:
            dest = kw['dest'].value
        else:
            longs = [o for o in opts if o.startswith('--')]
            dest = (longs[0][2:] if longs else opts[0].lstrip('-')).replace('-', '_')
        action = kw['action'].value if 'action' in kw and isinstance(kw['action'], ast.Constant) else None
        if action == 'version':
            continue
        if 'default' in kw:
            import argparse as _ap
            default = ev.ev(kw['default'], {'argparse': ev.Namespace('argparse', {'SUPPRESS': _ap.SUPPRESS})})
            if default == _ap.SUPPRESS:
                continue        # the destination exists only when the option is given: the configuration of old command lines is unchanged
        elif action == 'store_true':
            default = False
        elif action == 'store_false':
            default = True
        else:
            default = None
        if dest in out and out[dest] != default and action in ('store_true', 'store_false'):
            # --micro / --no-micro share a dest: the default is that of the first definition
            continue
        out[dest] = default
    return out


def _decorator_layers(fx, fn):
    """The wrapper functions a serialiser's decorators put around it, innermost first, as (wrapper FunctionDef, sets __wrapped__):
    `colorful(...)` gives writers.colorful.decorate.wrapper; a decorator defined in the module that returns an inner function gives that
    function (functools.wraps on it sets __wrapped__).  Any other decorator: UNKNOWN."""
    out = []
    for dec in reversed(fn.decorator_list):
        if isinstance(dec, ast.Call) and src.call_name(dec) == 'colorful':
            out.append((fx.fn('writers', 'colorful.decorate.wrapper'), True))
            continue
        name = dec.id if isinstance(dec, ast.Name) else None
        try:
            dfn = fx.fn('writers', name) if name else None
        except Exception:
            dfn = None
        inner = None
        if isinstance(dfn, ast.FunctionDef):
            rets = [st.value.id for st in dfn.body if isinstance(st, ast.Return) and isinstance(st.value, ast.Name)]
            inner = next((st for st in dfn.body if isinstance(st, ast.FunctionDef) and st.name in rets), None)
            if inner is None and len(dfn.args.args) == 1 and rets == [dfn.args.args[0].arg]:
                continue        # returns the function it was given (a registration decorator): no layer
        if inner is None:
            raise Unknown(f'decorator `{ast.unparse(dec)[:40]}` of writers.{fn.name}: not a wrapper-returning decorator of the module this rule can read')
        wraps = any(isinstance(x, ast.Call) and (src.call_name(x) or '').split('.')[-1] == 'wraps' for x in inner.decorator_list)
        out.append((inner, wraps))
    return out


def _writer_kw(fx):
    """{ext: {keyword: default expr}} as cli computes it: parameters with defaults of the dispatch target and its __wrapped__."""
    table = fx.forest.module_assign('writers', '_VALID_SERIALIZERS')
    need(isinstance(table, ast.Dict), '_VALID_SERIALIZERS is not a dict display')
    wrapper = fx.fn('writers', 'colorful.decorate.wrapper')
    out = {}
    for k, v in zip(table.keys, table.values):
        fn = fx.fn('writers', v.id)
        d = dict(src.param_defaults(fn))
        for layer, _ in _decorator_layers(fx, fn):
            if layer is not wrapper:
                # a pass-through wrapper accepts its own optional parameters and, through **keywords, those of what it wraps
                if layer.args.kwarg is None:
                    d = {}
                for nm, dv in dict(src.param_defaults(layer)).items():
                    d.setdefault(nm, dv)
        if any(isinstance(x, ast.Call) and src.call_name(x) == 'colorful' for x in fn.decorator_list):
            wd = dict(src.param_defaults(wrapper))
            # dark / light defaults come from the decorator arguments
            dec = [x for x in fn.decorator_list if isinstance(x, ast.Call) and src.call_name(x) == 'colorful'][0]
            dk = src.kwargs_of(dec)
            for nm in ('dark', 'light'):
                if nm in dk:
                    wd[nm] = dk[nm]
            wd.update(d)
            d = wd
        out[k.value] = d
    return out


COLOUR_KEYS = ['dark', 'light', 'finder_dark', 'finder_light', 'format_dark', 'format_light', 'alignment_dark', 'alignment_light',
               'timing_dark', 'timing_light', 'data_dark', 'data_light', 'version_dark', 'version_light', 'quiet_zone', 'dark_module',
               'separator']


@rule('C12', 'R3', 60, 'CLI: for every output kind (any case of the extension) the options passed without flags equal the serialiser defaults; only accepted keywords are passed')
def r3(fx):
    it = Interp(max_steps=20_000_000)
    defaults = _parser_defaults(fx)
    wk = _writer_kw(fx)
    consumed = ['mode', 'error', 'version', 'pattern', 'encoding', 'boost_error', 'seq', 'symbol_count', 'micro', 'content', 'output']
    mapping = {ext: frozenset(d) for ext, d in wk.items()}
    genv = callable_env(fx.forest, 'cli', it, {'_EXT_TO_KW_MAPPING': mapping})
    bc = FuncVal(fx.fn('cli', 'build_config'), genv, it)
    fn = fx.fn('cli', 'build_config')
    for ext in sorted(wk):
        results = {}
        for spell in (ext, ext.upper(), ext.title()) + (('svgz', 'SVGZ', 'SvgZ') if ext == 'svg' else ()):
            cfg = {k: v for k, v in defaults.items() if k not in consumed}
            results[spell] = bc(cfg, filename=f'out.dir/name.{spell}')
        base = results[ext]
        same = all(v == base for v in results.values())
        yield ob(f'.{ext}: same configuration for every letter case of the extension' + (' and for .svgz' if ext == 'svg' else ''), same, fn,
                 got={k: sorted(v) for k, v in results.items() if v != base}, want='identical')
        extra = sorted(set(base) - set(wk[ext]))
        yield ob(f'.{ext}: only keywords the serialiser accepts are passed', not extra, fn, got=extra, want=[])
        wfn_name = [v.id for k, v in zip(fx.forest.module_assign('writers', '_VALID_SERIALIZERS').keys, fx.forest.module_assign('writers', '_VALID_SERIALIZERS').values) if k.value == ext][0]
        wfn = fx.fn('writers', wfn_name)
        for k, v in sorted(base.items()):
            dflt = ev.ev(wk[ext][k], {})
            ok = v == dflt and type(v) is type(dflt) or v == dflt
            note = ''
            if not ok:
                # normalisation at the top of the serialiser: `if k is None: k = D` / `k = k or D`
                for s in wfn.body:
                    b = pat.match(s, f'if {k} is None:\n    {k} = H_d', mode='stmt')
                    if b is not None and v is None and ev.ev(b['d'], {}) == dflt:
                        ok, note = True, f'normalised by `if {k} is None: {k} = {dflt!r}`'
                    b = pat.match(s, f'{k} = {k} or H_d', mode='stmt')
                    if b is not None and not v and ev.ev(b['d'], {}) == (dflt or ev.ev(b['d'], {})) and not dflt:
                        ok, note = True, f'normalised by `{k} = {k} or ...`'
            yield ob(f'.{ext}: {k} without flag', ok, fn, got=f'{v!r} {note}', want=f'{dflt!r} (default of {wfn_name})')
    # flags given: they survive for the kinds that accept them
    cfg = {k: v for k, v in defaults.items() if k not in consumed}
    cfg.update(scale=3, border=1, dark='DarkRed', light='transparent', title='T', dpi=300, svgid='i', no_classes=True, svgencoding=None, unit='mm',
               finder_dark=' X ', data_light='#AbCdEf')
    got = bc(dict(cfg), filename='x.svg')
    want_svg = {'scale': 3, 'border': 1, 'dark': 'DarkRed', 'light': None, 'finder_dark': ' X ', 'data_light': '#AbCdEf', 'title': 'T', 'svgid': 'i', 'svgclass': None, 'lineclass': None,
                'encoding': None, 'unit': 'mm'}
    yield ob('flags reach the SVG serialiser (transparent -> None, --no-classes, --svgencoding)', all(got.get(k, '<missing>') == v for k, v in want_svg.items()), fn,
             got={k: got.get(k, '<missing>') for k in want_svg}, want=want_svg)
    got = bc(dict(cfg), filename='x.png')
    got_txt = bc(dict(cfg, dark='X', light=' '), filename='x.txt')
    yield ob('colour values are passed on verbatim (case and blanks preserved), e.g. the TXT characters', got_txt.get('dark') == 'X' and got_txt.get('light') == ' ', fn,
             got=(got_txt.get('dark'), got_txt.get('light')), want=('X', ' '))
    yield ob('flags reach the PNG serialiser', all(got.get(k, '<missing>') == v for k, v in dict(scale=3, border=1, dark='DarkRed', light=None, dpi=300).items())
             and 'title' not in got, fn, got=got, want='scale, border, dark, light, dpi')


class _RecCfg(dict):
    """A configuration dictionary that records which keys are taken out of it."""
    _model = ('pop', 'get', 'items', 'keys', 'update', 'copy', '__getitem__', '__contains__', 'setdefault', 'values')

    def __init__(self, *a, **k):
        super().__init__(*a, **k)
        self.taken = []

    def pop(self, key, *d):
        self.taken.append(key)
        return super().pop(key, *d)

    def get(self, key, *d):
        self.taken.append(key)
        return super().get(key, *d)

    def __getitem__(self, key):
        self.taken.append(key)
        return super().__getitem__(key)


class _Code:
    _model = ('co_varnames', 'co_argcount', 'co_kwonlyargcount', 'co_posonlyargcount', 'co_flags')

    def __init__(self, fn):
        a = fn.args
        pos = [x.arg for x in a.posonlyargs + a.args]
        kwo = [x.arg for x in a.kwonlyargs]
        extra = ([a.vararg.arg] if a.vararg else []) + ([a.kwarg.arg] if a.kwarg else [])
        locs = []
        for n in ast.walk(fn):
            if isinstance(n, ast.Name) and isinstance(n.ctx, ast.Store) and n.id not in pos + kwo + extra + locs:
                locs.append(n.id)
        self.co_varnames = tuple(pos + kwo + extra + locs)
        self.co_argcount = len(pos)
        self.co_kwonlyargcount = len(kwo)
        self.co_posonlyargcount = len(a.posonlyargs)
        self.co_flags = 0x03 | (0x04 if a.vararg else 0) | (0x08 if a.kwarg else 0)


class _FnDesc:
    """What introspection sees of a serialiser: __code__, __defaults__, __kwdefaults__, __name__ and, for a function decorated
    with a functools.wraps wrapper, __wrapped__."""
    _model = ('__code__', '__defaults__', '__kwdefaults__', '__name__', '__wrapped__')

    def __init__(self, fn, wrapped=None, name=None):
        self.__code__ = _Code(fn)
        self.__defaults__ = tuple(object() for _ in fn.args.defaults) or None
        self.__kwdefaults__ = {x.arg: object() for x, d in zip(fn.args.kwonlyargs, fn.args.kw_defaults) if d is not None} or None
        self.__name__ = name or fn.name
        if wrapped is not None:
            self.__wrapped__ = wrapped

    def __getattr__(self, name):
        raise PyRaise(AttributeError, None, f"'function' object has no attribute {name!r}")


@rule('C12', 'R4', 49, 'CLI: every argparse destination is consumed by symbol creation / main or is a serialiser keyword; colour list = colour parameters; options reach the factories unchanged')
def r4(fx):
    defaults = _parser_defaults(fx)
    wk = _writer_kw(fx)
    allkw = set().union(*[set(d) for d in wk.values()])
    mc = fx.fn('cli', 'make_code')
    it = Interp(max_steps=20_000_000)
    # make_code, interpreted with recording configurations and recording factories
    marks = {'mode': '<mode>', 'error': '<error>', 'version': '<version>', 'pattern': '<pattern>', 'encoding': '<encoding>', 'boost_error': '<boost>',
             'micro': '<micro>', 'symbol_count': '<count>', 'content': ['<a>', '<b>'], 'output': '<out>', 'border': '<border>', 'compact': '<compact>'}
    falsy = {'mode': None, 'error': None, 'version': None, 'pattern': 0, 'encoding': None, 'boost_error': False, 'micro': False, 'symbol_count': None,
             'content': ['0'], 'output': None, 'border': 0, 'compact': False}
    taken = set()
    fwd_bad = []
    for seq in (False, True):
        for vals in (marks, falsy):
            calls = []

            class Segno:
                _model = ('make', 'make_sequence', 'make_qr', 'make_micro')

                @staticmethod
                def make(content, **kw):
                    from .. import refsig
                    calls.append(('make', content, refsig.drop_new_defaults(fx.forest, '__init__', 'make', kw)))
                    return '<qr>'

                @staticmethod
                def make_sequence(content, **kw):
                    from .. import refsig
                    calls.append(('make_sequence', content, refsig.drop_new_defaults(fx.forest, '__init__', 'make_sequence', kw)))
                    return '<seq>'
                make_qr = make_micro = make
            cfg = _RecCfg(dict(defaults, **vals), seq=seq)
            genv = callable_env(fx.forest, 'cli', it, {'segno': Segno()})
            try:
                res = FuncVal(mc, genv, it)(cfg)
            except PyRaise as ex:
                res = f'raises {ex.name}'
            taken |= set(cfg.taken)
            want_kw = dict(mode=vals['mode'], error=vals['error'], version=vals['version'], mask=vals['pattern'], encoding=vals['encoding'],
                           boost_error=vals['boost_error'])
            want_kw.update({'symbol_count': vals['symbol_count']} if seq else {'micro': vals['micro']})
            want = [('make_sequence' if seq else 'make', ' '.join(vals['content']), want_kw)]
            if calls != want or res != ('<seq>' if seq else '<qr>'):
                fwd_bad.append((seq, calls, res))
    yield ob('make_code maps the options to the factory keywords (falsy values included) and encodes the joined content', not fwd_bad, mc,
             got=fwd_bad[:2] or 'as required', want='make / make_sequence(" ".join(content), mode, error, version, mask=pattern, encoding, boost_error, micro | symbol_count)')
    # main: what it takes out of the configuration
    mainf = fx.fn('cli', 'main')
    taken_main = set()
    for output in (None, 'x.svg'):
        cfg = _RecCfg(dict(defaults, **marks), output=output)

        class QR:
            _model = ('terminal', 'save')

            def terminal(self, **kw):
                pass

            def save(self, out, **kw):
                pass
        genv = callable_env(fx.forest, 'cli', it, {'parse': lambda args, cfg=cfg: cfg, 'make_code': lambda config: QR(),
                                                   'build_config': lambda config, filename=None: {}})
        try:
            FuncVal(mainf, genv, it)(['x'])
        except (PyRaise, Unknown):
            pass
        taken_main |= set(cfg.taken)
    rewrites = {'svgencoding': 'encoding', 'no_classes': 'svgclass'}
    for dest in sorted(defaults):
        ok = dest in taken or dest in taken_main or dest in allkw or rewrites.get(dest) in allkw or dest == 'compact'
        yield ob(f'destination {dest}', ok, fx.fn('cli', 'make_parser'), got='consumed' if ok else 'neither consumed nor a serialiser keyword',
                 want='consumed by make_code/main or a serialiser keyword')
    # colour keys: build_config turns 'transparent' into None for exactly the colour parameters of the colourful serialisers
    bcf = fx.fn('cli', 'build_config')
    wrapper = fx.fn('writers', 'colorful.decorate.wrapper')
    want = sorted(p for p in src.params(wrapper) if p not in ('matrix', 'matrix_size', 'out'))
    genv = callable_env(fx.forest, 'cli', it)
    cfg = dict(defaults)
    cfg.update({k: 'transparent' for k in want})
    cfg.update({'title': 'transparent', 'unit': 'transparent', 'output': 'x.svg'})
    try:
        got_cfg = FuncVal(bcf, genv, it)(dict(cfg))
        got = sorted(k for k in want if k in got_cfg and got_cfg[k] is None)
        others = sorted(k for k in ('title', 'unit') if got_cfg.get(k) != 'transparent')
    except PyRaise as ex:
        got, others = f'raises {ex.name}', []
    yield ob('colour keys handled by build_config = colour parameters of the colourful serialisers', got == want and not others, bcf,
             got=f'missing {sorted(set(want) - set(got))} also rewritten {others}' if isinstance(got, list) else got, want='missing [] also rewritten []')
    # the table of accepted keywords, as the module computes it, is the set of optional parameters of each serialiser (and of
    # the function it wraps)
    table = fx.forest.module_assign('writers', '_VALID_SERIALIZERS')
    need(isinstance(table, ast.Dict), '_VALID_SERIALIZERS is not a dict display')
    descs = {}
    for k, v in zip(table.keys, table.values):
        fn = fx.fn('writers', v.id)
        d = _FnDesc(fn)
        for layer, wraps in _decorator_layers(fx, fn):
            d = _FnDesc(layer, wrapped=d, name=fn.name) if wraps else _FnDesc(layer)
        descs[k.value] = d
    from ..interp import module_namespace
    wns = module_namespace(fx.forest, 'writers', it, {'_VALID_SERIALIZERS': descs})
    genv = callable_env(fx.forest, 'cli', it, {'writers': wns})
    body = [st for st in fx.forest.mod('cli').body if isinstance(st, (ast.Assign, ast.AugAssign, ast.For, ast.While, ast.If, ast.Expr, ast.Delete, ast.Try))
            and not (isinstance(st, ast.If) and '__main__' in ast.unparse(st.test))
            and not (isinstance(st, ast.Expr) and isinstance(st.value, ast.Constant))]
    try:
        it.block(body, genv)
        tab = genv.get('_EXT_TO_KW_MAPPING')
        bad = {}
        cli_keys = set(defaults) | set(rewrites.values()) | {'lineclass'}
        for kind, d in wk.items():
            got_k = set(tab.get(kind, ())) if isinstance(tab, dict) else None
            # what the command line can set must get through; nothing the serialiser does not accept may get through
            if got_k is None or not (set(d) & cli_keys) <= got_k or not got_k <= set(d):
                bad[kind] = f'missing {sorted((set(d) & cli_keys) - (got_k or set()))} extra {sorted((got_k or set()) - set(d))}'
    except PyRaise as ex:
        bad = f'raises {ex.name}'
    yield ob('accepted keywords per kind = parameters with defaults of the serialiser and of the function it wraps', not bad,
             fx.forest.mod('cli'), where='cli (module level)', got=bad or 'as required', want='as required')


class _QRStub:
    _model = ('save',)

    def __init__(self, log, k):
        self.log, self.k = log, k

    def save(self, out, kind=None, **kw):
        self.log.append((self.k, out, kind, kw))


@rule('C12', 'R5', 12, 'sequence: files <stem>-<total:02d>-<index:02d><.ext> built from the parts of the name (never used as a format template), index from 1, kind and options forwarded; one symbol or a stream: unchanged')
def r5(fx):
    fn = fx.fn('__init__', 'QRCodeSequence.save')
    it = Interp()
    genv = callable_env(fx.forest, '__init__', it)
    f = FuncVal(fn, genv, it)
    stream = object()
    cases = [(3, 'a.svg', ['a-03-01.svg', 'a-03-02.svg', 'a-03-03.svg']),
             (2, 'dir.v1/na{0}me.b.png', ['dir.v1/na{0}me.b-02-01.png', 'dir.v1/na{0}me.b-02-02.png']),
             (2, 'x{}.txt', ['x{}-02-01.txt', 'x{}-02-02.txt']), (2, '%s.pdf', ['%s-02-01.pdf', '%s-02-02.pdf']),
             (2, '{o}{n}{m}{dot_idx}.eps', ['{o}{n}{m}{dot_idx}-02-01.eps', '{o}{n}{m}{dot_idx}-02-02.eps']),
             (12, 'seq.png', [f'seq-12-{k:02d}.png' for k in range(1, 13)]),
             (1, 'single.svg', ['single.svg']), (1, 'x{}.txt', ['x{}.txt']),
             (2, 'noextension', ['noextension', 'noextension']), (3, stream, [stream] * 3), (1, stream, [stream])]
    for n, out, want in cases:
        log = []
        seq = tuple(_QRStub(log, k) for k in range(n))
        try:
            f(seq, out, kind='png', scale=3, dark='red')
            got = [x[1] for x in log]
            rest = [(x[0], x[2], x[3]) for x in log]
        except PyRaise as ex:
            got, rest = f'raises {ex.name}', []
        ok = got == want and rest == [(k, 'png', {'scale': 3, 'dark': 'red'}) for k in range(n)]
        yield ob(f'{n} symbol(s) saved to {out if isinstance(out, str) else "<stream>"!r}', ok, fn, got=(got if got != want else 'the expected names', rest[:1]),
                 want=want[:3] if isinstance(out, str) else 'the stream itself, every time')
    log = []
    f(tuple(_QRStub(log, k) for k in range(2)), 'a.svg')
    yield ob('kind defaults to None (taken from the extension by QRCode.save), no option invented', [(x[2], x[3]) for x in log] == [(None, {}), (None, {})], fn,
             got=[(x[2], x[3]) for x in log], want=[(None, {})] * 2)


@rule('C12', 'R6', 2, 'CLI without --output prints QRCode.terminal(border, compact); with --output saves build_config(...)')
def r6(fx):
    for o in p14.r9(fx):
        if o.key.startswith(('no output file', 'output file')):
            yield o
