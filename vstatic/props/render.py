"""render -- interpret a serialiser on an abstract symbol and decode what it writes.

The serialisers are control code around three things: the row source (matrix_iter / matrix_iter_verbose / matrix_to_lines, whose
own semantics are decided on position markers by C11.R6 and C10.R1), the output object, and a few library routines (zlib, time).
Here the row sources are replaced by *reference* row sources over a fixed pattern symbol (they also record the scale / border they
were asked for), the output object by a recorder and zlib.compress by a tagging identity, and the serialiser is interpreted.  The
recorded output is then decoded with an independent reader of the file format, and the decoded picture is compared with the
picture of the pattern symbol at the requested scale and border.  Nothing here depends on how the serialiser is written -- local
names, helper functions, loop forms, string formatting -- only on what it writes.
"""
import functools
import re
import struct
import zlib as _zlib

from ..interp import FuncVal, callable_env
from ..src import Unknown
from .common import C


class Rec:
    _model = ('write', 'tell', 'writelines')

    def __init__(self):
        self.parts = []

    def write(self, x):
        self.parts.append(x)

    def writelines(self, xs):
        for x in xs:
            self.parts.append(x)

    def tell(self):
        return sum(len(x) for x in self.parts)

    def kinds(self):
        return {type(x).__name__ for x in self.parts}

    def text(self):
        return ''.join(x if isinstance(x, str) else bytes(x).decode('latin1') for x in self.parts)

    def data(self):
        return b''.join(x.encode('utf-8') if isinstance(x, str) else bytes(x) for x in self.parts)


class CM:
    def __init__(self, v):
        self._cm_value = v


class TimeStub:
    _model = ('strftime', 'timezone')
    timezone = 0

    @staticmethod
    def strftime(fmt):
        return '<time>'


class ZStub:
    """zlib with compress replaced by a tagging identity (the compressed stream is not what is examined)."""
    _model = ('compress', 'crc32')

    def __init__(self):
        self.levels = []

    def compress(self, data, level=9):
        self.levels.append(level)
        return b'<Z>' + bytes(data) + b'</Z>'

    @staticmethod
    def crc32(data, value=0):
        return _zlib.crc32(bytes(data), value)


class TW:
    _model = ('wrap',)

    @staticmethod
    def wrap(text, width):
        import textwrap
        return textwrap.wrap(text, width)


def bit(r, c):
    """The pattern symbol: no row or column is uniform, no two neighbouring rows are equal."""
    return 1 if (r * 5 + c * 3 + (r * c) % 7) % 3 == 0 or (r == c) else 0


def pattern(w, h):
    return [[bit(r, c) for c in range(w)] for r in range(h)]


def default_border(size):
    w, h = size
    return 4 if (w > 17 and w == h) else 2


class RowSource:
    """Reference matrix_iter / matrix_iter_verbose: the picture of `matrix` at (scale, border); records what it was asked."""

    def __init__(self, matrix, typed=None):
        self.matrix = matrix
        self.typed = typed          # function (r, c, bit) -> module type, for the verbose source
        self.calls = []

    def _cell(self, r, c, qz, typed):
        h, w = len(self.matrix), len(self.matrix[0])
        if 0 <= r < h and 0 <= c < w:
            v = self.matrix[r][c]
            return self.typed(r, c, v) if typed else v
        return qz if typed else 0

    def rows(self, size, scale, border, qz=None, typed=False):
        w, h = size
        s = int(scale)
        b = default_border(size) if border is None else border
        typed = typed and self.typed is not None
        for y in range((h + 2 * b) * s):
            yield tuple(self._cell(y // s - b, x // s - b, qz, typed) for x in range((w + 2 * b) * s))      # rows are tuples, as matrix_iter yields them

    def plain(self, matrix, matrix_size, scale=1, border=None):
        # matrix_iter: dark / light only, whatever the caller wants to do with module types
        self.calls.append(('matrix_iter', scale, border, matrix is self.matrix))
        return iter(list(self.rows(matrix_size, scale, border)))

    def verbose(self, qz):
        def f(matrix, matrix_size, scale=1, border=None):
            self.calls.append(('matrix_iter_verbose', scale, border, matrix is self.matrix))
            return iter(list(self.rows(matrix_size, scale, border, qz, typed=True)))
        return f


def run(fx, it, writer, matrix, size, args=(), kw=None, typed=None, extra=None):
    """Interpret writers.<writer>(matrix, size, <out>, *args, **kw); returns (recorder, row source, zlib stub)."""
    rec, zs = Rec(), ZStub()
    rs = RowSource(matrix, typed)
    qz = C(fx, 'TYPE_QUIET_ZONE')
    over = {'writable': lambda out, mode, encoding=None: CM(rec), 'matrix_iter': rs.plain, 'matrix_iter_verbose': rs.verbose(qz),
            'time': TimeStub(), 'zlib': zs, 'textwrap': TW(), 'partial': functools.partial}
    over.update(extra or {})
    genv = callable_env(fx.forest, 'writers', it, over)
    fn = fx.fn('writers', writer)
    import ast
    from .. import ev
    cur = FuncVal(fn, genv, it)
    cur.decorators_applied = True
    # the decorators are applied as the module applies them, innermost first: `colorful` is modelled (colour keywords -> colour map),
    # a wrapper-returning decorator of the module itself is interpreted, anything else is outside what this harness can read
    for d in reversed(fn.decorator_list):
        if src_name(d) == 'colorful' and isinstance(d, ast.Call):
            dkw = {k.arg: ev.ev(k.value, genv) for k in d.keywords}

            def cur(matrix_, size_, out_, *a, _inner=cur, _dkw=dkw, **opts):
                colour_kw = {k: opts.pop(k) for k in list(opts) if k in COLOUR_KEYS}
                cm = genv['_make_colormap'](size_[0], size_[1], **{**_dkw, **colour_kw})
                rec.colormap = dict(cm)
                return _inner(matrix_, size_, out_, cm, *a, **opts)
        elif isinstance(d, ast.Name) and isinstance(genv.get(d.id), FuncVal):
            cur = genv[d.id](cur)
            if not callable(cur):
                raise Unknown(f'decorator {d.id} of writers.{writer} does not return a function')
        else:
            raise Unknown(f'decorator `{ast.unparse(d)[:40]}` of writers.{writer}: not a decorator of the module this harness can apply')
    cur(matrix, size, '<out>', *args, **(kw or {}))
    return rec, rs, zs


COLOUR_KEYS = ('dark', 'light', 'finder_dark', 'finder_light', 'data_dark', 'data_light', 'version_dark', 'version_light',
               'format_dark', 'format_light', 'alignment_dark', 'alignment_light', 'timing_dark', 'timing_light', 'separator',
               'dark_module', 'quiet_zone')


def deco_defaults(fx, writer):
    """The dark / light defaults the @colorful decorator of `writer` injects."""
    from .. import ev
    fn = fx.fn('writers', writer)
    for d in fn.decorator_list:
        if src_name(d) == 'colorful':
            env = ev.base_env(fx.forest, 'writers')
            return {k.arg: ev.ev(k.value, env) for k in d.keywords}
    raise Unknown(f'{writer} is not decorated with colorful')


def src_name(deco):
    import ast
    if isinstance(deco, ast.Call):
        deco = deco.func
    return deco.id if isinstance(deco, ast.Name) else getattr(deco, 'attr', None)


def picture(matrix, size, scale, border, value=lambda r, c, v: v, outside=0):
    """Expected picture: rows of value(r, c, bit) at (scale, border); `outside` in the quiet zone."""
    w, h = size
    s = int(scale)
    b = default_border(size) if border is None else border
    out = []
    for y in range((h + 2 * b) * s):
        row = []
        for x in range((w + 2 * b) * s):
            r, c = y // s - b, x // s - b
            row.append(value(r, c, matrix[r][c]) if (0 <= r < h and 0 <= c < w) else outside)
        out.append(row)
    return out


# ---- decoders ---------------------------------------------------------------------------------------

class Bad(Exception):
    """The output is not a well-formed file of its format."""


def decode_pbm(data):
    m = re.match(rb'(P[14])\n((?:#[^\n]*\n)*)(\d+) (\d+)\n', data)
    if not m:
        raise Bad(f'PBM header {data[:40]!r}')
    kind, w, h = m.group(1), int(m.group(3)), int(m.group(4))
    body = data[m.end():]
    rows = []
    if kind == b'P4':
        stride = (w + 7) // 8
        if len(body) != stride * h:
            raise Bad(f'P4 raster has {len(body)} bytes, {stride * h} expected for {w}x{h}')
        for y in range(h):
            line = body[y * stride:(y + 1) * stride]
            bits = [(byte >> (7 - k)) & 1 for byte in line for k in range(8)]
            if any(bits[w:]):
                raise Bad('P4 padding bits are not zero')
            rows.append(bits[:w])
    else:
        lines = body.split(b'\n')
        if lines[-1] != b'' or len(lines) - 1 != h:
            raise Bad(f'P1 raster has {len(lines) - 1} lines for height {h}')
        for ln in lines[:-1]:
            if len(ln) != w or set(ln) - set(b'01'):
                raise Bad(f'P1 line {ln[:20]!r} for width {w}')
            rows.append([c - 48 for c in ln])
    return kind.decode(), w, h, rows


def decode_pam(data):
    end = data.find(b'ENDHDR\n')
    if not data.startswith(b'P7\n') or end < 0:
        raise Bad(f'PAM header {data[:30]!r}')
    hdr = {}
    for ln in data[3:end].split(b'\n'):
        if not ln or ln.startswith(b'#'):
            continue
        k, _, v = ln.partition(b' ')
        hdr[k.decode()] = v.decode()
    try:
        w, h, d, mx = int(hdr['WIDTH']), int(hdr['HEIGHT']), int(hdr['DEPTH']), int(hdr['MAXVAL'])
    except (KeyError, ValueError):
        raise Bad(f'PAM header fields {hdr}')
    body = data[end + 7:]
    if len(body) != w * h * d:
        raise Bad(f'PAM raster has {len(body)} bytes, {w * h * d} expected')
    rows = [[tuple(body[(y * w + x) * d:(y * w + x + 1) * d]) for x in range(w)] for y in range(h)]
    return hdr, w, h, d, mx, rows


def decode_ppm(data):
    m = re.match(rb'P6(?:\s+#[^\n]*\n|\s+)(\d+) (\d+) (\d+)\n', data)
    if not m:
        raise Bad(f'PPM header {data[:60]!r}')
    w, h, mx = int(m.group(1)), int(m.group(2)), int(m.group(3))
    body = data[m.end():]
    if len(body) != w * h * 3:
        raise Bad(f'PPM raster has {len(body)} bytes, {w * h * 3} expected')
    return w, h, mx, [[tuple(body[(y * w + x) * 3:(y * w + x) * 3 + 3]) for x in range(w)] for y in range(h)]


def decode_xpm(text):
    m = re.match(r'/\* XPM \*/\nstatic char \*(\w+)\[\] = \{\n"(\d+) (\d+) (\d+) (\d+)",\n', text)
    if not m:
        raise Bad(f'XPM header {text[:60]!r}')
    name, w, h, nc, cpp = m.group(1), int(m.group(2)), int(m.group(3)), int(m.group(4)), int(m.group(5))
    rest = text[m.end():]
    colours = {}
    for _ in range(nc):
        mm = re.match(r'"(.{%d}) c ([^"]+)",\n' % cpp, rest)
        if not mm:
            raise Bad(f'XPM colour line {rest[:30]!r}')
        colours[mm.group(1)] = mm.group(2)
        rest = rest[mm.end():]
    if not rest.endswith('};\n'):
        raise Bad('XPM does not end with };')
    lines = rest[:-3].split('\n')
    if lines[-1] != '':
        raise Bad('XPM pixel lines')
    lines = lines[:-1]
    rows = []
    for i, ln in enumerate(lines):
        want_tail = '",' if i < len(lines) - 1 else '"'
        if not (ln.startswith('"') and ln.endswith(want_tail)):
            raise Bad(f'XPM pixel line {i}: {ln[:20]!r}...{ln[-3:]!r}')
        rows.append(list(ln[1:len(ln) - len(want_tail)]))
    return name, w, h, cpp, colours, rows


def decode_xbm(text):
    m = re.match(r'#define (\w+)_width (\d+)\n#define (\w+)_height (\d+)\nstatic unsigned char (\w+)_bits\[\] = \{\n', text)
    if not m or not text.endswith('};\n'):
        raise Bad(f'XBM frame {text[:50]!r}')
    names = {m.group(1), m.group(3), m.group(5)}
    w, h = int(m.group(2)), int(m.group(4))
    body = text[m.end():-3]
    vals = re.findall(r'0x([0-9a-fA-F]{2})', body)
    stride = (w + 7) // 8
    if len(vals) != stride * h or re.sub(r'0x[0-9a-fA-F]{2}|[,\s]', '', body):
        raise Bad(f'XBM has {len(vals)} bytes, {stride * h} expected')
    rows = []
    for y in range(h):
        bits = [(int(v, 16) >> k) & 1 for v in vals[y * stride:(y + 1) * stride] for k in range(8)]
        if any(bits[w:]):
            raise Bad('XBM padding bits are not zero')
        rows.append(bits[:w])
    return names, w, h, rows


def decode_png(data):
    out = {'signature': data[:8] == b'\x89PNG\r\n\x1a\n', 'chunks': []}
    pos = 8
    while pos < len(data):
        if pos + 8 > len(data):
            raise Bad('PNG: truncated chunk header')
        ln, = struct.unpack('>I', data[pos:pos + 4])
        typ = data[pos + 4:pos + 8]
        if typ == b'IDAT':
            # the stub's tag tells where the payload ends even if the length field is wrong
            pass
        payload = data[pos + 8:pos + 8 + ln]
        if pos + 12 + ln > len(data):
            raise Bad(f'PNG: chunk {typ!r} length {ln} runs past the end')
        crc, = struct.unpack('>I', data[pos + 8 + ln:pos + 12 + ln])
        out['chunks'].append((typ, payload, crc == _zlib.crc32(typ + payload)))
        pos += 12 + ln
    types = [c[0] for c in out['chunks']]
    out['order'] = types
    byt = {c[0]: c[1] for c in out['chunks']}
    if b'IHDR' not in byt or len(byt[b'IHDR']) != 13:
        raise Bad('PNG: no IHDR of 13 bytes')
    w, h, depth, ctype, comp, flt, inter = struct.unpack('>2I5B', byt[b'IHDR'])
    out.update(width=w, height=h, depth=depth, ctype=ctype, tail=(comp, flt, inter))
    raw = byt.get(b'IDAT', b'')
    if not (raw.startswith(b'<Z>') and raw.endswith(b'</Z>')):
        raise Bad('PNG: IDAT is not the output of zlib.compress')
    raw = raw[3:-4]
    if ctype not in (0, 3) or depth not in (1, 2, 4, 8):
        raise Bad(f'PNG: colour type {ctype} depth {depth}')
    stride = (w * depth + 7) // 8
    if len(raw) != (stride + 1) * h:
        raise Bad(f'PNG: {len(raw)} bytes of scanlines, {(stride + 1) * h} expected for {w}x{h} at depth {depth}')
    prev = bytearray(stride)
    rows = []
    for y in range(h):
        ft = raw[y * (stride + 1)]
        line = bytearray(raw[y * (stride + 1) + 1:(y + 1) * (stride + 1)])
        if ft == 2:
            line = bytearray((a + b) & 0xFF for a, b in zip(line, prev))
        elif ft == 1:
            for i in range(1, len(line)):
                line[i] = (line[i] + line[i - 1]) & 0xFF
        elif ft != 0:
            raise Bad(f'PNG: filter type {ft}')
        prev = line
        per = 8 // depth
        vals = [(byte >> (depth * (per - 1 - k))) & ((1 << depth) - 1) for byte in line for k in range(per)]
        if any(vals[w:]):
            raise Bad('PNG: padding samples are not zero')
        rows.append(vals[:w])
    out['samples'] = rows
    # palette / transparency -> RGBA per sample value
    table = {}
    if ctype == 3:
        pl = byt.get(b'PLTE')
        if pl is None or len(pl) % 3:
            raise Bad('PNG: PLTE missing or not a multiple of 3')
        tr = byt.get(b'tRNS', b'')
        n = len(pl) // 3
        if n > (1 << depth):
            raise Bad(f'PNG: {n} palette entries at depth {depth}')
        if len(tr) > n:
            raise Bad('PNG: more tRNS entries than palette entries')
        for i in range(n):
            table[i] = tuple(pl[3 * i:3 * i + 3]) + ((tr[i],) if i < len(tr) else (255,))
        out['palette'] = [table[i] for i in range(n)]
    else:
        tr = byt.get(b'tRNS')
        tv = struct.unpack('>H', tr)[0] if tr is not None and len(tr) == 2 else None
        if tr is not None and tv is None:
            raise Bad('PNG: greyscale tRNS is not one 16-bit sample')
        mx = (1 << depth) - 1
        for v in range(1 << depth):
            g = v * 255 // mx
            table[v] = (g, g, g, 0 if v == tv else 255)
    try:
        out['pixels'] = [[table[v] for v in row] for row in rows]
    except KeyError as ex:
        raise Bad(f'PNG: sample value {ex} has no palette entry')
    return out


def decode_terminal(text):
    rows = []
    for ln in text.split('\n')[:-1]:
        bits, pos = [], 0
        while pos < len(ln):
            m = re.compile(r'\x1b\[(7|49)m((?:  )+)\x1b\[0m').match(ln, pos)
            if not m:
                raise Bad(f'terminal row at {pos}: {ln[pos:pos + 12]!r}')
            bits += [0 if m.group(1) == '7' else 1] * (len(m.group(2)) // 2)
            pos = m.end()
        rows.append(bits)
    if not text.endswith('\n'):
        raise Bad('terminal output does not end with a newline')
    return rows


BLOCKS = {' ': (1, 1), '▀': (0, 1), '▄': (1, 0), '█': (0, 0)}


def decode_compact(text):
    top, bottom = [], []
    for ln in text.split('\n')[:-1]:
        try:
            pairs = [BLOCKS[ch] for ch in ln]
        except KeyError as ex:
            raise Bad(f'compact terminal: character {ex}')
        top.append([p[0] for p in pairs])
        bottom.append([p[1] for p in pairs])
    rows = []
    for t, b in zip(top, bottom):
        rows.append(t)
        rows.append(b)
    return rows


def first_diff(got, want):
    if len(got) != len(want):
        return f'{len(got)} rows instead of {len(want)}'
    for y, (a, b) in enumerate(zip(got, want)):
        if len(a) != len(b):
            return f'row {y} has {len(a)} cells instead of {len(b)}'
        for x, (p, q) in enumerate(zip(a, b)):
            if p != q:
                return f'pixel ({y},{x}) is {p}, the symbol has {q} there'
    return ''


# ---- SVG ------------------------------------------------------------------------------------------------

def lines_source(matrix, calls):
    """Reference matrix_to_lines: the horizontal runs of dark modules, row by row, starting at (x, y)."""
    def f(m, x, y, incby=1):
        calls.append(('matrix_to_lines', x, y, incby, m is matrix))
        out = []
        for r, row in enumerate(matrix):
            c = 0
            while c < len(row):
                if row[c]:
                    e = c
                    while e < len(row) and row[e]:
                        e += 1
                    out.append(((x + c, y + r * incby), (x + e, y + r * incby)))
                    c = e
                else:
                    c += 1
        return iter(out)
    return f


def web_rgba(text, opacity, names):
    """RGBA (alpha 0..255) of an SVG colour value."""
    a = 255 if opacity is None else round(float(opacity) * 255)
    m = re.fullmatch(r'#([0-9a-fA-F]{3})', text)
    if m:
        return tuple(int(ch * 2, 16) for ch in m.group(1)) + (a,)
    m = re.fullmatch(r'#([0-9a-fA-F]{6})', text)
    if m:
        return tuple(int(m.group(1)[i:i + 2], 16) for i in (0, 2, 4)) + (a,)
    m = re.fullmatch(r'rgba\((\d+),\s*(\d+),\s*(\d+),\s*([0-9.]+)\)', text)
    if m:
        return (int(m.group(1)), int(m.group(2)), int(m.group(3)), round(float(m.group(4)) * 255))
    if text in names:
        return tuple(names[text]) + (a,)
    raise Bad(f'SVG colour {text!r}')


def decode_svg(text, names):
    """(attributes of <svg>, transform, grid painter): paints the paths in document order onto a grid in module units."""
    m = re.search(r'<svg([^>]*)>', text)
    if not m or not text.rstrip('\n').endswith('</svg>'):
        raise Bad('no <svg> element')
    attrs = dict(re.findall(r'\s([\w:-]+)="([^"]*)"', m.group(1)))
    transforms = re.findall(r'<(g|path)[^>]*? transform="scale\(([^)]+)\)"', text)
    paths = []
    for pm in re.finditer(r'<path([^>]*?)\sd="([^"]*)"/>', text):
        pa = dict(re.findall(r'\s([\w:-]+)="([^"]*)"', pm.group(1)))
        paths.append((pa, pm.group(2)))
    return attrs, transforms, paths


def paint_svg(paths, n_cols, n_rows, names):
    grid = [[None] * n_cols for _ in range(n_rows)]
    for pa, d in paths:
        if 'fill' in pa:
            mm = re.fullmatch(r'M0 0h(\d+)v(\d+)h-(\d+)z', d)
            if not mm or (int(mm.group(1)), int(mm.group(2)), int(mm.group(3))) != (n_cols, n_rows, n_cols):
                raise Bad(f'SVG background path {d!r} does not cover {n_cols}x{n_rows}')
            col = web_rgba(pa['fill'], pa.get('fill-opacity'), names)
            for r in range(n_rows):
                for c in range(n_cols):
                    grid[r][c] = col
            continue
        if 'stroke' not in pa:
            continue        # a path without paint (transparent modules kept on request)
        col = web_rgba(pa['stroke'], pa.get('stroke-opacity'), names)
        x = y = 0
        for cmd, a, b, ln in re.findall(r'([Mm])(-?[0-9.]+) (-?[0-9.]+)h(-?[0-9.]+)', d):
            a, b, ln = float(a), float(b), float(ln)
            if cmd == 'M':
                x, y = a, b
            else:
                x, y = x + a, y + b
            r = y - .5
            if r != int(r) or x != int(x) or ln != int(ln) or ln <= 0:
                raise Bad(f'SVG run at ({x}, {y}) length {ln} is not on the module grid')
            r, x0, ln = int(r), int(x), int(ln)
            if not (0 <= r < n_rows and 0 <= x0 and x0 + ln <= n_cols):
                raise Bad(f'SVG run row {r} columns {x0}..{x0 + ln} outside the {n_cols}x{n_rows} symbol')
            for c in range(x0, x0 + ln):
                grid[r][c] = col
            x += ln
        if re.sub(r'[Mm]-?[0-9.]+ -?[0-9.]+h-?[0-9.]+', '', d):
            raise Bad(f'SVG path data {d[:40]!r} has other commands than M/m/h')
    return grid
