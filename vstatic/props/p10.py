"""Rules for C10 (see DESIGN.md section 5)."""
