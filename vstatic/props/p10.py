"""C10 -- vector outputs (SVG, EPS, PDF, LaTeX)."""
import ast
import itertools
import re

from .. import ev, iso, nf, pat, src
from ..core import rule, ob, explain, Ob
from ..ev import PyRaise
from ..interp import Interp, make_callable, FuncVal, callable_env
from ..src import Unknown
from .common import C, need, single

explain('C10', '''Decided (structural): SVG (plain), EPS, PDF and LaTeX draw the runs of one extractor, matrix_to_lines, which
is interpreted bounded-exhaustively on every 0/1 matrix up to 6 columns x 1 row and 4 x 2 (both directions of y) and yields
exactly the maximal dark runs, each once, in row order; every writer that sizes its page as (size+2b)*scale and draws in
module units emits its scale transform under a guard equal to scale != 1 (truth table over integral and fractional scales;
siblings SVG/EPS/PDF); no floor/int/round is applied to a value derived from scale, width or height in the four writers; the
PDF background rectangle (page units) precedes the transform, the SVG background is sized in module units from matrix size and
border; EPS and PDF share the first baseline rows+border-1/2, LaTeX multiplies every coordinate by scale; the PDF output block
is interpreted on a recording stream with the content stream as an opaque blob: /Length equals its length, every xref offset
points at 'N 0 obj', startxref at 'xref', every object is closed by endobj, entry count and /Size are objects+1; page fields
(width/height/viewBox, %%BoundingBox, /MediaBox) come from the validated size, stroke from dark, fill from light; integer
colour components map linearly c/255 for all 256 values. NOT decided: the SVG relative-coordinate accumulation and the full
document text for real symbols.''')

VEC = ('write_svg', 'write_eps', 'write_pdf', 'write_tex')


def _runs(matrix, x, y, incby):
    out = []
    yy = y
    for r, row in enumerate(matrix):
        yy = y + r * incby
        c = 0
        while c < len(row):
            if row[c]:
                s = c
                while c < len(row) and row[c]:
                    c += 1
                out.append(((x + s, yy), (x + c, yy)))
            else:
                c += 1
    return out


@rule('C10', 'R1', 1, 'the run extractor (bounded-exhaustive: maximal dark runs, each once, in row order, for both row directions); how the writers call it is part of R2')
def r1(fx):
    it = Interp(max_steps=200_000_000)
    f = make_callable(fx.forest, 'utils', 'matrix_to_lines', it)
    fn = fx.fn('utils', 'matrix_to_lines')
    bad = None
    n = 0
    for w in range(1, 7):
        for bits in itertools.product((0, 1), repeat=w):
            if not bits[0]:
                continue        # module (0, 0) of every symbol is the dark corner of a finder pattern (C02.R5)
            for (x, y, inc) in ((0, 0, 1), (2, 5, -1)):
                n += 1
                got = [tuple(map(tuple, r)) for r in f([list(bits)], x, y, inc)]
                want = _runs([list(bits)], x, y, inc)
                if got != want and bad is None:
                    bad = ([bits], got, want)
    for w in range(1, 5):
        for b1 in itertools.product((0, 1), repeat=w):
            for b2 in itertools.product((0, 1), repeat=w):
                if not b1[0]:
                    continue
                for (x, y, inc) in ((1, 1.5, 1), (0, 0, -1)):
                    n += 1
                    got = [tuple(map(tuple, r)) for r in f([list(b1), list(b2)], x, y, inc)]
                    want = _runs([list(b1), list(b2)], x, y, inc)
                    if got != want and bad is None:
                        bad = ([b1, b2], got, want)
    for m in ([[1, 1, 0], [0, 1, 1], [1, 0, 1]], [[1, 0], [0, 0], [1, 1]], [[1], [1], [1], [0], [1]]):
        n += 1
        got = [tuple(map(tuple, r)) for r in f(m, 3, 4, 1)]
        if got != _runs(m, 3, 4, 1) and bad is None:
            bad = (m, got, _runs(m, 3, 4, 1))
    yield ob(f'matrix_to_lines on {n} small matrices', bad is None, fn, got=f'{bad[0]}: {bad[1]}' if bad else 'maximal dark runs',
             want=f'{bad[2]}' if bad else 'maximal dark runs')


TAINT = {'scale', 'width', 'height'}


@rule('C10', 'R3', 4, 'no floor / int / round of a value derived from scale, width or height in the vector writers')
def r3(fx):
    for w in VEC:
        fn = fx.fn('writers', w)
        bad = []
        for n in ast.walk(fn):
            expr = None
            if isinstance(n, ast.BinOp) and isinstance(n.op, ast.FloorDiv):
                expr = n
            elif isinstance(n, ast.Call) and src.call_name(n) in ('int', 'round', 'math.floor', 'math.ceil', 'floor', 'ceil', 'math.trunc') and n.args:
                expr = n.args[0]
            if expr is not None:
                names = {x.id for x in ast.walk(expr) if isinstance(x, ast.Name)}
                if names & TAINT:
                    bad.append(f'{ast.unparse(n)} at line {n.lineno}')
        yield ob(f'{w}: integer rounding of scale-derived values', not bad, fn, got=bad, want=[])


class Stream:
    _model = ('write', 'tell')

    def __init__(self):
        self.buf = bytearray()

    def write(self, b):
        if not isinstance(b, (bytes, bytearray)):
            raise Unknown('non-bytes written to a binary stream')
        self.buf += b

    def tell(self):
        return len(self.buf)


class CM:
    def __init__(self, v):
        self._cm_value = v


@rule('C10', 'R6', 7, 'PDF structure: /Length, xref offsets, startxref, obj/endobj pairing, entry count and /Size')
def r6(fx):
    fn = fx.fn('writers', 'write_pdf')
    it = Interp(max_steps=5_000_000)
    # the whole serialiser is rendered (marker runs, tagging zlib stand-in, recording output, see below)
    txt, _ = _render(fx, it, 'write_pdf', 2.5, '#0000ff', '#ff0000')
    data = txt.encode('latin1')
    zm = re.search(rb'<Z>.*?</Z>', data, re.S)
    need(zm is not None, 'write_pdf: the content stream is not the output of zlib.compress')
    blob = zm.group(0)
    yield ob('PDF header', data.startswith(b'%PDF-1.'), fn, got=data[:9], want=b'%PDF-1.x')
    objs = [(m.start(), int(m.group(1))) for m in re.finditer(rb'(?<![0-9])(\d+) 0 obj', data)]
    ends = len(re.findall(rb'endobj', data))
    yield ob('every object is closed by endobj', ends == len(objs) and [n for _, n in objs] == list(range(1, len(objs) + 1)), fn,
             got=f'{len(objs)} obj, {ends} endobj, numbers {[n for _, n in objs]}', want='n obj = n endobj, numbered 1..n')
    m = re.search(rb'/Length (\d+)', data)
    s0 = data.find(b'stream\r\n') + 8
    s1 = data.find(b'\r\nendstream')
    yield ob('/Length = length of the content stream', m is not None and int(m.group(1)) == len(blob) and data[s0:s1] == blob, fn,
             got=(m.group(1) if m else None, s1 - s0), want=(len(blob), len(blob)))
    xr = data.find(b'xref\r\n')
    mm = re.search(rb'startxref\r\n(\d+)\r\n%%EOF', data)
    yield ob('startxref = offset of the xref table', mm is not None and int(mm.group(1)) == xr and xr > 0, fn, got=(mm.group(1) if mm else None, xr), want='equal')
    head = re.search(rb'xref\r\n0 (\d+)\r\n0000000000 65535 f\r\n', data)
    entries = re.findall(rb'(\d{10}) (\d{5}) n\r\n', data[xr:])
    yield ob('xref: one free entry + one in-use entry per object', head is not None and int(head.group(1)) == len(objs) + 1 and len(entries) == len(objs), fn,
             got=(head.group(1) if head else None, len(entries), len(objs)), want='count = objects + 1')
    offs_ok = len(entries) == len(objs) and all(int(off) == pos for (off, gen), (pos, num) in zip(entries, objs))
    yield ob('every xref offset points at its `N 0 obj`', offs_ok, fn, got=[int(o) for o, g in entries], want=[p for p, n in objs])
    tr = re.search(rb'trailer <</Size (\d+)/Root 1 0 R/Info (\d+) 0 R>>', data)
    yield ob('trailer: /Size = objects + 1, /Info is the last object, MediaBox from width/height',
             tr is not None and int(tr.group(1)) == len(objs) + 1 and int(tr.group(2)) == len(objs) and b'/MediaBox [0 0 72.5 72.5]' in data, fn,
             got=(tr.groups() if tr else None), want=(len(objs) + 1, len(objs)))
    fx.info['C10.R6 bytes interpreted'] = len(data)


@rule('C10', 'R8', 4, 'EPS / PDF colour operands: component c of an RGB tuple is written as c/255 for all 256 values; float components in [0, 1] unchanged, others refused')
def r8(fx):
    """The writers are rendered (marker runs, see below) with each of the 256 component values in turn; the operand of the
    colour operator is read back from the output."""
    import re
    it = Interp(max_steps=50_000_000)
    for writer, rx_, tol in (('write_eps', r'^([0-9.]+) ([0-9.]+) ([0-9.]+) setrgbcolor$', 6e-7), ('write_pdf', r'([0-9.eE+-]+) ([0-9.eE+-]+) ([0-9.eE+-]+) RG ', 1e-12)):
        fn = fx.fn('writers', writer)
        bad = []
        # every value in every position, plus the integer tuples that look like float triples (all components 0 or 1)
        for clr in [(c, 255 - c, (c * 7 + 3) % 256) for c in range(256)] + [(1, 1, 1), (0, 0, 1), (0, 1, 0), (1, 0, 0), (1, 0, 1), (0, 1, 1), (1, 1, 0), (2, 1, 0)]:
            if clr == (0, 0, 0):
                continue
            txt, _ = _render(fx, it, writer, 1, clr, None, size=11)
            if writer == 'write_pdf':
                m = re.search(r'<Z>(.*)</Z>', txt, re.S)
                txt = m.group(1) if m else ''
            m = re.search(rx_, txt, re.M)
            got = tuple(float(x) for x in m.groups()) if m else None
            want = tuple(x / 255.0 for x in clr)
            if got is None or any(abs(a - b) > tol for a, b in zip(got, want)):
                bad.append((clr, got))
        yield ob(f'{writer}: integer components 0..255 -> c/255', not bad, fn, got=bad[:3], want=[])
        outs = []
        # ... and an opaque alpha channel (255 or 1.0) is accepted and ignored: the colour stays the RGB colour it is
        for clr, want in (((0.0, 0.5, 1.0), (0.0, 0.5, 1.0)), ((1.5, 0.0, 0.0), 'ValueError'), ((0.2, -0.1, 0.0), 'ValueError'),
                          ((1.0, 0.0, 0.0, 1.0), (1.0, 0.0, 0.0)), ((0.0, 0.5, 1.0, 1.0), (0.0, 0.5, 1.0)), ((255, 0, 0, 255), (1.0, 0.0, 0.0)),
                          ((255, 0, 0, 1.0), (1.0, 0.0, 0.0)), ((1.0, 0.0, 0.0, 0.5), 'ValueError')):
            try:
                txt, _ = _render(fx, it, writer, 1, clr, None, size=11)
                if writer == 'write_pdf':
                    m = re.search(r'<Z>(.*)</Z>', txt, re.S)
                    txt = m.group(1) if m else ''
                m = re.search(rx_, txt, re.M)
                got = tuple(float(x) for x in m.groups()) if m else None
            except PyRaise as e:
                got = e.name
            if got != want:
                outs.append((clr, got, want))
        yield ob(f'{writer}: float components in [0, 1] are written unchanged, others are refused with ValueError', not outs, fn, got=outs, want=[])


# ---- rendering with the symbol abstracted away -----------------------------------------------------
# The vector writers are interpreted with the run extractor replaced by a fixed list of two marker runs and the
# output object by a recorder.  What is examined is the document *structure* each writer produces around the runs:
# page fields, where and when the scale transform is emitted, the background, the colours, the origin.  The structure
# does not depend on the symbol, so the two marker runs stand for any symbol.

class _Rec:
    _model = ('write', 'tell')

    def __init__(self):
        self.parts = []

    def write(self, x):
        self.parts.append(x)

    def tell(self):
        return sum(len(x) for x in self.parts)

    def text(self):
        return ''.join(x if isinstance(x, str) else x.decode('latin1') for x in self.parts)


class _TimeStub:
    _model = ('strftime', 'timezone')
    timezone = 0

    @staticmethod
    def strftime(fmt):
        return '<time>'


class _ZStub:
    _model = ('compress',)

    @staticmethod
    def compress(data, level=9):
        return b'<Z>' + data + b'</Z>'


class _TW:
    _model = ('wrap',)

    @staticmethod
    def wrap(text, width):
        import textwrap
        return textwrap.wrap(text, width)


# (dx1, row), (dx2, row): a run of 3 modules in row 0, one module in row 1, nothing in row 2 (an all-light row), two runs in row 3,
# nothing in rows 4 and 5, one run in row 6
RUNS = (((0, 0), (3, 0)), ((5, 1), (6, 1)), ((1, 3), (2, 3)), ((4, 3), (7, 3)), ((0, 6), (2, 6)))


def _numtok(t):
    try:
        return float(t)
    except ValueError:
        return None


def _segs_postfix(tokens, ops):
    """Absolute segments drawn by a postfix token stream; ops: token -> 'M' (move to), 'm' (move by), 'L' (line to), 'l' (line by)."""
    stack, pos, segs = [], None, []
    for t in tokens:
        v = _numtok(t)
        if v is not None:
            stack.append(v)
            continue
        kind = ops.get(t)
        if kind is None or len(stack) < 2:
            return f'unexpected token {t!r}'
        y, x = stack.pop(), stack.pop()
        if kind in ('m', 'l') and pos is None:
            return f'{t!r} before any absolute position'
        new = (x, y) if kind in ('M', 'L') else (pos[0] + x, pos[1] + y)
        if kind in ('L', 'l'):
            segs.append((pos, new))
        pos = new
    return segs if not stack else f'operands left over: {stack}'


def _segs_svg(d):
    """Absolute segments of an SVG path made of M / m / h (what the writer emits for runs)."""
    import re
    toks = re.findall(r'[A-Za-z]|-?\d*\.?\d+', d)
    pos, segs, i = None, [], 0
    while i < len(toks):
        c = toks[i]
        try:
            if c == 'M':
                pos = (float(toks[i + 1]), float(toks[i + 2]))
                i += 3
            elif c == 'm':
                pos = (pos[0] + float(toks[i + 1]), pos[1] + float(toks[i + 2]))
                i += 3
            elif c == 'h':
                new = (pos[0] + float(toks[i + 1]), pos[1])
                segs.append((pos, new))
                pos = new
                i += 2
            elif c == 'H':
                new = (float(toks[i + 1]), pos[1])
                segs.append((pos, new))
                pos = new
                i += 2
            else:
                return f'unexpected path command {c!r}'
        except (IndexError, ValueError, TypeError):
            return f'malformed path near {toks[i:i + 3]}'
    return segs


def _want_segs(x0, y0, ydir, k=1):
    return [((k * (x0 + a), k * (y0 + ydir * r1)), (k * (x0 + b_), k * (y0 + ydir * r2))) for (a, r1), (b_, r2) in RUNS]


def _render(fx, it, writer, scale, dark, light, border=None, size=21, **extra):
    rec = _Rec()
    calls = []

    def mtl(matrix, x, y, incby=1):
        if matrix != '<matrix>':
            raise Unknown('the run extractor is asked for something else than the symbol matrix')
        calls.append((x, y, incby))
        return iter([((x + a, y + r1 * incby), (x + b_, y + r2 * incby)) for (a, r1), (b_, r2) in RUNS])
    part = __import__('functools').partial
    genv = callable_env(fx.forest, 'writers', it, {'writable': lambda out, mode, encoding=None: CM(rec), 'matrix_to_lines': mtl,
                                                    'time': _TimeStub(), 'zlib': _ZStub(), 'textwrap': _TW(), 'partial': part})
    fn = fx.fn('writers', writer)
    f = FuncVal(fn, genv, it)
    if writer == 'write_svg':
        cm = genv['_make_colormap'](size, size, dark=dark, light=light)
        f('<matrix>', (size, size), '<out>', cm, scale=scale, border=border, **extra)
    else:
        f('<matrix>', (size, size), '<out>', scale=scale, border=border, dark=dark, **({'light': light} if writer != 'write_tex' else {}), **extra)
    return rec.text(), calls


def _num(x):
    return repr(x) if not isinstance(x, float) or x != int(x) else repr(x)


SCALES = (0.5, 1, 2, 3.3)


@rule('C10', 'R2', 30, 'SVG / EPS / PDF / TeX document structure (symbol abstracted to marker runs with all-light rows between them; the drawing is decoded into segments): page = (size+2b)*scale, transform iff scale != 1, runs in module units at the border offset, background fills the page, colours')
def r2(fx):
    import re
    it = Interp(max_steps=5_000_000)
    size, b = 21, 4
    n = size + 2 * b
    for scale in SCALES:
        W = n * scale
        for light in (None, '#ff0000'):
            for dark in ('#000', '#0000ff'):
                tag = f'scale={scale} dark={dark} light={light}'
                # ---------------- SVG
                txt, calls = _render(fx, it, 'write_svg', scale, dark, light)
                probs = []
                m = re.search(r'<svg[^>]* width="([^"]+)" height="([^"]+)"', txt)
                if not m or (m.group(1), m.group(2)) != (str(W), str(W)):
                    probs.append(f'width/height {m.groups() if m else None} != {W}')
                tr = re.findall(r' transform="scale\(([^)]+)\)"', txt)
                if scale != 1 and tr != [str(scale)]:
                    probs.append(f'scale transform {tr}, expected one scale({scale})')
                if scale == 1 and tr:
                    probs.append(f'scale transform {tr} although scale is 1')
                paths = re.findall(r'<path([^>]*) d="([^"]+)"/>', txt)
                stroke = [p for p in paths if 'stroke=' in p[0]]
                if len(stroke) != 1 or _segs_svg(stroke[0][1]) != _want_segs(b, b + .5, 1):
                    probs.append(f'dark path {[(p_[1], _segs_svg(p_[1])) for p_ in stroke][:1]}, expected the runs {_want_segs(b, b + .5, 1)}')
                elif f'stroke="{"#000" if dark == "#000" else "#00f"}"' not in stroke[0][0]:
                    probs.append(f'stroke colour in {stroke[0][0]}')
                fill = [p for p in paths if 'fill=' in p[0]]
                if light is None and fill:
                    probs.append(f'background path without light colour: {fill}')
                if light is not None and (len(fill) != 1 or fill[0][1] != f'M0 0h{n}v{n}h-{n}z' or 'fill="red"' not in fill[0][0]):
                    probs.append(f'background path {fill}, expected M0 0h{n}v{n}h-{n}z filled red')
                if scale != 1 and len(paths) > 1 and not re.search(r'<g transform="scale\([^)]+\)">', txt):
                    probs.append('with several paths the transform must be on the enclosing group')
                if calls != [(b, b + .5, 1)]:
                    probs.append(f'run extractor called with {calls}')
                yield ob(f'SVG {tag}', not probs, fx.fn('writers', 'write_svg'), got='; '.join(probs) or 'as required', want='as required')
                # ---------------- EPS
                txt, calls = _render(fx, it, 'write_eps', scale, dark, light)
                lines = txt.split('\n')
                probs = []
                if f'%%BoundingBox: 0 0 {W} {W}' not in lines:
                    probs.append(f'BoundingBox line {[l for l in lines if "BoundingBox" in l]} != 0 0 {W} {W}')
                sc_lines = [i for i, l in enumerate(lines) if l == f'{scale} {scale} scale']
                any_scale = [l for l in lines if l.endswith(' scale')]
                if scale != 1 and len(sc_lines) != 1:
                    probs.append(f'scale line {any_scale}')
                if scale == 1 and any_scale:
                    probs.append(f'scale line {any_scale} although scale is 1')
                bg = [i for i, l in enumerate(lines) if l.endswith('clippath fill')]
                if light is None and bg:
                    probs.append('background without light colour')
                if light is not None:
                    if len(bg) != 1 or not lines[bg[0]].startswith('1.000000 0.000000 0.000000 setrgbcolor'):
                        probs.append(f'background line {[lines[i] for i in bg]}')
                    elif sc_lines and bg[0] > sc_lines[0]:
                        probs.append('background after the scale')
                mv = [i for i, l in enumerate(lines) if ' moveto ' in l]
                y0 = size + b - .5
                got_segs = _segs_postfix(lines[mv[0]].split(), {'moveto': 'M', 'm': 'm', 'l': 'l'}) if len(mv) == 1 else None
                if got_segs != _want_segs(b, y0, -1):
                    probs.append(f'path {[lines[i] for i in mv]} draws {got_segs}, expected the runs {_want_segs(b, y0, -1)}')
                elif sc_lines and mv[0] < sc_lines[0]:
                    probs.append('path before the scale')
                col = [l for l in lines if l.endswith('setrgbcolor')]
                want_col = ([] if light is None else (['0 0 0 setrgbcolor'] if dark == '#000' else [])) + ([] if dark == '#000' else ['0.000000 0.000000 1.000000 setrgbcolor'])
                if col != want_col:
                    probs.append(f'colour lines {col}, expected {want_col}')
                elif bg and col:
                    # the background fill sets the current colour: the stroke colour has to be set after it (and before the path is stroked)
                    ci = [i for i, l in enumerate(lines) if l.endswith('setrgbcolor')]
                    si = lines.index('stroke') if 'stroke' in lines else -1
                    if not (bg[0] < ci[-1] < si):
                        probs.append('the stroke colour is not set between the background fill and `stroke`')
                if 'stroke' not in lines:
                    probs.append('no stroke')
                yield ob(f'EPS {tag}', not probs, fx.fn('writers', 'write_eps'), got='; '.join(probs) or 'as required', want='as required')
                # ---------------- PDF
                txt, calls = _render(fx, it, 'write_pdf', scale, dark, light)
                probs = []
                if f'/MediaBox [0 0 {W} {W}]' not in txt:
                    probs.append(f'MediaBox {re.findall(r"/MediaBox [^/]*", txt)} != [0 0 {W} {W}]')
                m = re.search(r'<Z>(.*)</Z>', txt, re.S)
                content = m.group(1) if m else ''
                want = ''
                if light is not None:
                    want += f'1.0 0.0 0.0 rg 0 0 {W} {W} re f q '
                if scale != 1:
                    want += f'{scale} 0 0 {scale} 0 0 cm '
                if dark != '#000':
                    want += '0.0 0.0 1.0 RG '
                want += f'1 0 0 1 {b} {size + b - .5} cm '
                if not content.startswith(want) or not content.endswith(' S'):
                    probs.append(f'content stream `{content[:120]}`, expected `{want}<runs> S`')
                else:
                    got_segs = _segs_postfix(content[len(want):-2].split(), {'m': 'M', 'l': 'L'})
                    if got_segs != _want_segs(0, 0, -1):
                        probs.append(f'content stream draws {got_segs}, expected the runs {_want_segs(0, 0, -1)}')
                yield ob(f'PDF {tag}', not probs, fx.fn('writers', 'write_pdf'), got='; '.join(probs) or 'as required', want='as required')
        # ---------------- TeX (no light colour)
        for dark in ('black', 'blue'):
            txt, calls = _render(fx, it, 'write_tex', scale, dark, None)
            probs = []
            if f'\\pgfsetlinewidth{{{scale}pt}}' not in txt:
                probs.append(f'line width {re.findall(r"pgfsetlinewidth[^ ]*", txt)}')
            pts = re.findall(r'\\pgfpath(moveto|lineto)\{\\pgfqpoint\{([^}]*)pt\}\{([^}]*)pt\}\}', txt)
            toks = [t for kind, x_, y_ in pts for t in (x_, y_, kind)]
            got_segs = _segs_postfix(toks, {'moveto': 'M', 'lineto': 'L'})
            want_segs = [((float(f'{(b + a) * scale}'), float(f'{(-b - r1) * scale}')), (float(f'{(b + b_) * scale}'), float(f'{(-b - r2) * scale}'))) for (a, r1), (b_, r2) in RUNS]
            if got_segs != want_segs or len(pts) != len(re.findall(r'pgfqpoint', txt)):
                probs.append(f'points {pts[:4]} draw {got_segs}, expected {want_segs}')
            if (dark != 'black') != (f'\\color{{{dark}}}' in txt):
                probs.append('colour command')
            yield ob(f'TeX scale={scale} dark={dark}', not probs, fx.fn('writers', 'write_tex'), got='; '.join(probs) or 'as required', want='as required')
    # SVG options that move the size to the viewBox: the user-unit geometry (transform, runs, background) stays what it is
    for opts, head in (({'omitsize': True}, 'omitsize'), ({'unit': 'mm'}, 'unit')):
        for scale in (2, 2.5, 0.5):
            W = n * scale
            for light in (None, '#ff0000'):
                txt, calls = _render(fx, it, 'write_svg', scale, '#000', light, **opts)
                probs = []
                if f'viewBox="0 0 {W} {W}"' not in txt:
                    probs.append(f'viewBox {re.findall(r"viewBox=.[^>]*", txt)} != 0 0 {W} {W}')
                tr = re.findall(r' transform="scale\(([^)]+)\)"', txt)
                if tr != [str(scale)]:
                    probs.append(f'scale transform {tr}, expected one scale({scale})')
                paths = re.findall(r'<path([^>]*) d="([^"]+)"/>', txt)
                stroke = [p_ for p_ in paths if 'stroke=' in p_[0]]
                if len(stroke) != 1 or _segs_svg(stroke[0][1]) != _want_segs(b, b + .5, 1):
                    probs.append(f'dark path {stroke}')
                fill = [p_ for p_ in paths if 'fill=' in p_[0]]
                if (light is None and fill) or (light is not None and (len(fill) != 1 or fill[0][1] != f'M0 0h{n}v{n}h-{n}z')):
                    probs.append(f'background path {fill}')
                if len(paths) > 1 and not re.search(r'<g transform="scale\([^)]+\)">', txt):
                    probs.append('with several paths the transform must be on the enclosing group')
                yield ob(f'SVG {head} scale={scale} light={light}: page in the viewBox, geometry unchanged', not probs, fx.fn('writers', 'write_svg'),
                         got='; '.join(probs) or 'as required', want='as required')
    txt, _ = _render(fx, it, 'write_svg', 2, '#000', None, omitsize=True)
    yield ob('SVG omitsize: viewBox instead of width/height', 'viewBox="0 0 58 58"' in txt and ' width=' not in txt, fx.fn('writers', 'write_svg'),
             got=re.findall(r'<svg[^>]*>', txt), want='viewBox="0 0 58 58", no width/height')
    txt, _ = _render(fx, it, 'write_svg', 2, '#000', None, unit='mm')
    yield ob('SVG unit: width/height carry the unit, viewBox gives the user units', 'width="58mm" height="58mm"' in txt and 'viewBox="0 0 58 58"' in txt,
             fx.fn('writers', 'write_svg'), got=re.findall(r'<svg[^>]*>', txt), want='width="58mm" height="58mm" viewBox="0 0 58 58"')


@rule('C10', 'R9', 12, 'SVG: the dark modules are painted in the requested colour, alpha channel included (fully transparent = not painted); the light colour fills the page (C11.R8)')
def r9(fx):
    from . import p11
    for o in p11.r8(fx):
        if o.key.startswith('SVG') and ("'dark'" in o.key or 'one module of the type' in o.key or 'lineclass' in o.key or o.key.startswith('SVG {} ')):
            yield o
