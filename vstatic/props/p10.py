"""C10 -- vector outputs (SVG, EPS, PDF, LaTeX)."""
import ast
import itertools
import re

from .. import ev, iso, nf, pat, src
from ..core import rule, ob, explain, Ob
from ..ev import PyRaise
from ..interp import Interp, make_callable, FuncVal, callable_env
from ..src import Unknown
from .common import C, need, single

explain('C10', '''Decided (structural): SVG (plain), EPS, PDF and LaTeX draw the runs of one extractor, matrix_to_lines, which
is interpreted bounded-exhaustively on every 0/1 matrix up to 6 columns x 1 row and 4 x 2 (both directions of y) and yields
exactly the maximal dark runs, each once, in row order; every writer that sizes its page as (size+2b)*scale and draws in
module units emits its scale transform under a guard equal to scale != 1 (truth table over integral and fractional scales;
siblings SVG/EPS/PDF); no floor/int/round is applied to a value derived from scale, width or height in the four writers; the
PDF background rectangle (page units) precedes the transform, the SVG background is sized in module units from matrix size and
border; EPS and PDF share the first baseline rows+border-1/2, LaTeX multiplies every coordinate by scale; the PDF output block
is interpreted on a recording stream with the content stream as an opaque blob: /Length equals its length, every xref offset
points at 'N 0 obj', startxref at 'xref', every object is closed by endobj, entry count and /Size are objects+1; page fields
(width/height/viewBox, %%BoundingBox, /MediaBox) come from the validated size, stroke from dark, fill from light; integer
colour components map linearly c/255 for all 256 values. NOT decided: the SVG relative-coordinate accumulation and the full
document text for real symbols.''')

VEC = ('write_svg', 'write_eps', 'write_pdf', 'write_tex')


def _runs(matrix, x, y, incby):
    out = []
    yy = y
    for r, row in enumerate(matrix):
        yy = y + r * incby
        c = 0
        while c < len(row):
            if row[c]:
                s = c
                while c < len(row) and row[c]:
                    c += 1
                out.append(((x + s, yy), (x + c, yy)))
            else:
                c += 1
    return out


@rule('C10', 'R1', 7, 'one run extractor (bounded-exhaustive: maximal dark runs, each once, in row order); EPS/PDF/TeX use incby=-1')
def r1(fx):
    it = Interp(max_steps=200_000_000)
    f = make_callable(fx.forest, 'utils', 'matrix_to_lines', it)
    fn = fx.fn('utils', 'matrix_to_lines')
    bad = None
    n = 0
    for w in range(1, 7):
        for bits in itertools.product((0, 1), repeat=w):
            if not bits[0]:
                continue        # module (0, 0) of every symbol is the dark corner of a finder pattern (C02.R5)
            for (x, y, inc) in ((0, 0, 1), (2, 5, -1)):
                n += 1
                got = [tuple(map(tuple, r)) for r in f([list(bits)], x, y, inc)]
                want = _runs([list(bits)], x, y, inc)
                if got != want and bad is None:
                    bad = ([bits], got, want)
    for w in range(1, 5):
        for b1 in itertools.product((0, 1), repeat=w):
            for b2 in itertools.product((0, 1), repeat=w):
                if not b1[0]:
                    continue
                for (x, y, inc) in ((1, 1.5, 1), (0, 0, -1)):
                    n += 1
                    got = [tuple(map(tuple, r)) for r in f([list(b1), list(b2)], x, y, inc)]
                    want = _runs([list(b1), list(b2)], x, y, inc)
                    if got != want and bad is None:
                        bad = ([b1, b2], got, want)
    for m in ([[1, 1, 0], [0, 1, 1], [1, 0, 1]], [[1, 0], [0, 0], [1, 1]], [[1], [1], [1], [0], [1]]):
        n += 1
        got = [tuple(map(tuple, r)) for r in f(m, 3, 4, 1)]
        if got != _runs(m, 3, 4, 1) and bad is None:
            bad = (m, got, _runs(m, 3, 4, 1))
    yield ob(f'matrix_to_lines on {n} small matrices', bad is None, fn, got=f'{bad[0]}: {bad[1]}' if bad else 'maximal dark runs',
             want=f'{bad[2]}' if bad else 'maximal dark runs')
    want = {'write_svg': ('matrix_to_lines(matrix, H_x, H_y)', '(border, border + .5)'), 'write_eps': ('matrix_to_lines(matrix, border, H_y, incby=-1)', None),
            'write_pdf': ('matrix_to_lines(matrix, 0, 0, incby=-1)', None), 'write_tex': ('matrix_to_lines(matrix, H_x, H_y, incby=-1)', '(border, -border)')}
    for w, (p, origin) in want.items():
        fnw = fx.fn('writers', w)
        calls = [c for c in src.calls_in(fnw, 'matrix_to_lines')]
        c = single(calls, f'matrix_to_lines call in {w}')
        b = pat.match(c, p)
        yield ob(f'{w}: draws matrix_to_lines(matrix, ...)', b is not None, c, got=ast.unparse(c), want=p.replace('H_', ''))
        if origin and b is not None:
            # the start point: `x, y = <origin>` (a tuple assignment) feeding the call
            need(isinstance(b['x'], ast.Name) and isinstance(b['y'], ast.Name), f'{w}: origin arguments')
            asg = [s for s in src.statements(fnw.body) if isinstance(s, ast.Assign) and isinstance(s.targets[0], ast.Tuple)
                   and [ast.unparse(t) for t in s.targets[0].elts] == [b['x'].id, b['y'].id]]
            blk, idx = nf.block_of(nf.enclosing_stmt(c))
            asg = [s for s in asg if s in blk[:idx]] or asg
            a = single(asg, f'{w}: origin assignment')
            yield ob(f'{w}: origin = {origin}', nf.same(a.value, origin), a, got=ast.unparse(a.value), want=origin)


@rule('C10', 'R2', 14, 'scale transform is emitted exactly when scale != 1 (SVG, EPS, PDF siblings)')
def r2(fx):
    scales = (0.25, 0.5, 0.99, 1, 1.0, 1.01, 2, 3.3, 10)
    svg = fx.fn('writers', 'write_svg')
    a = single([s for s in svg.body if isinstance(s, ast.Assign) and ast.unparse(s.targets[0]) == 'scale_info'], 'SVG scale_info')
    for sc in scales:
        got = ev.ev(a.value, {'scale': sc})
        want = f' transform="scale({sc})"' if sc != 1 else ''
        yield ob(f'SVG scale {sc}', got == want, a, got=got, want=want)
    for w, patn in (('write_eps', "writeline(f'{scale} {scale} scale')"), ('write_pdf', "append_cmd(f'{scale} 0 0 {scale} 0 0 cm')")):
        fn = fx.fn('writers', w)
        sites = [s for s in src.statements(fn.body) if isinstance(s, ast.Expr) and pat.match(s.value, patn) is not None]
        s = single(sites, f'scale transform of {w}')
        g = nf.guards_of(s, fn)
        need(len(g) >= 1, f'{w}: unguarded scale transform')
        cond = g[-1][0]
        bad = [sc for sc in scales if bool(ev.ev(cond, {'scale': sc})) != (sc != 1)]
        yield ob(f'{w}: transform guard', not bad and len(g) == 1, s, got=f'if {ast.unparse(cond)} (differs from scale != 1 at {bad})', want='if scale != 1')
    g = single([s for s in svg.body if isinstance(s, ast.Assign) and ast.unparse(s.targets[0]) == 'need_svg_group'], 'need_svg_group')
    yield ob('SVG: the transform sits on the group when there is more than one path, else on the path', nf.same(g.value, 'scale != 1 and (need_background or is_multicolor)'),
             g, got=ast.unparse(g.value), want='scale != 1 and (need_background or is_multicolor)')
    p = single([s for s in svg.body if isinstance(s, ast.Assign) and ast.unparse(s.targets[0]) == 'p'], 'SVG path prefix')
    yield ob('SVG path carries the transform iff there is no group', "scale_info if not need_svg_group else ''" in ast.unparse(p.value), p,
             got=ast.unparse(p.value)[:90], want="scale_info if not need_svg_group else ''")
    grp = [ast.unparse(s) for s in src.statements(svg.body) if isinstance(s, ast.AugAssign) and '<g' in ast.unparse(s)]
    yield ob('SVG group opens with the transform', grp == ["svg += f'<g{scale_info}>'"], svg, got=grp, want=["svg += f'<g{scale_info}>'"])


TAINT = {'scale', 'width', 'height'}


@rule('C10', 'R3', 4, 'no floor / int / round of a value derived from scale, width or height in the vector writers')
def r3(fx):
    for w in VEC:
        fn = fx.fn('writers', w)
        bad = []
        for n in ast.walk(fn):
            expr = None
            if isinstance(n, ast.BinOp) and isinstance(n.op, ast.FloorDiv):
                expr = n
            elif isinstance(n, ast.Call) and src.call_name(n) in ('int', 'round', 'math.floor', 'math.ceil', 'floor', 'ceil', 'math.trunc') and n.args:
                expr = n.args[0]
            if expr is not None:
                names = {x.id for x in ast.walk(expr) if isinstance(x, ast.Name)}
                if names & TAINT:
                    bad.append(f'{ast.unparse(n)} at line {n.lineno}')
        yield ob(f'{w}: integer rounding of scale-derived values', not bad, fn, got=bad, want=[])


@rule('C10', 'R4', 5, 'units: PDF background (page units) before the transform; SVG background sized in module units; EPS background fills the clip path')
def r4(fx):
    pdf = fx.fn('writers', 'write_pdf')
    bg = single([s for s in pdf.body if isinstance(s, ast.If) and nf.same(s.test, 'light is not None')], 'PDF background block')
    tr = single([s for s in pdf.body if isinstance(s, ast.If) and 'cm' in ast.unparse(s) and 'scale' in ast.unparse(s.test)], 'PDF transform block')
    yield ob('PDF: background rectangle is emitted before the scale transform', pdf.body.index(bg) < pdf.body.index(tr), bg,
             got=f'background at line {bg.lineno}, transform at line {tr.lineno}', want='background first')
    rect = [ast.unparse(s.value.args[0]) for s in bg.body if isinstance(s, ast.Expr) and isinstance(s.value, ast.Call)]
    wh = nf.unpack_targets(pdf, lambda c: src.call_name(c) == '_valid_width_height_and_border')
    need(wh is not None and len(wh) == 3, 'write_pdf: size unpacking')
    yield ob('PDF: background = fill colour, 0 0 width height re, f', len(rect) == 3 and rect[1] == f"f'0 0 {{{wh[0]}}} {{{wh[1]}}} re'" and rect[2] == "'f q'"
             and 'rg' in rect[0] and 'to_pdf_color(light)' in rect[0], bg, got=rect, want="['... rg', '0 0 {width} {height} re', 'f q']")
    svg = fx.fn('writers', 'write_svg')
    b1 = single([s for s in src.statements(svg.body) if isinstance(s, ast.Assign) and 'coordinates[colormap[consts.TYPE_QUIET_ZONE]]' in ast.unparse(s.targets[0])], 'SVG background start')
    names = {x.id for x in ast.walk(b1.value) if isinstance(x, ast.Name)}
    yield ob('SVG: background path starts at (0, 0) with a horizontal length in module units', nf.same(b1.value, '[(0, 0, matrix_size[0] + 2 * border)]'),
             b1, got=ast.unparse(b1.value), want='[(0, 0, matrix_size[0] + 2 * border)]')
    rep = [n for n in ast.walk(svg) if isinstance(n, ast.JoinedStr) and 'z"/>' in ast.unparse(n)]
    need(rep, 'SVG background closing path not found')
    r = rep[0]
    exprs = [ast.unparse(v.value) for v in r.values if isinstance(v, ast.FormattedValue)]
    yield ob('SVG: background closes with v<rows+2b> h-<cols+2b> z (module units)', exprs == ['matrix_size[1] + 2 * border', 'matrix_size[0] + 2 * border'], r,
             got=exprs, want=['matrix_size[1] + 2 * border', 'matrix_size[0] + 2 * border'])
    eps = fx.fn('writers', 'write_eps')
    f = [ast.unparse(c) for c in src.calls_in(eps, 'writeline') if 'clippath fill' in ast.unparse(c)]
    yield ob('EPS: background = setrgbcolor clippath fill of the light colour, before the scale', len(f) == 1 and 'rgb_to_floats(light)' in f[0], eps, got=f,
             want="writeline('{0:f} {1:f} {2:f} setrgbcolor clippath fill'.format(*rgb_to_floats(light)))")


@rule('C10', 'R5', 4, 'origin: EPS and PDF share the first baseline rows + border - 1/2; TeX scales every coordinate')
def r5(fx):
    forms = {}
    for w in ('write_eps', 'write_pdf'):
        fn = fx.fn('writers', w)
        a = single([s for s in fn.body + [x for st in fn.body if isinstance(st, ast.With) for x in st.body] if isinstance(s, ast.Assign) and ast.unparse(s.targets[0]) == 'y'
                    and 'get_symbol_size' in ast.unparse(s.value)], f'baseline in {w}')
        forms[w] = nf.norm(a.value)
        yield ob(f'{w}: y = rows + border - 0.5', nf.same(a.value, 'get_symbol_size(matrix_size, scale=1, border=0)[1] + border - .5'), a,
                 got=ast.unparse(a.value), want='get_symbol_size(matrix_size, scale=1, border=0)[1] + border - .5')
    pdf = fx.fn('writers', 'write_pdf')
    c = [ast.unparse(s.value) for s in pdf.body if isinstance(s, ast.Expr) and "cm'" in ast.unparse(s) and 'border' in ast.unparse(s)]
    yield ob('PDF: origin moved to (border, y)', c == ["append_cmd(f'1 0 0 1 {border} {y} cm')"], pdf, got=c, want=["append_cmd(f'1 0 0 1 {border} {y} cm')"])
    tex = fx.fn('writers', 'write_tex')
    pts = sorted(ast.unparse(c) for c in src.calls_in(tex, 'point'))
    yield ob('TeX: every coordinate is multiplied by scale', pts == ['point(x1 * scale, y1 * scale)', 'point(x2 * scale, y2 * scale)'], tex, got=pts,
             want=['point(x1 * scale, y1 * scale)', 'point(x2 * scale, y2 * scale)'])


class Stream:
    _model = ('write', 'tell')

    def __init__(self):
        self.buf = bytearray()

    def write(self, b):
        if not isinstance(b, (bytes, bytearray)):
            raise Unknown('non-bytes written to a binary stream')
        self.buf += b

    def tell(self):
        return len(self.buf)


class CM:
    def __init__(self, v):
        self._cm_value = v


@rule('C10', 'R6', 7, 'PDF structure: /Length, xref offsets, startxref, obj/endobj pairing, entry count and /Size')
def r6(fx):
    fn = fx.fn('writers', 'write_pdf')
    it = Interp()
    w = single([s for s in fn.body if isinstance(s, ast.With)], 'output block of write_pdf')
    stream = Stream()
    part = __import__('functools').partial
    genv = callable_env(fx.forest, 'writers', it, {'writable': lambda out, mode, encoding=None: CM(stream), 'partial': part})
    ws = FuncVal(fx.fn('writers', 'write_pdf.write_string'), genv, it)
    blob = b'G' * 37
    e = dict(genv, out='<out>', graphic=blob, width=58.5, height=58.5, creation_date="20260101000000+00'00'", write_string=ws)
    it.block([w], e)
    data = bytes(stream.buf)
    yield ob('PDF header', data.startswith(b'%PDF-1.'), fn, got=data[:9], want=b'%PDF-1.x')
    objs = [(m.start(), int(m.group(1))) for m in re.finditer(rb'(?<![0-9])(\d+) 0 obj', data)]
    ends = len(re.findall(rb'endobj', data))
    yield ob('every object is closed by endobj', ends == len(objs) and [n for _, n in objs] == list(range(1, len(objs) + 1)), fn,
             got=f'{len(objs)} obj, {ends} endobj, numbers {[n for _, n in objs]}', want='n obj = n endobj, numbered 1..n')
    m = re.search(rb'/Length (\d+)', data)
    s0 = data.find(b'stream\r\n') + 8
    s1 = data.find(b'\r\nendstream')
    yield ob('/Length = length of the content stream', m is not None and int(m.group(1)) == 37 and data[s0:s1] == blob, fn,
             got=(m.group(1) if m else None, s1 - s0), want=(b'37', 37))
    xr = data.find(b'xref\r\n')
    mm = re.search(rb'startxref\r\n(\d+)\r\n%%EOF', data)
    yield ob('startxref = offset of the xref table', mm is not None and int(mm.group(1)) == xr and xr > 0, fn, got=(mm.group(1) if mm else None, xr), want='equal')
    head = re.search(rb'xref\r\n0 (\d+)\r\n0000000000 65535 f\r\n', data)
    entries = re.findall(rb'(\d{10}) (\d{5}) n\r\n', data[xr:])
    yield ob('xref: one free entry + one in-use entry per object', head is not None and int(head.group(1)) == len(objs) + 1 and len(entries) == len(objs), fn,
             got=(head.group(1) if head else None, len(entries), len(objs)), want='count = objects + 1')
    offs_ok = len(entries) == len(objs) and all(int(off) == pos for (off, gen), (pos, num) in zip(entries, objs))
    yield ob('every xref offset points at its `N 0 obj`', offs_ok, fn, got=[int(o) for o, g in entries], want=[p for p, n in objs])
    tr = re.search(rb'trailer <</Size (\d+)/Root 1 0 R/Info (\d+) 0 R>>', data)
    yield ob('trailer: /Size = objects + 1, /Info is the last object, MediaBox from width/height',
             tr is not None and int(tr.group(1)) == len(objs) + 1 and int(tr.group(2)) == len(objs) and b'/MediaBox [0 0 58.5 58.5]' in data, fn,
             got=(tr.groups() if tr else None), want=(len(objs) + 1, len(objs)))
    g = single([s for s in fn.body if isinstance(s, ast.Assign) and ast.unparse(s.targets[0]) == 'graphic'], 'content stream')
    fx.info['C10.R6 bytes interpreted'] = len(data)


@rule('C10', 'R7', 8, 'page fields from the validated size; stroke from dark, fill from light')
def r7(fx):
    svg = fx.fn('writers', 'write_svg')
    wh = nf.unpack_targets(svg, lambda c: src.call_name(c) == '_valid_width_height_and_border')
    need(wh is not None and len(wh) == 3, 'write_svg: size unpacking')
    txt = [ast.unparse(s.value) for s in src.statements(svg.body) if isinstance(s, ast.AugAssign)]
    yield ob('SVG width/height', f'f\' width="{{{wh[0]}}}{{unit}}" height="{{{wh[1]}}}{{unit}}"\'' in txt, svg, got=[t for t in txt if 'width=' in t], want='width="{width}{unit}" height="{height}{unit}"')
    yield ob('SVG viewBox', f'f\' viewBox="0 0 {{{wh[0]}}} {{{wh[1]}}}"\'' in txt, svg, got=[t for t in txt if 'viewBox' in t], want='viewBox="0 0 {width} {height}"')
    for w in VEC[:3]:
        fn = fx.fn('writers', w)
        a = [s for s in fn.body if isinstance(s, ast.Assign) and pat.match(s.value, '_valid_width_height_and_border(matrix_size, scale, border)') is not None
             and isinstance(s.targets[0], ast.Tuple) and len(s.targets[0].elts) == 3]
        yield ob(f'{w}: width, height, border = _valid_width_height_and_border(matrix_size, scale, border)', len(a) == 1, fn, got=len(a), want=1)
    eps = fx.fn('writers', 'write_eps')
    whe = nf.unpack_targets(eps, lambda c: src.call_name(c) == '_valid_width_height_and_border')
    need(whe is not None and len(whe) == 3, 'write_eps: size unpacking')
    bb = [ast.unparse(c.args[0]) for c in src.calls_in(eps) if c.args and 'BoundingBox' in ast.unparse(c.args[0]) and isinstance(c.args[0], ast.JoinedStr)]
    yield ob('EPS BoundingBox', bb == [f"f'%%BoundingBox: 0 0 {{{whe[0]}}} {{{whe[1]}}}'"], eps, got=bb, want=["f'%%BoundingBox: 0 0 {width} {height}'"])
    sw = [c for c in src.calls_in(eps) if pat.match(c, "writeline('{0:f} {1:f} {2:f} setrgbcolor'.format(*H_c))") is not None]
    c_ = single(sw, 'EPS stroke colour line')
    sc_ = pat.match(c_, "writeline('{0:f} {1:f} {2:f} setrgbcolor'.format(*H_c))")['c']
    yield ob('EPS stroke colour from dark', nf.same_inlined(eps, sc_, 'dark if _color_is_black(dark) else rgb_to_floats(dark)')
             and nf.guard_is([(nf.inline(eps, t), pol) for t, pol in nf.guards_of(c_, eps) if not isinstance(t, ast.Name) or True][-1:], 'not _color_is_black(dark)'), c_,
             got=ast.unparse(nf.inline(eps, sc_)), want='rgb_to_floats(dark) unless black')
    pdf = fx.fn('writers', 'write_pdf')
    rg = [ast.unparse(s) for s in src.statements(pdf.body) if isinstance(s, ast.Expr) and isinstance(s.value, ast.Call) and 'RG' in ast.unparse(s)]
    g = [s for s in pdf.body if isinstance(s, ast.If) and 'RG' in ast.unparse(s)]
    yield ob('PDF stroke colour from dark', rg == ["append_cmd('{} {} {} RG'.format(*to_pdf_color(dark)))"] and len(g) == 1 and nf.same(g[0].test, 'not _color_is_black(dark)'), pdf,
             got=rg, want=["append_cmd('{} {} {} RG'.format(*to_pdf_color(dark)))"])
    tex = fx.fn('writers', 'write_tex')
    lw = [ast.unparse(c.args[0]) for c in src.calls_in(tex, 'write') if 'pgfsetlinewidth' in ast.unparse(c)]
    yield ob('TeX line width = scale in the unit', lw == ["f'  \\\\pgfsetlinewidth{{{scale}{unit}}}\\n'"], tex, got=lw, want='\\pgfsetlinewidth{<scale><unit>}')


@rule('C10', 'R8', 2, 'colour components map linearly: c -> c/255 for all 256 integer values, floats in [0, 1] unchanged')
def r8(fx):
    it = Interp(max_steps=5_000_000)
    genv = callable_env(fx.forest, 'writers', it)
    for q in ('write_eps.rgb_to_floats.to_float', 'write_pdf.to_pdf_color.to_float'):
        f = FuncVal(fx.fn('writers', q), genv, it)
        bad = [(c, f(c)) for c in range(256) if abs(f(c) - c / 255.0) > 1e-12]
        fl = [(x, f(x)) for x in (0.0, 0.5, 1.0) if f(x) != x]
        try:
            f(1.5)
            rng = 'accepted 1.5'
        except PyRaise as e:
            rng = e.name
        yield ob(f'{q}', not bad and not fl and rng == 'ValueError', fx.fn('writers', q), got=f'{bad[:3]} {fl} float 1.5: {rng}', want='c/255; floats unchanged; 1.5 -> ValueError')
