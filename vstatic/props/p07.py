"""C07 -- most compact applicable mode; requested mode honoured or refused."""
import ast
import re._constants as sre_c

from .. import ev, iso, nf, pat, src, rx
from ..core import rule, ob, explain, Ob
from ..ev import PyRaise
from ..interp import Interp, make_callable, FuncVal
from ..src import Unknown
from .common import C, levels, micro_versions, modes, table_ob, need, single
from .models import SegModel, SegmentsModel, encoder_env
from . import p01, p04, wrappers

explain('C07', '''Decided (structural): find_mode tests numeric, alphanumeric, kanji in this order and falls back to
byte, never hanzi (decision table over the eight outcomes of its three predicates); it always receives bytes (so
isdigit is ASCII-only); the alphanumeric pattern is anchored ^...\\Z and its character class is exactly the 45 ISO
characters (regex AST); is_kanji accepts exactly valid Shift JIS double-byte characters in the two ISO ranges (truth
table, shared with C01.R6); the head of make_segment is interpreted over requested mode x detected mode x length
parity: a requested mode that cannot represent the content (numeric/alphanumeric below the detected mode, odd byte count
for kanji/hanzi) is refused with ValueError, otherwise the requested mode is used as given, byte short-circuits
detection and hanzi forces GB2312; encode refuses a mode the requested version does not support for all 6 x 44
combinations; normalize_mode maps the documented names in any case; the mode QRCode reports is the field write_segment
emits (C02.R7). NOT decided: codec behaviour (which characters Shift JIS / GB2312 can represent).''')


DIGITS, NOT_DIGITS = b'0123456789', b'12a'
PROBES = (b'12\n', b'\n12', b'12 ', b' 12', b'1\r', b'', b'1.2', b'+1', b'1_2', b'\xb2', b'12\x00')     # never numeric


class DataModel:
    """Content abstracted to the answer of isdigit()."""
    _model = ('isdigit',)

    def __init__(self, digit):
        self.digit = digit

    def isdigit(self):
        return self.digit

    def __repr__(self):
        return f'<content, isdigit={self.digit}>'


class PatModel:
    """A compiled pattern abstracted to one answer; records how it is consulted."""
    _model = ('match', 'fullmatch', 'search', 'pattern')

    def __init__(self, real, answer, rec):
        self.real, self.answer, self.rec = real, answer, rec
        self.pattern = real.pattern

    def _ask(self, how, s):
        self.rec.append(how)
        return ('<match>',) if self.answer else None

    def match(self, s):
        return self._ask('match', s)

    def fullmatch(self, s):
        return self._ask('fullmatch', s)

    def search(self, s):
        return self._ask('search', s)


def _detect_env(fx, it, alnum, kanji, rec):
    """Globals for interpreting find_mode: the kanji predicate and every compiled pattern answer as told."""
    genv = encoder_env(fx.forest, it, is_kanji=lambda d, k=kanji: k)
    for k, v in list(genv.items()):
        if isinstance(v, ev.RePattern):
            genv[k] = PatModel(v, alnum, rec)
    return genv


@rule('C07', 'R1', 8, 'find_mode: numeric, alphanumeric, kanji in this order, else byte; never hanzi')
def r1(fx):
    fn = fx.fn('encoder', 'find_mode')
    md = modes(fx)
    it = Interp()
    for digit in (True, False):
        for alnum in (True, False):
            for kanji in (True, False):
                genv = _detect_env(fx, it, alnum, kanji, [])
                got = FuncVal(fn, genv, it)(DataModel(digit))
                want = md['numeric'] if digit else md['alphanumeric'] if alnum else md['kanji'] if kanji else md['byte']
                yield ob(f'isdigit={digit} alphanumeric={alnum} kanji={kanji}', got == want, fn, got=got, want=want)


@rule('C07', 'R1b', 12, 'numeric detection accepts ASCII digits only: no trailing/leading line break, blank, sign or other byte')
def r1b(fx):
    fn = fx.fn('encoder', 'find_mode')
    md = modes(fx)
    it = Interp()
    genv = _detect_env(fx, it, False, False, [])
    f = FuncVal(fn, genv, it)
    for p in PROBES:
        got = f(p)
        yield ob(f'find_mode({p!r}) with no other mode applicable', got == md['byte'], fn, got=got, want=md['byte'])
    yield from _whole_string_uses(fx)


def _pattern_uses(fx, fns=('find_mode', 'is_alphanumeric', 'is_kanji')):
    """(pattern name, method, call node) for every consultation of a module-level compiled pattern by the detection functions."""
    ns = ev.module_consts(fx.forest, 'encoder')
    out = []
    for q in fns:
        for n in ast.walk(fx.fn('encoder', q)):
            if isinstance(n, ast.Attribute) and isinstance(n.value, ast.Name) and ns.has(n.value.id) \
                    and isinstance(ns.get(n.value.id), ev.RePattern):
                par = getattr(n, '_parent', None)
                how = n.attr if isinstance(par, ast.Call) and par.func is n else None
                out.append((n.value.id, how, n))
            elif isinstance(n, ast.Name) and isinstance(n.ctx, ast.Load) and ns.has(n.id) and isinstance(ns.get(n.id), ev.RePattern) \
                    and not isinstance(getattr(n, '_parent', None), ast.Attribute):
                out.append((n.id, None, n))
    return out


def _whole_string_uses(fx):
    """Every consultation tests the whole string: fullmatch, or match with a pattern ending in \\Z, or search with both anchors."""
    ns = ev.module_consts(fx.forest, 'encoder')
    for name, how, node in _pattern_uses(fx):
        p = ns.get(name)
        tree = rx.parse(p.pattern, p.flags)
        end, start = rx.ends_with_string_end(tree) is True, rx.starts_anchored(tree)
        if how is None:
            raise Unknown(f'pattern {name} is used other than through match/fullmatch/search: `{ast.unparse(getattr(node, "_parent", node))[:60]}`')
        ok = how == 'fullmatch' or (how == 'match' and end) or (how == 'search' and end and start)
        need(how in ('fullmatch', 'match', 'search'), f'pattern method {how}')
        yield ob(f'pattern {name} tests the whole string (.{how})', ok, node, where=f'encoder.{name}', got=f'{p.pattern!r} via .{how}()',
                 want=r'.fullmatch(), or .match() with a pattern that ends in \Z')


@rule('C07', 'R2', 4, 'the alphanumeric pattern is [the 45 ISO characters]+ and is consulted on the whole string; find_mode sees bytes')
def r2(fx):
    # the pattern behind the alphanumeric decision (a pattern that is_kanji may consult is decided by R3, on every byte pair)
    uses = [u for u in _pattern_uses(fx, ('find_mode', 'is_alphanumeric'))]
    names = sorted({u[0] for u in uses})
    need(len(names) == 1, f'the alphanumeric detection consults {names}: exactly one compiled pattern expected')
    pname = names[0]
    p = C(fx, pname, 'encoder')
    need(isinstance(p, ev.RePattern) and isinstance(p.pattern, bytes), f'{pname} is not a compiled bytes pattern')
    tree = rx.parse(p.pattern, p.flags)
    where = fx.forest.module_assign('encoder', pname)
    items = [x for x in rx.ops(tree) if x[0] is not sre_c.AT]
    shape = len(items) == 1 and items[0][0] is sre_c.MAX_REPEAT and items[0][1][0] == 1 and items[0][1][1] == sre_c.MAXREPEAT \
        and len(items[0][1][2]) == 1 and items[0][1][2][0][0] in (sre_c.IN, sre_c.LITERAL)
    need(shape, f'{pname} is not [anchor] [class]+ [anchor]: {p.pattern!r}')
    yield from _whole_string_uses(fx)
    inner = items[0][1][2][0]
    cls = rx.class_set(inner[1]) if inner[0] is sre_c.IN else {inner[1]}
    want = set(iso.ALPHANUMERIC)
    yield ob('character class = the 45 ISO alphanumeric characters', cls == want, where, where=f'encoder.{pname}',
             got=f'extra {sorted(bytes([c]) for c in cls - want)} missing {sorted(bytes([c]) for c in want - cls)}', want='extra [] missing []')
    # the answer of the pattern decides the alphanumeric branch of find_mode (and nothing else does)
    it = Interp()
    rec = []
    genv = _detect_env(fx, it, True, False, rec)
    got = FuncVal(fx.fn('encoder', 'find_mode'), genv, it)(DataModel(False))
    yield ob('find_mode decides "alphanumeric" by consulting the pattern', got == modes(fx)['alphanumeric'] and len(rec) == 1, fx.fn('encoder', 'find_mode'),
             got=(got, rec), want='alphanumeric after one consultation')
    # make_segment: the mode is detected on the bytes data_to_bytes returns for the content (not on the text)
    ms = fx.fn('encoder', 'make_segment')
    marker = DataModel(False)
    seen = []

    def d2b(data, encoding):
        seen.append(('data_to_bytes', data, encoding))
        return marker, 4, encoding or 'iso-8859-1'

    def fm(data):
        seen.append(('find_mode', data))
        return modes(fx)['byte']
    it3 = Interp()
    genv3 = encoder_env(fx.forest, it3, data_to_bytes=d2b, find_mode=fm)
    try:
        FuncVal(ms, genv3, it3)('<text>', None, '<enc>')
    except (PyRaise, Unknown):
        pass        # what happens after the detection (packing a model object) is not the point here
    fms = [x for x in seen if x[0] == 'find_mode']
    okb = seen[:1] == [('data_to_bytes', '<text>', '<enc>')] and len(fms) == 1 and fms[0][1] is marker
    yield ob('find_mode is applied to the bytes returned by data_to_bytes', okb, ms, got=[(x[0], 'the bytes' if x[1] is marker else x[1]) for x in seen],
             want='data_to_bytes(content, encoding), then find_mode(<the bytes it returned>)')


@rule('C07', 'R3', 2, 'is_kanji accepts exactly valid Shift JIS double-byte characters (truth table)')
def r3(fx):
    yield from p01.r6(fx)


class Bytes:
    """Content abstracted to its length."""
    _model = ()

    def __init__(self, n):
        self.n = n

    def __len__(self):
        return self.n

    def __repr__(self):
        return f'<{self.n} bytes>'


@rule('C07', 'R4', 48, 'make_segment head: requested mode x detected mode x length parity -> mode used / ValueError')
def r4(fx):
    fn = fx.fn('encoder', 'make_segment')
    md = modes(fx)
    inv = {v: k for k, v in md.items()}
    it = Interp()
    # head = statements before the bit buffer is created
    cut = [i for i, s in enumerate(fn.body) if isinstance(s, ast.Assign) and ast.unparse(s.targets[0]) == 'buff']
    need(len(cut) == 1, 'make_segment: `buff = Buffer()` not found')
    head = fn.body[:cut[0]]
    order = ['numeric', 'alphanumeric', 'byte', 'kanji', 'hanzi']
    rank = {m: i for i, m in enumerate(order)}
    hz = C(fx, 'HANZI_ENCODING')
    # the second content is text whose str methods answer "digits" although its bytes are not: the mode is detected on the bytes
    combos = [(req, det, length, '<content>') for req in [None] + order for det in ('numeric', 'alphanumeric', 'kanji', 'byte') for length in (4, 5)]
    combos += [(req, det, 4, '\u0663\u0664\uff11\u00b2') for req in (None, 'numeric', 'alphanumeric') for det in ('kanji', 'byte')]
    for req, det, length, content in combos:
        if True:
            if True:
                calls = {'find_mode': 0, 'enc': None}

                def d2b(data, encoding, length=length):
                    calls['enc'] = encoding
                    return Bytes(length), length, encoding or 'iso-8859-1'

                def fm(data, det=det):
                    calls['find_mode'] += 1
                    return md[det]
                genv = encoder_env(fx.forest, it, data_to_bytes=d2b, find_mode=fm)
                e = dict(genv, data=content, mode=None if req is None else md[req], encoding=None)
                for p_, d_ in src.param_defaults(fn).items():      # parameters the function has gained take their defaults
                    if p_ not in ('data', 'mode', 'encoding'):
                        e[p_] = ev.ev(d_, genv)
                try:
                    it.block(head, e)
                    got = inv.get(e['segment_mode'], e['segment_mode'])
                    enc = e['segment_encoding']
                except PyRaise as ex:
                    got = f'raises {ex.name}'
                    enc = None
                if req is None:
                    want = det
                elif req in ('numeric', 'alphanumeric') and rank[det] > rank[req]:
                    want = 'raises ValueError'
                else:
                    want = req
                if want in ('kanji', 'hanzi') and length % 2:
                    want = 'raises ValueError'
                ok = got == want
                if ok and want == 'byte':
                    ok = enc == 'iso-8859-1'
                elif ok and not want.startswith('raises'):
                    ok = enc is None
                if req == 'byte':
                    ok = ok and calls['find_mode'] == 0
                if req == 'hanzi':
                    ok = ok and calls['enc'] == hz
                yield ob(f'requested {req}, detected {det}, {length} bytes' + ('' if content == '<content>' else ' (text of non-ASCII digits)'), ok, fn,
                         got=f'{got} (encoding {enc}, find_mode calls {calls["find_mode"]}, codec {calls["enc"]})', want=want)


@rule('C07', 'R5', 2, 'requested kanji / hanzi on raw bytes: exactly valid double-byte characters are packed, every other pair is refused with ValueError')
def r5(fx):
    for o in p01.r2(fx):
        if o.key.startswith(('kanji: group', 'hanzi: group')):
            yield o


@rule('C07', 'R8', 40, 'the mode indicator written into the symbol is the indicator of the segment mode, for QR and for every Micro version (C01.R4)')
def r8(fx):
    for o in p01.r4(fx):
        if 'header fields' in o.key:
            yield o


@rule('C07', 'R6', 264, 'encode refuses a requested mode the requested version does not support (6 x 44)')
def r6(fx):
    fn = fx.fn('encoder', 'encode')
    md, mv = modes(fx), micro_versions(fx)
    it = Interp()
    for m in ('numeric', 'alphanumeric', 'byte', 'kanji', 'hanzi', None):
        for v in iso.ALL_VERSIONS:
            genv, rec = p04._encode_stub_env(fx, it, mv[-3])
            try:
                FuncVal(fn, genv, it)('<content>', None, f'M{v + 4}' if v < 1 else v, m, None, None, False, None, True)
                got = 'accepted'
                passed = rec['prepare'][0]
            except PyRaise as ex:
                got = f'raises {ex.name}'
                passed = None
            sup = m is None or (None if v >= 1 else v) in iso.SUPPORTED[m]
            want = 'accepted' if sup else 'raises ValueError'
            ok = got == want and (not sup or passed == (None if m is None else md[m]))
            yield ob(f'mode {m} with version {v}', ok, fn, got=f'{got}, mode given to prepare_data: {passed}', want=want)


@rule('C07', 'R7', 14, 'normalize_mode: documented names in any case -> constants, constants pass, anything else ValueError; factories forward mode')
def r7(fx):
    fn = fx.fn('encoder', 'normalize_mode')
    md = modes(fx)
    it = Interp()
    f = make_callable(fx.forest, 'encoder', 'normalize_mode', it)
    for name in ('numeric', 'alphanumeric', 'byte', 'kanji', 'hanzi'):
        got = [f(name), f(name.upper()), f(name.capitalize()), f(md[name])]
        yield ob(f'normalize_mode {name}', got == [md[name]] * 4, fn, got=got, want=[md[name]] * 4)
    bad = []
    for x in ('x', '', 'bytes', 3, 0, 7, 1.5):
        try:
            r = f(x)
            bad.append((x, r))
        except PyRaise as ex:
            if ex.name != 'ValueError':
                bad.append((x, ex.name))
    yield ob('normalize_mode refuses unknown modes with ValueError', not bad and f(None) is None, fn, got=bad, want=[])
    yield from wrappers.forwarding(fx, {'mode'})


@rule('C07', 'R9', 40, 'the version search never answers with a version in which a mode of the content does not exist (find_version decision table, C04.R3)')
def r9(fx):
    from . import p04
    for o in p04.r3(fx):
        if 'modes=' in o.key and any(m_ in o.key for m_ in ('byte', 'kanji', 'hanzi', 'alphanumeric')):
            yield o
