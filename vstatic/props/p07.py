"""Rules for C07 (see DESIGN.md section 5)."""
