"""C16 -- helper factories: escaping, tables, anchors, URIs, EPC layout and limits, factories."""
import ast
import decimal

from .. import ev, iso, nf, pat, src, rx
from ..core import rule, ob, explain, Ob
from ..ev import PyRaise
from ..interp import Interp, make_callable, FuncVal, callable_env
from ..src import Unknown
from .common import C, need, single

explain('C16', '''Decided (structural): in make_wifi_data, make_mecard_data and make_vcard_data every value that reaches
the payload through an f-string / format call either passes the escaper of its format (a function str(s).translate(TABLE)),
or is validated by a regular expression that cannot match a line break and ends in \\Z, or is a constant (taint analysis
per parameter); the MeCard table maps backslash and ';' (and ':' , '"') to backslash + the same character, the vCard
tables leave no CR/LF in a value; mailto subject/body pass quote(), the query delimiter is '?' until a parameter has been
appended and '&' afterwards (typestate over both loops); the geo number formatter equals fixed-point formatting with
trailing zeros removed on a sample grid (sampled, not exhaustive); _make_epc_qr_data - control code over field lengths,
amount and encoding number - is interpreted on length-only text models: every documented limit (name 70, IBAN 5..34,
text 140, reference 35, BIC 8/11, purpose 4, amount 0.01..999999999.99, encoding 1..8 / names) is enforced with
ValueError on both sides of the boundary, exactly one of text/reference is required, the eleven lines appear in EPC069-12
order with the character-set number of the codec used, the 331-byte guard follows encoding; make_epc_qr requests level M
without boosting and guards version > 13; every make_* factory encodes exactly the payload of its *_data function with
all parameters forwarded. NOT decided: numeric equality of the EPC amount for every Decimal, URI validity, C01 for the
resulting symbols.''')


def _sanitizers(fx):
    """{function name: table name} for helpers functions of the form `return str(s).translate(TABLE)`."""
    out = {}
    for m, q, fn in fx.forest.functions():
        if m != 'helpers' or '.' in q:
            continue
        rets = [s for s in fn.body if isinstance(s, ast.Return)]
        if len(rets) == 1 and rets[0].value is not None:
            b = pat.match(rets[0].value, 'str(H_s).translate(H_t)')
            if b is not None and isinstance(b['s'], ast.Name) and b['s'].id in src.params(fn) and isinstance(b['t'], ast.Name):
                out[q] = b['t'].id
    return out


def _deps(expr, env_defs, params, depth=0):
    """Parameters of the outer function that `expr` may depend on (through local definitions)."""
    out = set()
    for n in ast.walk(expr):
        if isinstance(n, ast.Name) and isinstance(n.ctx, ast.Load):
            if n.id in params:
                out.add(n.id)
            elif n.id in env_defs and depth < 6:
                for d in env_defs[n.id]:
                    out |= _deps(d, {k: v for k, v in env_defs.items() if k != n.id}, params, depth + 1)
    return out


def _local_defs(fn):
    defs = {}
    for n in src.walk_local(fn):
        if isinstance(n, ast.Assign):
            for t in n.targets:
                for nm in (t.elts if isinstance(t, (ast.Tuple, ast.List)) else [t]):
                    if isinstance(nm, ast.Name):
                        defs.setdefault(nm.id, []).append(n.value)
        elif isinstance(n, (ast.For, ast.comprehension)):
            for nm in ast.walk(n.target):
                if isinstance(nm, ast.Name):
                    defs.setdefault(nm.id, []).append(n.iter)
    return defs


def _payload_values(fn):
    """All interpolated expressions (FormattedValue of f-strings, arguments of str.format) inside fn incl. nested defs,
    with the function node they occur in."""
    for n in ast.walk(fn):
        if isinstance(n, ast.FormattedValue) and not isinstance(src.parent(src.parent(n)), ast.FormattedValue):
            host = src.enclosing_function(n)
            if any(isinstance(a, ast.Raise) for a in src.ancestors(n)):
                continue        # message of an exception, not payload
            yield n.value, host, n
        elif isinstance(n, ast.Call) and isinstance(n.func, ast.Attribute) and n.func.attr == 'format' \
                and isinstance(n.func.value, ast.Constant) and isinstance(n.func.value.value, str):
            host = src.enclosing_function(n)
            if any(isinstance(a, ast.Raise) for a in src.ancestors(n)):
                continue
            for a in n.args:
                yield (a.value if isinstance(a, ast.Starred) else a), host, n


def _classify(fx, expr, host, outer, sanit, esc_alias, validators):
    """'const' | ('escaped', table) | ('validated', regex name) | ('raw', deps)"""
    params = set(src.params(outer))
    defs = _local_defs(outer)
    if host is not outer:
        defs.update(_local_defs(host))
    hparams = set(src.params(host)) if host is not outer else set()

    def is_escaped(e, depth=0):
        if isinstance(e, ast.Call):
            fnm = src.call_name(e)
            if fnm in esc_alias:
                return esc_alias[fnm]
            if fnm in sanit:
                return sanit[fnm]
            b = pat.match(e, 'str(H_s).translate(H_t)')
            if b is not None and isinstance(b['t'], ast.Name):
                return b['t'].id
        if isinstance(e, ast.Name) and depth < 4:
            ds = defs.get(e.id, [])
            if ds and all(d is not None for d in ds):
                tabs = set()
                for d in ds:
                    if isinstance(d, ast.ListComp):
                        t = is_escaped(d.elt, depth + 1)
                    else:
                        t = is_escaped(d, depth + 1)
                    tabs.add(t)
                if len(tabs) == 1 and None not in tabs:
                    return tabs.pop()
        return None
    t = is_escaped(expr)
    if t:
        return ('escaped', t)
    deps = _deps(expr, defs, params | hparams)
    if not deps:
        return 'const'
    # parameters of an inner helper (make_multifield(name, val)): `name` is bound to constants at every call site
    if host is not outer and deps <= hparams:
        calls = [c for c in src.calls_in(outer, host.name)]
        hp = src.params(host)
        ok = True
        for d in deps:
            i = hp.index(d)
            for c in calls:
                a = c.args[i] if i < len(c.args) else None
                if not isinstance(a, ast.Constant):
                    ok = False
        if ok and calls:
            return 'const'
        return ('raw', {f'{host.name}.{d}' for d in deps})
    for d in sorted(deps):
        if d in validators:
            return ('validated', validators[d])
    return ('raw', deps)


def _validators(fx, fn):
    """{param: regex name} for parameters guarded by `if not isinstance(p, str) or not RX(p): raise ValueError`."""
    out = {}
    for s in src.statements(fn.body):
        if isinstance(s, ast.If) and any(isinstance(x, ast.Raise) for x in s.body):
            b = pat.match(s.test, 'not isinstance(H_p, str) or not H_rx(H_p)')
            if b is not None and isinstance(b['p'], ast.Name) and isinstance(b['rx'], ast.Name):
                out[b['p'].id] = b['rx'].id
    return out


def _regex_of(fx, name):
    e = fx.forest.module_assign('helpers', name)
    b = pat.match(e, 're.compile(H_p).match')
    need(b is not None and isinstance(b['p'], ast.Constant), f'{name} is not re.compile(<literal>).match')
    return b['p'].value


@rule('C16', 'R1', 25, 'every parameter value that reaches a WIFI / MeCard / vCard payload is escaped, validated or constant')
def r1(fx):
    sanit = _sanitizers(fx)
    need(set(sanit) >= {'_escape_mecard', '_escape_vcard'}, f'escaper functions not recognised: {sanit}')
    want_table = {'make_wifi_data': '_MECARD_ESCAPE', 'make_mecard_data': '_MECARD_ESCAPE', 'make_vcard_data': '_VCARD_ESCAPE'}
    informational = {('make_vcard_data', 'lat'), ('make_vcard_data', 'lng')}     # documented as floats
    for fname, table in want_table.items():
        fn = fx.fn('helpers', fname)
        esc_alias = {}
        for s in fn.body:
            if isinstance(s, ast.Assign) and isinstance(s.value, ast.Name) and s.value.id in sanit:
                esc_alias[ast.unparse(s.targets[0])] = sanit[s.value.id]
        validators = _validators(fx, fn)
        flows = {}
        for expr, host, node in _payload_values(fn):
            c = _classify(fx, expr, host, fn, sanit, esc_alias, validators)
            if c == 'const':
                continue
            key = ast.unparse(expr)
            params = sorted(_deps(expr, {**_local_defs(fn), **(_local_defs(host) if host is not fn else {})},
                                  set(src.params(fn)) | (set(src.params(host)) if host is not fn else set())))
            flows.setdefault(key, (c, node, params))
        for key, (c, node, params) in sorted(flows.items()):
            who = ','.join(p for p in params if p in src.params(fn)) or ','.join(params)
            if c[0] == 'escaped':
                ok = c[1] in (table, '_VCARD_ESCAPE_NEWLINE' if fname == 'make_vcard_data' else table)
                yield ob(f'{fname}: {{{key}}} <- {who}', ok, node, got=f'escaped with {c[1]}', want=f'escaped with {table}')
            elif c[0] == 'validated':
                yield ob(f'{fname}: {{{key}}} <- {who}', True, node, got=f'validated by {c[1]}', want='escaped or validated')
            else:
                if all((fname, p) in informational for p in c[1]):
                    yield Ob(f'{fname}: {{{key}}} <- {who}', True, f'helpers.{fname}', node.lineno, 'numeric parameter, not escaped (informational)',
                             'documented as float', False)
                else:
                    yield ob(f'{fname}: {{{key}}} <- {who}', False, node, got=f'raw value of {sorted(c[1])} interpolated', want=f'escape({who})')
    # every parameter of the three builders reaches the payload (none silently dropped)
    for fname in want_table:
        fn = fx.fn('helpers', fname)
        used = {n.id for n in ast.walk(fn) if isinstance(n, ast.Name) and isinstance(n.ctx, ast.Load)}
        missing = [p for p in src.params(fn) if p not in used]
        yield ob(f'{fname}: every parameter is used', not missing, fn, got=missing, want=[])


@rule('C16', 'R2', 8, 'escape tables: MeCard maps \\ ; : " to backslash + char; vCard tables leave no CR/LF; validators cannot match a line break and end in \\Z')
def r2(fx):
    me = C(fx, '_MECARD_ESCAPE', 'helpers')
    for ch in ('\\', ';', ':', '"'):
        yield ob(f'MeCard escape of {ch!r}', me.get(ord(ch)) == '\\' + ch, fx.forest.module_assign('helpers', '_MECARD_ESCAPE'),
                 where='helpers._MECARD_ESCAPE', got=me.get(ord(ch)), want='\\' + ch)
    extra = {k: v for k, v in me.items() if not (isinstance(v, str) and v == '\\' + chr(k))}
    yield ob('MeCard table: every entry is backslash + the same character (un-escaping is removal of one backslash)', not extra,
             fx.forest.module_assign('helpers', '_MECARD_ESCAPE'), where='helpers._MECARD_ESCAPE', got=extra, want={})
    for name in ('_VCARD_ESCAPE', '_VCARD_ESCAPE_NEWLINE'):
        t = C(fx, name, 'helpers')
        bad = []
        for ch in ('\r', '\n'):
            v = t.get(ord(ch), ch)
            if v is not None and ('\r' in v or '\n' in v):
                bad.append((ch, v))
        bad += [(chr(k), v) for k, v in t.items() if v is not None and ('\r' in v or '\n' in v) and chr(k) not in '\r\n']
        yield ob(f'{name}: no CR/LF survives translation', not bad, fx.forest.module_assign('helpers', name), where=f'helpers.{name}', got=bad, want=[])
    vc = C(fx, '_VCARD_ESCAPE', 'helpers')
    yield ob('vCard table escapes , and ;', vc.get(ord(',')) == '\\,' and vc.get(ord(';')) == '\\;', fx.forest.module_assign('helpers', '_VCARD_ESCAPE'),
             where='helpers._VCARD_ESCAPE', got=(vc.get(ord(',')), vc.get(ord(';'))), want=('\\,', '\\;'))
    fn = fx.fn('helpers', 'make_vcard_data')
    for p, rxname in sorted(_validators(fx, fn).items()):
        patn = _regex_of(fx, rxname)
        tree = rx.parse(patn)
        yield ob(f'validator of {p}: anchored at \\Z and cannot match CR/LF', rx.ends_with_string_end(tree) is True
                 and not rx.can_match_newline(tree), fx.forest.module_assign('helpers', rxname), where=f'helpers.{rxname}', got=patn,
                 want=r'^...\Z without any construct matching \r or \n')
    j = [s for s in fn.body if isinstance(s, ast.Return)]
    r = single(j, 'return of make_vcard_data')
    bj = pat.match(r.value, "'\\r\\n'.join(H_d)")
    dn = bj['d'].id if bj is not None and isinstance(bj['d'], ast.Name) else None
    need(dn is not None, 'make_vcard_data: join of the line list')
    yield ob('vCard lines are joined with CRLF, BEGIN first, END last', _list_head(fn, dn)[:2] == ['BEGIN:VCARD', 'VERSION:3.0']
             and _appends(fn, dn)[-2:] == ["'END:VCARD'", "''"], r,
             got=(ast.unparse(r.value), _list_head(fn, dn)[:2], _appends(fn, dn)[-2:]), want="'\\r\\n'.join(<lines>)")


def _list_head(fn, name):
    for s in fn.body:
        if isinstance(s, ast.Assign) and ast.unparse(s.targets[0]) == name and isinstance(s.value, ast.List):
            return [e.value if isinstance(e, ast.Constant) else ast.unparse(e) for e in s.value.elts]
    return []


def _appends(fn, name):
    out = []
    for s in fn.body:
        if isinstance(s, ast.Expr) and isinstance(s.value, ast.Call) and src.call_name(s.value) == f'{name}.append':
            out.append(ast.unparse(s.value.args[0]))
    return out


@rule('C16', 'R4', 6, 'mailto: texts percent-encoded, ?/& delimiter typestate; geo: fixed-point numbers without trailing zeros')
def r4(fx):
    fn = fx.fn('helpers', 'make_make_email_data')
    vals = list(_payload_values(fn))
    quoted = [ast.unparse(e) for e, h, n in vals if pat.match(e, 'quote(val.encode("utf-8"))') is not None]
    loops = [s for s in fn.body if isinstance(s, ast.For)]
    need(len(loops) == 2, 'make_make_email_data: two parameter loops expected')
    l2 = loops[1]
    keys2 = ast.unparse(l2.iter)
    yield ob('subject and body pass quote(utf-8 bytes)', len(quoted) == 1 and "('subject', subject)" in keys2 and "('body', body)" in keys2, l2,
             got=(quoted, keys2), want='quote(val.encode("utf-8")) for subject, body')
    # typestate: delim becomes '&' only where a parameter was appended with the current delim
    init = single([s for s in fn.body if isinstance(s, ast.Assign) and ast.unparse(s.targets[0]) == 'delim'], "initial delim")
    yield ob("delimiter starts as '?'", isinstance(init.value, ast.Constant) and init.value.value == '?', init, got=ast.unparse(init.value), want="'?'")
    for i, lp in enumerate(loops):
        assigns = [s for s in src.statements(lp.body) if isinstance(s, ast.Assign) and ast.unparse(s.targets[0]) == 'delim']
        a = single(assigns, f"delim assignment in loop {i + 1}")
        blk, idx = nf.block_of(a)
        used_before = [s for s in blk[:idx] if isinstance(s, ast.Expr) and isinstance(s.value, ast.Call)
                       and src.call_name(s.value) == 'data.append' and any(isinstance(n, ast.Name) and n.id == 'delim' for n in ast.walk(s.value))]
        appends_all = [s for s in src.statements(lp.body) if isinstance(s, ast.Expr) and isinstance(s.value, ast.Call)
                       and src.call_name(s.value) == 'data.append']
        same_block = all(nf.block_of(s)[0] is blk for s in appends_all)
        yield ob(f"loop {i + 1}: delim = '&' exactly where a parameter was appended using delim", bool(used_before) and same_block
                 and isinstance(a.value, ast.Constant) and a.value.value == '&', a,
                 got=f"`{ast.unparse(a)}` under `{nf.guard_text(nf.guards_of(a, lp))}`; append under `{nf.guard_text(nf.guards_of(appends_all[0], lp)) if appends_all else None}`",
                 want="same branch as the append that used delim")
    # geo
    g = fx.fn('helpers', 'make_geo_data.float_to_str')
    r = single([s for s in g.body if isinstance(s, ast.Return)], 'return of float_to_str')
    samples = [0, 0.0, 1, -1, 10, 40.0, -120, 100, 90, 180, -180, 0.5, -0.5, 38.8976763, -77.0365298, 1e-8, 1.23456789e-3, 12.5, 99.99, 100.001,
               0.1, 0.10000001, 20, 30.25, -0.00000001, 51.4779, 7, 70, 700.07] + list(range(-180, 181, 10)) + [x / 8 for x in range(-40, 41)]
    bad = []
    for f in samples:
        got = ev.ev(r.value, {'f': f})
        d = decimal.Decimal(repr(float(f))).quantize(decimal.Decimal('0.00000001'))
        want = format(d, 'f')
        if '.' in want:
            want = want.rstrip('0')
            if want.endswith('.'):
                want = want[:-1]
        if want in ('-0',):
            want = '-0'
        if got != want:
            bad.append((f, got, want))
    yield ob(f'float_to_str on {len(samples)} sample numbers (sampled)', not bad, r, got=bad[:4], want=[])
    gd = fx.fn('helpers', 'make_geo_data')
    rr = single([s for s in gd.body if isinstance(s, ast.Return)], 'return of make_geo_data')
    yield ob('geo payload = geo:<lat>,<lng>', nf.same(rr.value, "f'geo:{float_to_str(lat)},{float_to_str(lng)}'"), rr,
             got=ast.unparse(rr.value), want="f'geo:{float_to_str(lat)},{float_to_str(lng)}'")


class Txt(str):
    """Text abstracted to its length (all characters 'x'); strip/rstrip keep it."""


def _epc(fx, it, **kw):
    genv = callable_env(fx.forest, 'helpers', it, {'decimal': ev.Namespace('decimal', {'Decimal': decimal.Decimal})})
    f = FuncVal(fx.fn('helpers', '_make_epc_qr_data'), genv, it)
    args = dict(name='n' * 10, iban='i' * 22, amount=1, text='t' * 5, reference=None, bic=None, purpose=None, encoding=None)
    args.update(kw)
    try:
        return f(**args)
    except PyRaise as e:
        return f'raises {e.name}'


@rule('C16', 'R5', 60, 'EPC: limits enforced on both sides of each boundary, line order, character-set number, 331-byte guard; level M, no boost, version <= 13')
def r5(fx):
    fn = fx.fn('helpers', '_make_epc_qr_data')
    it = Interp(max_steps=20_000_000)
    VE = 'raises ValueError'
    cases = []
    for n, ok in ((0, False), (1, True), (70, True), (71, False)):
        cases.append((f'name of {n} characters', dict(name='n' * n), ok))
    cases.append(('name None', dict(name=None), False))
    for n, ok in ((4, False), (5, True), (34, True), (35, False)):
        cases.append((f'IBAN of {n} characters', dict(iban='i' * n), ok))
    cases.append(('IBAN None', dict(iban=None), False))
    for n, ok in ((1, True), (140, True), (141, False)):
        cases.append((f'text of {n} characters', dict(text='t' * n), ok))
    for n, ok in ((1, True), (35, True), (36, False)):
        cases.append((f'reference of {n} characters', dict(text=None, reference='r' * n), ok))
    cases.append(('text and reference', dict(text='t', reference='r'), False))
    cases.append(('neither text nor reference', dict(text=None, reference=None), False))
    cases.append(('empty text, no reference', dict(text='', reference=None), False))
    for n, ok in ((7, False), (8, True), (9, False), (10, False), (11, True), (12, False)):
        cases.append((f'BIC of {n} characters', dict(bic='b' * n), ok))
    for n, ok in ((3, False), (4, True), (5, False)):
        cases.append((f'purpose of {n} characters', dict(purpose='p' * n), ok))
    for a, ok in (('0', False), ('0.009', False), ('0.01', True), (0.01, True), (1, True), ('999999999.99', True), ('1000000000', False),
                  ('999999999.991', False), (-1, False), (5.5, True)):
        cases.append((f'amount {a!r}', dict(amount=a), ok))
    for e, ok in ((0, False), (1, True), (8, True), (9, False), (-1, False), ('utf-8', True), ('UTF-8', True), ('iso-8859-15', True), ('latin1', False),
                  ('iso-8859-3', False), (1.0, False)):
        cases.append((f'encoding {e!r}', dict(encoding=e), ok))
    for name, kw, ok in cases:
        got = _epc(fx, it, **kw)
        good = isinstance(got, bytes) if ok else got == VE
        yield ob(name, good, fn, got=got if isinstance(got, str) else 'payload', want='payload' if ok else VE)
    # layout
    got = _epc(fx, it, name='NAME', iban='IBAN5', amount='12.50', text='TEXT', bic='BICBICBI', purpose='PURP', encoding=2)
    lines = got.decode('latin1').split('\n') if isinstance(got, bytes) else got
    want = ['BCD', '002', '2', 'SCT', 'BICBICBI', 'NAME', 'IBAN5', 'EUR12.5', 'PURP', '', 'TEXT']
    yield ob('EPC line order with unstructured text', lines == want, fn, got=lines, want=want)
    got = _epc(fx, it, name='NAME', iban='IBAN5', amount=100, text=None, reference='REF', encoding=None)
    lines = got.decode('latin1').split('\n') if isinstance(got, bytes) else got
    want = ['BCD', '002', '2', 'SCT', '', 'NAME', 'IBAN5', 'EUR100', '', 'REF']
    yield ob('EPC line order with structured reference; default character set = first 8-bit codec that fits (2 = ISO-8859-1)', lines == want, fn,
             got=lines, want=want)
    encs = single([s for s in fn.body if isinstance(s, ast.Assign) and ast.unparse(s.targets[0]) == 'encodings'], 'encodings tuple')
    yield ob('EPC character-set list (order = character-set number)', tuple(ev.ev(encs.value, {})) == iso.EPC['encodings'], encs,
             got=ev.ev(encs.value, {}), want=iso.EPC['encodings'])
    for k in (1, 2, 5, 8):
        got = _epc(fx, it, encoding=k)
        lines = got.decode('latin1').split('\n') if isinstance(got, bytes) else [got]
        yield ob(f'encoding number {k} is written as the character-set line', len(lines) > 2 and lines[2] == str(k), fn, got=lines[:3], want=str(k))
    got = _epc(fx, it, name='n' * 70, iban='i' * 34, text='t' * 140, bic='b' * 11, purpose='pppp', amount='999999999.99')
    yield ob('maximal fields fit the 331-byte limit', isinstance(got, bytes) and len(got) <= 331, fn, got=len(got) if isinstance(got, bytes) else got, want='<= 331')
    g = [s for s in fn.body if isinstance(s, ast.If) and pat.match(s.test, 'len(data) > 331') is not None and any(isinstance(x, ast.Raise) for x in s.body)]
    enc_st = [s for s in fn.body if isinstance(s, ast.Assign) and ast.unparse(s.targets[0]) == 'data' and '.encode(encodings[charset - 1])' in ast.unparse(s.value)]
    yield ob('331-byte guard on the encoded payload', len(g) == 1 and len(enc_st) == 1 and fn.body.index(enc_st[0]) < fn.body.index(g[0]), fn,
             got=[ast.unparse(x.test) for x in g], want='if len(data) > 331: raise ValueError after encoding')
    # make_epc_qr
    mq = fx.fn('helpers', 'make_epc_qr')
    a = single([s for s in mq.body if isinstance(s, ast.Assign) and ast.unparse(s.targets[0]) == 'qr'], 'qr = segno.make_qr(...) in make_epc_qr')
    b = pat.match(a.value, "segno.make_qr(_make_epc_qr_data(name, iban, amount, text, reference, bic, purpose, encoding), error='m', boost_error=False)")
    kw = src.kwargs_of(a.value) if isinstance(a.value, ast.Call) else {}
    yield ob("make_epc_qr: error level 'm', boost_error=False, all fields forwarded", b is not None, a, got=ast.unparse(a.value)[-60:],
             want="error='m', boost_error=False")
    gv = [s for s in mq.body if isinstance(s, ast.If) and pat.match(s.test, 'qr.version > 13') is not None and any(isinstance(x, ast.Raise) for x in s.body)]
    yield ob('make_epc_qr: version > 13 is refused', len(gv) == 1, mq, got=[ast.unparse(x.test) for x in gv], want='if qr.version > 13: raise ValueError')


FACTORIES = {'make_wifi': 'make_wifi_data', 'make_mecard': 'make_mecard_data', 'make_vcard': 'make_vcard_data', 'make_geo': 'make_geo_data',
             'make_email': 'make_make_email_data'}


@rule('C16', 'R6', 5, 'every make_* factory returns segno.make_qr(<its *_data payload>) with every parameter forwarded to the same-named one')
def r6(fx):
    for fac, dat in FACTORIES.items():
        fn = fx.fn('helpers', fac)
        dfn = fx.fn('helpers', dat)
        r = single([s for s in fn.body if isinstance(s, ast.Return)], f'return of {fac}')
        b = pat.match(r.value, 'segno.make_qr(H_p)')
        need(b is not None and isinstance(b['p'], ast.Call) and src.call_name(b['p']) == dat, f'{fac}: not segno.make_qr({dat}(...))')
        call = b['p']
        dparams = src.params(dfn)
        bound = {}
        for i, a in enumerate(call.args):
            bound[dparams[i]] = a
        for k in call.keywords:
            bound[k.arg] = k.value
        bad = [p for p in src.params(fn) if not (isinstance(bound.get(p), ast.Name) and bound[p].id == p)]
        same_sig = src.params(fn) == dparams and {k: ast.unparse(v) for k, v in src.param_defaults(fn).items()} == \
            {k: ast.unparse(v) for k, v in src.param_defaults(dfn).items()}
        yield ob(f'{fac} -> make_qr({dat}(...))', not bad and same_sig, r, got=f'not forwarded: {bad}; same signature: {same_sig}', want='all forwarded, same signature')
