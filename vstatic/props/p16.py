"""Rules for C16 (see DESIGN.md section 5)."""
