"""C16 -- helper factories: escaping, tables, anchors, URIs, EPC layout and limits, factories."""
import ast
import decimal
import re

from .. import ev, iso, nf, pat, src, rx
from ..core import rule, ob, explain, Ob
from ..ev import PyRaise
from ..interp import Interp, make_callable, FuncVal, callable_env
from ..src import Unknown
from .common import C, need, single

explain('C16', '''Decided (structural): in make_wifi_data, make_mecard_data and make_vcard_data every value that reaches
the payload through an f-string / format call either passes the escaper of its format (a function str(s).translate(TABLE)),
or is validated by a regular expression that cannot match a line break and ends in \\Z, or is a constant (taint analysis
per parameter); the MeCard table maps backslash and ';' (and ':' , '"') to backslash + the same character, the vCard
tables leave no CR/LF in a value; mailto subject/body pass quote(), the query delimiter is '?' until a parameter has been
appended and '&' afterwards (typestate over both loops); the geo number formatter equals fixed-point formatting with
trailing zeros removed on a sample grid (sampled, not exhaustive); _make_epc_qr_data - control code over field lengths,
amount and encoding number - is interpreted on length-only text models: every documented limit (name 70, IBAN 5..34,
text 140, reference 35, BIC 8/11, purpose 4, amount 0.01..999999999.99, encoding 1..8 / names) is enforced with
ValueError on both sides of the boundary, exactly one of text/reference is required, the eleven lines appear in EPC069-12
order with the character-set number of the codec used, the 331-byte guard follows encoding; make_epc_qr requests level M
without boosting and guards version > 13; every make_* factory encodes exactly the payload of its *_data function with
all parameters forwarded. NOT decided: numeric equality of the EPC amount for every Decimal, URI validity, C01 for the
resulting symbols.''')


def _sanitizers(fx):
    """{function name: table name} for helpers functions of the form `return str(s).translate(TABLE)`."""
    out = {}
    for m, q, fn in fx.forest.functions():
        if m != 'helpers' or '.' in q:
            continue
        rets = [s for s in fn.body if isinstance(s, ast.Return)]
        if len(rets) == 1 and rets[0].value is not None:
            b = pat.match(rets[0].value, 'str(H_s).translate(H_t)')
            if b is not None and isinstance(b['s'], ast.Name) and b['s'].id in src.params(fn) and isinstance(b['t'], ast.Name):
                out[q] = b['t'].id
    return out


def _deps(expr, env_defs, params, depth=0):
    """Parameters of the outer function that `expr` may depend on (through local definitions)."""
    out = set()
    for n in ast.walk(expr):
        if isinstance(n, ast.Name) and isinstance(n.ctx, ast.Load):
            if n.id in params:
                out.add(n.id)
            elif n.id in env_defs and depth < 6:
                for d in env_defs[n.id]:
                    out |= _deps(d, {k: v for k, v in env_defs.items() if k != n.id}, params, depth + 1)
    return out


def _local_defs(fn):
    defs = {}
    for n in src.walk_local(fn):
        if isinstance(n, ast.Assign):
            for t in n.targets:
                for nm in (t.elts if isinstance(t, (ast.Tuple, ast.List)) else [t]):
                    if isinstance(nm, ast.Name):
                        defs.setdefault(nm.id, []).append(n.value)
        elif isinstance(n, (ast.For, ast.comprehension)):
            for nm in ast.walk(n.target):
                if isinstance(nm, ast.Name):
                    defs.setdefault(nm.id, []).append(n.iter)
    return defs


def _payload_values(fn):
    """All interpolated expressions (FormattedValue of f-strings, arguments of str.format) inside fn incl. nested defs,
    with the function node they occur in."""
    for n in ast.walk(fn):
        if isinstance(n, ast.FormattedValue) and not isinstance(src.parent(src.parent(n)), ast.FormattedValue):
            host = src.enclosing_function(n)
            if any(isinstance(a, ast.Raise) for a in src.ancestors(n)):
                continue        # message of an exception, not payload
            yield n.value, host, n
        elif isinstance(n, ast.Call) and isinstance(n.func, ast.Attribute) and n.func.attr == 'format' \
                and isinstance(n.func.value, ast.Constant) and isinstance(n.func.value.value, str):
            host = src.enclosing_function(n)
            if any(isinstance(a, ast.Raise) for a in src.ancestors(n)):
                continue
            for a in n.args:
                yield (a.value if isinstance(a, ast.Starred) else a), host, n


def _classify(fx, expr, host, outer, sanit, esc_alias, validators):
    """'const' | ('escaped', table) | ('validated', regex name) | ('raw', deps)"""
    params = set(src.params(outer))
    defs = _local_defs(outer)
    if host is not outer:
        defs.update(_local_defs(host))
    hparams = set(src.params(host)) if host is not outer else set()

    def is_escaped(e, depth=0):
        if isinstance(e, ast.Call):
            fnm = src.call_name(e)
            if fnm in esc_alias:
                return esc_alias[fnm]
            if fnm in sanit:
                return sanit[fnm]
            b = pat.match(e, 'str(H_s).translate(H_t)')
            if b is not None and isinstance(b['t'], ast.Name):
                return b['t'].id
        if isinstance(e, ast.Name) and depth < 4:
            ds = defs.get(e.id, [])
            if ds and all(d is not None for d in ds):
                tabs = set()
                for d in ds:
                    if isinstance(d, ast.ListComp):
                        t = is_escaped(d.elt, depth + 1)
                    else:
                        t = is_escaped(d, depth + 1)
                    tabs.add(t)
                if len(tabs) == 1 and None not in tabs:
                    return tabs.pop()
        return None
    t = is_escaped(expr)
    if t:
        return ('escaped', t)
    deps = _deps(expr, defs, params | hparams)
    if not deps:
        return 'const'
    # parameters of an inner helper (make_multifield(name, val)): `name` is bound to constants at every call site
    if host is not outer and deps <= hparams:
        calls = [c for c in src.calls_in(outer, host.name)]
        hp = src.params(host)
        ok = True
        for d in deps:
            i = hp.index(d)
            for c in calls:
                a = c.args[i] if i < len(c.args) else None
                if not isinstance(a, ast.Constant):
                    ok = False
        if ok and calls:
            return 'const'
        return ('raw', {f'{host.name}.{d}' for d in deps})
    for d in sorted(deps):
        if d in validators:
            return ('validated', validators[d])
    return ('raw', deps)


def _validators(fx, fn):
    """{param: regex name} for parameters guarded by `if not isinstance(p, str) or not RX(p): raise ValueError`."""
    out = {}
    for s in src.statements(fn.body):
        if isinstance(s, ast.If) and any(isinstance(x, ast.Raise) for x in s.body):
            b = pat.match(s.test, 'not isinstance(H_p, str) or not H_rx(H_p)')
            if b is not None and isinstance(b['p'], ast.Name) and isinstance(b['rx'], ast.Name):
                out[b['p'].id] = b['rx'].id
    return out


def _regex_of(fx, name):
    e = fx.forest.module_assign('helpers', name)
    b = pat.match(e, 're.compile(H_p).match')
    need(b is not None and isinstance(b['p'], ast.Constant), f'{name} is not re.compile(<literal>).match')
    return b['p'].value


HOSTILE = 'a;b:c,d\\e"f\ng\rh;;\\;'      # ; : , backslash " LF CR, a doubled delimiter, backslash before a delimiter


def mark(p, k=''):
    return f'<{p}{k}>' + HOSTILE


def split_unescaped(text, sep):
    """Split at `sep` not preceded by an (unescaped) backslash."""
    out, cur, i = [], '', 0
    while i < len(text):
        ch = text[i]
        if ch == '\\' and i + 1 < len(text):
            cur += text[i:i + 2]
            i += 2
            continue
        if ch == sep:
            out.append(cur)
            cur = ''
        else:
            cur += ch
        i += 1
    out.append(cur)
    return out


def unescape(text):
    """Remove one backslash in front of every escaped character."""
    out, i = '', 0
    while i < len(text):
        if text[i] == '\\' and i + 1 < len(text):
            out += text[i + 1]
            i += 2
        else:
            out += text[i]
            i += 1
    return out


def fields_of(payload, prefix):
    """[(key, value)] of a WIFI / MeCard payload: split at unescaped ';', key up to the first unescaped ':', value unescaped."""
    if not payload.startswith(prefix):
        return f'payload does not start with {prefix}'
    pieces = split_unescaped(payload[len(prefix):], ';')
    while pieces and pieces[-1] == '':
        pieces.pop()
    out = []
    for pc in pieces:
        kv = split_unescaped(pc, ':')
        if len(kv) < 2:
            return f'piece {pc[:30]!r} has no key'
        out.append((kv[0], unescape(':'.join(kv[1:]))))
    return out


class DateModel:
    """A date object abstracted to what strftime yields."""
    _model = ('strftime',)

    def strftime(self, fmt):
        return {'%Y%m%d': '20240229', '%Y-%m-%d': '2024-02-29'}.get(fmt, f'<strftime {fmt}>')


def _call(fx, it, fname_, **kw):
    genv = callable_env(fx.forest, 'helpers', it)
    try:
        return FuncVal(fx.fn('helpers', fname_), genv, it)(**kw)
    except PyRaise as e:
        return ('raises', e.name)


@rule('C16', 'R1', 30, 'WIFI / MeCard payloads split at unescaped ";" into exactly the supplied fields, values recovered verbatim; every vCard value occupies exactly one content line (hostile values in every parameter)')
def r1(fx):
    it = Interp(max_steps=20_000_000)
    # ---- WIFI
    fn = fx.fn('helpers', 'make_wifi_data')
    for security in (None, 'wpa', 'nopass', mark('security')):
        for password in (None, mark('password'), ''):
            for hidden in (False, True):
                got = _call(fx, it, 'make_wifi_data', ssid=mark('ssid'), password=password, security=security, hidden=hidden)
                want = ([('T', security if security == 'nopass' else security.upper())] if security else []) + [('S', mark('ssid'))] + \
                    ([('P', password)] if password is not None else []) + ([('H', 'true')] if hidden else [])
                f = fields_of(got, 'WIFI:') if isinstance(got, str) else got
                yield ob(f'WIFI security={security!r:.12} password={"given" if password else password!r} hidden={hidden}', f == want, fn,
                         got=f if f != want else 'the supplied fields', want='the supplied fields')
    # ---- MeCard
    fn = fx.fn('helpers', 'make_mecard_data')
    single_p = {'reading': 'SOUND', 'nickname': 'NICKNAME', 'memo': 'MEMO'}
    multi_p = {'email': 'EMAIL', 'phone': 'TEL', 'videophone': 'TELAV', 'url': 'URL'}
    adr_p = ('pobox', 'roomno', 'houseno', 'city', 'prefecture', 'zipcode', 'country')
    params = src.params(fn)
    known = {'name', 'birthday'} | set(single_p) | set(multi_p) | set(adr_p)
    yield ob('MeCard: the parameters are the documented ones', set(params) == known, fn, got=sorted(set(params) ^ known), want=[])
    scen = []
    scen.append(('all parameters hostile', dict({p: mark(p) for p in single_p}, name=mark('name'), birthday=mark('birthday'),
                                                **{p: [mark(p, 1), mark(p, 2)] for p in multi_p}, **{p: mark(p) for p in adr_p})))
    scen.append(('name only', dict(name=mark('name'))))
    scen.append(('single strings for the multi-valued parameters, one address part', dict(name='N', city=mark('city'), **{p: mark(p) for p in multi_p})))
    scen.append(('birthday as a date object', dict(name='N', birthday=DateModel())))
    scen.append(('birthday as a number', dict(name='N', birthday=19700101)))
    for title, kw in scen:
        got = _call(fx, it, 'make_mecard_data', **kw)
        want = [('N', kw['name'])]
        for p, key in single_p.items():
            if kw.get(p):
                want.append((key, kw[p]))
        for p, key in multi_p.items():
            v = kw.get(p)
            for x in ([v] if isinstance(v, str) else (v or [])):
                want.append((key, x))
        if kw.get('birthday'):
            b = kw['birthday']
            want.append(('BDAY', '20240229' if isinstance(b, DateModel) else str(b)))
        if any(kw.get(p) for p in adr_p):
            want.append(('ADR', ','.join(kw.get(p) or '' for p in adr_p)))
        f = fields_of(got, 'MECARD:') if isinstance(got, str) else got
        ok = isinstance(f, list) and sorted(f) == sorted(want)
        yield ob(f'MeCard: {title}', ok, fn, got='the supplied fields' if ok else (f if not isinstance(f, list) else
                 f'missing {sorted(set(want) - set(f))[:2]} unexpected {sorted(set(f) - set(want))[:2]}'), want='the supplied fields')
    # ---- vCard
    fn = fx.fn('helpers', 'make_vcard_data')
    v_single = {'displayname': 'FN', 'org': 'ORG', 'nickname': 'NICKNAME', 'source': 'SOURCE', 'memo': 'NOTE'}
    v_multi = {'email': 'EMAIL', 'phone': 'TEL', 'fax': 'TEL;TYPE=FAX', 'videophone': 'TEL;TYPE=VIDEO', 'cellphone': 'TEL;TYPE=CELL',
               'homephone': 'TEL;TYPE=HOME', 'workphone': 'TEL;TYPE=WORK', 'url': 'URL', 'title': 'TITLE', 'photo_uri': 'PHOTO;VALUE=uri'}
    v_adr = ('pobox', 'street', 'city', 'region', 'zipcode', 'country')
    known = {'name', 'birthday', 'rev', 'lat', 'lng'} | set(v_single) | set(v_multi) | set(v_adr)
    yield ob('vCard: the parameters are the documented ones', set(src.params(fn)) == known, fn, got=sorted(set(src.params(fn)) ^ known), want=[])

    def vunesc(t):
        out, i = '', 0
        while i < len(t):
            if t[i] == '\\' and i + 1 < len(t) and t[i + 1] in ',;n':
                out += '\n' if t[i + 1] == 'n' else t[i + 1]
                i += 2
            else:
                out += t[i]
                i += 1
        return out
    vh = 'a;b:c,d"f\ng\rh;;,'         # no backslash: the vCard tables do not escape it (one-line integrity is what is decided)
    vm = lambda p, k='': f'<{p}{k}>' + vh      # noqa: E731
    scen = [('all text parameters hostile', dict({p: vm(p) for p in v_single}, name=vm('name'), birthday='2024-02-29', rev='2024-02-29T10:00:00',
                                                  lat=1.5, lng=-2.25, **{p: [vm(p, 1), vm(p, 2)] for p in v_multi}, **{p: vm(p) for p in v_adr})),
            ('name and displayname only', dict(name=vm('name'), displayname=vm('displayname'))),
            ('single strings for the multi-valued parameters, dates as objects', dict(name='N', displayname='D', birthday=DateModel(), rev=DateModel(),
                                                                                       city=vm('city'), **{p: vm(p) for p in v_multi}))]
    for title, kw in scen:
        got = _call(fx, it, 'make_vcard_data', **kw)
        if not isinstance(got, str):
            yield ob(f'vCard: {title}', False, fn, got=got, want='a payload')
            continue
        lines = got.split('\r\n')
        probs = []
        if lines[:2] != ['BEGIN:VCARD', 'VERSION:3.0'] or lines[-2:] != ['END:VCARD', '']:
            probs.append(f'frame {lines[:2]} ... {lines[-2:]}')
        content = lines[2:-2]
        if any('\n' in ln or '\r' in ln for ln in lines):
            probs.append('a bare CR or LF inside a line')
        want = [('N', kw['name'].replace('\r', ''))]
        for p, key in v_single.items():
            if kw.get(p):
                want.append((key, kw[p].replace('\r', '')))
        for p, key in v_multi.items():
            v = kw.get(p)
            for x in ([v] if isinstance(v, str) else (v or [])):
                want.append((key, x.replace('\r', '')))
        if any(kw.get(p) for p in v_adr):
            want.append(('ADR', None))
        if kw.get('birthday'):
            want.append(('BDAY', '2024-02-29'))
        if kw.get('rev'):
            want.append(('REV', '2024-02-29' if isinstance(kw['rev'], DateModel) else kw['rev']))
        if kw.get('lat'):
            want.append(('GEO', f'{kw["lat"]};{kw["lng"]}'))
        gotf = []
        for ln in content:
            key, sep, val = ln.partition(':')
            if not sep:
                probs.append(f'line without a property name: {ln[:30]!r}')
                continue
            gotf.append((key, None if key == 'ADR' else (val if key in ('N', 'GEO') else vunesc(val))))
        wantn = [(k, v if k != 'N' else v) for k, v in want]
        # N keeps `;` (component delimiter): compare with line breaks escaped only
        gotn = [(k, (v.replace('\\n', '\n') if k == 'N' else v)) for k, v in gotf]
        if sorted(gotn, key=repr) != sorted(wantn, key=repr):
            miss = [x for x in wantn if x not in gotn][:2]
            extra = [x for x in gotn if x not in wantn][:2]
            probs.append(f'{len(content)} content lines for {len(want)} values; missing {miss} unexpected {extra}')
        if ('ADR', None) in want:
            adr = [ln for ln in content if ln.startswith('ADR:')]
            comps = split_unescaped(adr[0][4:], ';') if len(adr) == 1 else []
            wantc = [vh and (kw.get(v_adr[0]) or '')] + [''] + [(kw.get(p) or '') for p in v_adr[1:]]
            if [vunesc(c) for c in comps] != [c.replace('\r', '') for c in wantc]:
                probs.append(f'ADR components {comps[:3]}')
        yield ob(f'vCard: {title}', not probs, fn, got='; '.join(probs[:2]) or 'one content line per value', want='one content line per value')
    # dates and numbers that are not what they should be are refused
    for p, bad in (('birthday', '2024-02-29\r\nX:1'), ('birthday', 'tomorrow'), ('rev', '2024-02-29\nNOTE:x'), ('birthday', 20240229)):
        got = _call(fx, it, 'make_vcard_data', name='N', displayname='D', **{p: bad})
        yield ob(f'vCard: {p}={bad!r} is refused', got == ('raises', 'ValueError'), fn, got=got if not isinstance(got, str) else 'accepted', want='ValueError')
    for kw in (dict(lat=1.0), dict(lng=2.0)):
        got = _call(fx, it, 'make_vcard_data', name='N', displayname='D', **kw)
        yield ob(f'vCard: incomplete geo information {kw} is refused', got == ('raises', 'ValueError'), fn, got=got if not isinstance(got, str) else 'accepted', want='ValueError')


@rule('C16', 'R2', 8, 'escape tables: MeCard maps \\ ; : " to backslash + char; vCard tables leave no CR/LF; validators cannot match a line break and end in \\Z')
def r2(fx):
    # the escaping functions, interpreted on every single character of a probe alphabet and on mixed strings (a translation
    # table and a character-class substitution are both character-by-character maps; what is decided is that map)
    it = Interp(max_steps=20_000_000)
    alphabet = [chr(i) for i in range(0x300)] + ['\u20ac', '\u3042', '\u2028', '\u2029', '\x85', '\U0001f600']
    mixed = ['a;b:c"d\\e', '\\\\;;', 'x\r\ny,z;', ';', '', 'plain text 123', ',;:"\\\r\n' * 2]

    def table(fname, arg=lambda x_: x_):
        f = make_callable(fx.forest, 'helpers', fname, it)
        out = {}
        for x_ in alphabet + mixed:
            try:
                out[x_] = f(arg(x_))
            except PyRaise as ex:
                out[x_] = ex
        return out
    me = table('_escape_mecard')
    mfn = fx.fn('helpers', '_escape_mecard')
    for ch in ('\\', ';', ':', '"'):
        yield ob(f'MeCard escape of {ch!r}', me[ch] == '\\' + ch, mfn, got=me[ch], want='\\' + ch)
    extra = {k: v for k, v in me.items() if len(k) == 1 and k not in '\\;:"' and v != k and v != '\\' + k}
    homo = {k: v for k, v in me.items() if len(k) != 1 and v != ''.join(me[c] if isinstance(me[c], str) else '?' for c in k)}
    yield ob('MeCard escaping: every other character is kept or becomes backslash + the same character (un-escaping is removal of one backslash); strings character by character',
             not extra and not homo, mfn, got=dict(list(extra.items())[:3] + list(homo.items())[:2]), want={})
    vc = table('_escape_vcard')
    vfn = fx.fn('helpers', '_escape_vcard')
    bad = [(k, v) for k, v in vc.items() if not isinstance(v, str) or '\r' in v or '\n' in v]
    bad += [(k, v) for k, v in vc.items() if len(k) != 1 and isinstance(v, str) and v != ''.join(vc[c] if isinstance(vc[c], str) else '?' for c in k)]
    bad += [(k, v) for k, v in vc.items() if len(k) == 1 and k not in ',;\r\n' and v != k]
    yield ob('_VCARD_ESCAPE: no CR/LF survives translation', not bad, vfn, got=bad[:3], want=[])
    # the structured N value: line breaks only
    vcard = make_callable(fx.forest, 'helpers', 'make_vcard_data', it)
    bad = []
    for nm in ('Doe;John', 'Doe\r\nX:1;John', 'A\nB', 'A\rB', 'a,b;c'):
        try:
            txt = vcard(nm, 'x')
            nline = [ln for ln in txt.split('\r\n') if ln.startswith('N:')]
            want_n = 'N:' + nm.replace('\r', '').replace('\n', '\\n')
            if nline != [want_n] or txt.split('\r\n')[:3] != ['BEGIN:VCARD', 'VERSION:3.0', want_n]:
                bad.append((nm, nline))
        except PyRaise as ex:
            bad.append((nm, f'raises {ex.name}'))
    yield ob('_VCARD_ESCAPE_NEWLINE: no CR/LF survives translation', not bad, fx.fn('helpers', 'make_vcard_data'), got=bad[:3], want=[])
    yield ob('vCard table escapes , and ;', vc[','] == '\\,' and vc[';'] == '\\;', vfn, got=(vc[','], vc[';']), want=('\\,', '\\;'))
    fn = fx.fn('helpers', 'make_vcard_data')
    for p, rxname in sorted(_validators(fx, fn).items()):
        patn = _regex_of(fx, rxname)
        tree = rx.parse(patn)
        yield ob(f'validator of {p}: anchored at \\Z and cannot match CR/LF', rx.ends_with_string_end(tree) is True
                 and not rx.can_match_newline(tree), fx.forest.module_assign('helpers', rxname), where=f'helpers.{rxname}', got=patn,
                 want=r'^...\Z without any construct matching \r or \n')
    it2 = Interp(max_steps=5_000_000)
    try:
        txt = make_callable(fx.forest, 'helpers', 'make_vcard_data', it2)('Doe;John', 'John Doe', email=('a@example.org', 'b@example.org'), city='Town')
        lines = txt.split('\r\n') if isinstance(txt, str) else None
    except PyRaise as ex:
        txt, lines = f'raises {ex.name}', None
    okl = lines is not None and lines[:2] == ['BEGIN:VCARD', 'VERSION:3.0'] and lines[-2:] == ['END:VCARD', ''] and not any('\n' in ln or '\r' in ln for ln in lines) \
        and all(':' in ln for ln in lines[:-1])
    yield ob('vCard lines are joined with CRLF, BEGIN first, END last', okl, fn, got=lines if lines is not None else txt,
             want="BEGIN:VCARD, VERSION:3.0, <property lines>, END:VCARD, each ended by CRLF")


def _list_head(fn, name):
    for s in fn.body:
        if isinstance(s, ast.Assign) and ast.unparse(s.targets[0]) == name and isinstance(s.value, ast.List):
            return [e.value if isinstance(e, ast.Constant) else ast.unparse(e) for e in s.value.elts]
    return []


def _appends(fn, name):
    out = []
    for s in fn.body:
        if isinstance(s, ast.Expr) and isinstance(s.value, ast.Call) and src.call_name(s.value) == f'{name}.append':
            out.append(ast.unparse(s.value.args[0]))
    return out


@rule('C16', 'R4', 20, 'mailto: addresses joined by commas, texts percent-encoded, first parameter after "?", later ones after "&"; geo: fixed-point numbers without trailing zeros')
def r4(fx):
    from urllib.parse import unquote
    it = Interp(max_steps=20_000_000)
    fn = fx.fn('helpers', 'make_make_email_data')
    txt = 'Sub ject?&=#%+\u00e4\n 100%41 %2F%c3%b6 50%' + HOSTILE
    for to in ('a@example.org', ['a@example.org', 'b@example.org']):
        for cc in (None, 'c@example.org', ('c@example.org', 'd@example.org')):
            for bcc in (None, ['e@example.org']):
                for subject in (None, '', txt):
                    for body in (None, txt + 'body'):
                        got = _call(fx, it, 'make_make_email_data', to=to, cc=cc, bcc=bcc, subject=subject, body=body)
                        why = ''
                        if not isinstance(got, str) or not got.startswith('mailto:'):
                            why = f'{got!r:.60}'
                        else:
                            head, q, query = got[7:].partition('?')
                            tos = [to] if isinstance(to, str) else list(to)
                            want_q = []
                            for k, v in (('cc', cc), ('bcc', bcc)):
                                if v:
                                    want_q.append((k, ','.join([v] if isinstance(v, str) else v)))
                            for k, v in (('subject', subject), ('body', body)):
                                if v is not None:
                                    want_q.append((k, v))
                            if head != ','.join(tos):
                                why = f'recipients {head!r}'
                            elif bool(q) != bool(want_q):
                                why = f'query part {query[:30]!r} for {len(want_q)} parameters'
                            else:
                                pairs = [tuple(x.partition('=')[::2]) for x in query.split('&')] if q else []
                                dec = [(k, unquote(v) if k in ('subject', 'body') else v) for k, v in pairs]
                                if dec != want_q:
                                    why = f'parameters {pairs[:3]}'
                                elif any(ch in v for k, v in pairs if k in ('subject', 'body') for ch in ' ?&=#\n\r"'):
                                    why = 'a reserved character survives in a text parameter'
                                elif any(re.search(r'%(?![0-9A-Fa-f]{2})', v) for k, v in pairs if k in ('subject', 'body')):
                                    why = 'a "%" that does not start a percent-encoded octet survives in a text parameter'
                        yield ob(f'mailto to={len([to] if isinstance(to, str) else to)} cc={cc and len([cc] if isinstance(cc, str) else cc)} bcc={bool(bcc)} '
                                 f'subject={"None" if subject is None else len(subject)} body={"None" if body is None else len(body)}', not why, fn,
                                 got=why or 'a mailto URI carrying the values', want='a mailto URI carrying the values')
    for bad in (None, '', []):
        got = _call(fx, it, 'make_make_email_data', to=bad)
        yield ob(f'mailto: to={bad!r} is refused', got == ('raises', 'ValueError'), fn, got=got if not isinstance(got, str) else 'accepted', want='ValueError')
    # geo
    gd = fx.fn('helpers', 'make_geo_data')
    samples = [0, 0.0, 1, -1, 10, 40.0, -120, 100, 90, 180, -180, 0.5, -0.5, 38.8976763, -77.0365298, 1e-8, 1.23456789e-3, 12.5, 99.99, 100.001,
               0.1, 0.10000001, 20, 30.25, -0.00000001, 51.4779, 7, 70, 700.07] + list(range(-180, 181, 10)) + [x / 8 for x in range(-40, 41)]

    def fixed(f):
        d = decimal.Decimal(repr(float(f))).quantize(decimal.Decimal('0.00000001'))
        want = format(d, 'f')
        if '.' in want:
            want = want.rstrip('0')
            if want.endswith('.'):
                want = want[:-1]
        return want
    bad = []
    for k, f in enumerate(samples):
        g = samples[-1 - k]
        got = _call(fx, it, 'make_geo_data', lat=f, lng=g)
        want = f'geo:{fixed(f)},{fixed(g)}'
        if got != want:
            bad.append((f, g, got, want))
    yield ob(f'geo:<lat>,<lng> with fixed-point numbers (max. 8 decimals, no trailing zeros) on {len(samples)} sample pairs (sampled)', not bad, gd, got=bad[:3], want=[])


class Txt(str):
    """Text abstracted to its length (all characters 'x'); strip/rstrip keep it."""


def _epc(fx, it, **kw):
    genv = callable_env(fx.forest, 'helpers', it, {'decimal': ev.Namespace('decimal', {'Decimal': decimal.Decimal})})
    f = FuncVal(fx.fn('helpers', '_make_epc_qr_data'), genv, it)
    args = dict(name='n' * 10, iban='i' * 22, amount=1, text='t' * 5, reference=None, bic=None, purpose=None, encoding=None)
    args.update(kw)
    try:
        return f(**args)
    except PyRaise as e:
        return f'raises {e.name}'


@rule('C16', 'R5', 60, 'EPC: limits enforced on both sides of each boundary, line order, character-set number, 331-byte guard; level M, no boost, version <= 13')
def r5(fx):
    fn = fx.fn('helpers', '_make_epc_qr_data')
    it = Interp(max_steps=20_000_000)
    VE = 'raises ValueError'
    cases = []
    for n, ok in ((0, False), (1, True), (70, True), (71, False)):
        cases.append((f'name of {n} characters', dict(name='n' * n), ok))
    cases.append(('name None', dict(name=None), False))
    for n, ok in ((4, False), (5, True), (34, True), (35, False)):
        cases.append((f'IBAN of {n} characters', dict(iban='i' * n), ok))
    cases.append(('IBAN None', dict(iban=None), False))
    for n, ok in ((1, True), (140, True), (141, False)):
        cases.append((f'text of {n} characters', dict(text='t' * n), ok))
    for n, ok in ((1, True), (35, True), (36, False)):
        cases.append((f'reference of {n} characters', dict(text=None, reference='r' * n), ok))
    cases.append(('text and reference', dict(text='t', reference='r'), False))
    cases.append(('neither text nor reference', dict(text=None, reference=None), False))
    cases.append(('empty text, no reference', dict(text='', reference=None), False))
    for n, ok in ((7, False), (8, True), (9, False), (10, False), (11, True), (12, False)):
        cases.append((f'BIC of {n} characters', dict(bic='b' * n), ok))
    for n, ok in ((3, False), (4, True), (5, False)):
        cases.append((f'purpose of {n} characters', dict(purpose='p' * n), ok))
    for a, ok in (('0', False), ('0.009', False), ('0.01', True), (0.01, True), (1, True), ('999999999.99', True), ('1000000000', False),
                  ('999999999.991', False), (-1, False), (5.5, True),
                  # values of the documented types (float, Decimal) that are not numbers in the range
                  (float('nan'), False), (float('inf'), False), (float('-inf'), False), (__import__('decimal').Decimal('NaN'), False),
                  (__import__('decimal').Decimal('Infinity'), False), (__import__('decimal').Decimal('sNaN'), False)):
        cases.append((f'amount {a!r}', dict(amount=a), ok))
    for e, ok in ((0, False), (1, True), (8, True), (9, False), (-1, False), ('utf-8', True), ('UTF-8', True), ('iso-8859-15', True), ('latin1', False),
                  ('iso-8859-3', False), (1.0, False)):
        cases.append((f'encoding {e!r}', dict(encoding=e), ok))
    for name, kw, ok in cases:
        got = _epc(fx, it, **kw)
        good = isinstance(got, bytes) if ok else got == VE
        yield ob(name, good, fn, got=got if isinstance(got, str) else 'payload', want='payload' if ok else VE)
    # layout
    got = _epc(fx, it, name='NAME', iban='IBAN5', amount='12.50', text='TEXT', bic='BICBICBI', purpose='PURP', encoding=2)
    lines = got.decode('latin1').split('\n') if isinstance(got, bytes) else got
    want = ['BCD', '002', '2', 'SCT', 'BICBICBI', 'NAME', 'IBAN5', 'EUR12.5', 'PURP', '', 'TEXT']
    yield ob('EPC line order with unstructured text', lines == want, fn, got=lines, want=want)
    got = _epc(fx, it, name='NAME', iban='IBAN5', amount=100, text=None, reference='REF', encoding=None)
    lines = got.decode('latin1').split('\n') if isinstance(got, bytes) else got
    want = ['BCD', '002', '2', 'SCT', '', 'NAME', 'IBAN5', 'EUR100', '', 'REF']
    yield ob('EPC line order with structured reference; default character set = first 8-bit codec that fits (2 = ISO-8859-1)', lines == want, fn,
             got=lines, want=want)
    # character-set number k stands for the k-th codec of EPC069-12: a name only that codec (of the eight) writes this way
    probe = {1: '\u20ac\u0416', 2: '\u00e9\u00fe', 3: '\u0142\u0159', 4: '\u0101\u0137', 5: '\u0416\u044f', 6: '\u03a9\u03b1', 7: '\u0111\u014b', 8: '\u20ac\u0153'}
    bad = []
    for k, codec in enumerate(iso.EPC['encodings'], start=1):
        for sel in (k, codec):
            got = _epc(fx, it, name=probe[k], encoding=sel)
            if not isinstance(got, bytes) or got.split(b'\n')[5] != probe[k].encode(codec) or got.split(b'\n')[2] != str(k).encode():
                bad.append((sel, got if isinstance(got, str) else got.split(b'\n')[2:6]))
    yield ob('EPC character-set list (order = character-set number): number k / its name selects the k-th codec, for all eight', not bad, fn, got=bad[:3], want=[])
    for k in (1, 2, 5, 8):
        got = _epc(fx, it, encoding=k)
        lines = got.decode('latin1').split('\n') if isinstance(got, bytes) else [got]
        yield ob(f'encoding number {k} is written as the character-set line', len(lines) > 2 and lines[2] == str(k), fn, got=lines[:3], want=str(k))
    got = _epc(fx, it, name='n' * 70, iban='i' * 34, text='t' * 140, bic='b' * 11, purpose='pppp', amount='999999999.99')
    yield ob('maximal fields fit the 331-byte limit', isinstance(got, bytes) and len(got) <= 331, fn, got=len(got) if isinstance(got, bytes) else got, want='<= 331')
    # the amount line is numerically the amount given, for every cent value given as float, string, Decimal or int
    bad = []
    for cents in list(range(1, 301)) + [999, 1000, 1001, 12345, 99999999999, 5000000000]:
        d = decimal.Decimal(cents) / 100
        forms = [float(d), str(d), d] + ([cents // 100] if cents % 100 == 0 else [])
        for a in forms:
            got = _epc(fx, it, amount=a)
            line = got.decode('latin1').split('\n')[7] if isinstance(got, bytes) else got
            m_ = __import__('re').fullmatch(r'EUR(\d+(?:\.\d{1,2})?)', line)
            if not m_ or decimal.Decimal(m_.group(1)) != d:
                bad.append((a, line))
    yield ob('amount line EUR#.## is numerically the amount given (cent values 0.01..3.00 and some larger ones, as float / str / Decimal / int)', not bad, fn,
             got=bad[:4], want=[])
    got = _epc(fx, it, name='\u00e4' * 70, iban='i' * 34, text='\u20ac' * 140, bic='b' * 11, purpose='pppp', amount='999999999.99', encoding=1)
    yield ob('331-byte guard: fields within their character limits whose UTF-8 form exceeds 331 bytes are refused', got == VE, fn,
             got=got if isinstance(got, str) else f'payload of {len(got)} bytes', want=VE)
    got = _epc(fx, it, name='\u00e4' * 20, iban='i' * 22, text='\u20ac' * 60, encoding=1)
    yield ob('multi-byte payload below the limit is accepted', isinstance(got, bytes) and len(got) <= 331, fn,
             got=got if isinstance(got, str) else f'payload of {len(got)} bytes', want='payload <= 331 bytes')
    # make_epc_qr
    mq = fx.fn('helpers', 'make_epc_qr')
    for version, want_ok in ((13, True), (14, False), (1, True), (40, False)):
        rec, res = _run_factory(fx, it, 'make_epc_qr', '_make_epc_qr_data', version=version)
        probs = []
        if rec.get('data_args') != {p: f'<{p}>' for p in src.params(mq)}:
            probs.append(f'fields not forwarded one to one: {rec.get("data_args")}')
        mk = rec.get('make_qr')
        if mk is None or mk[0] != '<payload>' or mk[1].get('error') not in ('m', 'M') or mk[1].get('boost_error') is not False or \
                set(mk[1]) - {'error', 'boost_error', 'encoding', 'version'} or mk[1].get('version') not in (None,):
            probs.append(f'make_qr called with {mk}')
        if want_ok and not (isinstance(res, QRModel)):
            probs.append(f'version {version}: {res}')
        if not want_ok and res != ('raises', 'ValueError'):
            probs.append(f'version {version} accepted')
        yield ob(f"make_epc_qr: payload of the data function, level M, no boosting; resulting version {version} {'accepted' if want_ok else 'refused'}", not probs, mq,
                 got='; '.join(probs) or 'as required', want='as required')


class QRModel:
    _model = ('version',)

    def __init__(self, version):
        self.version = version


def _run_factory(fx, it, fac, dat, version=5):
    """Interpret the factory with a marker per parameter, a recording data function and a recording segno.make_qr."""
    rec = {}
    fn = fx.fn('helpers', fac)
    dfn = fx.fn('helpers', dat)

    def data_fn(*a, **k):
        dparams = src.params(dfn)
        bound = dict(zip(dparams, a))
        bound.update(k)
        rec['data_args'] = bound
        return '<payload>'

    def make_qr(content, **k):
        rec['make_qr'] = (content, k)
        return QRModel(version)
    genv = callable_env(fx.forest, 'helpers', it, {dat: data_fn, 'segno': ev.Namespace('segno', {'make_qr': make_qr})})
    try:
        res = FuncVal(fn, genv, it)(**{p: f'<{p}>' for p in src.params(fn)})
    except PyRaise as e:
        res = ('raises', e.name)
    return rec, res


FACTORIES = {'make_wifi': 'make_wifi_data', 'make_mecard': 'make_mecard_data', 'make_vcard': 'make_vcard_data', 'make_geo': 'make_geo_data',
             'make_email': 'make_make_email_data'}


@rule('C16', 'R6', 5, 'every make_* factory returns segno.make_qr(<its *_data payload>) with every parameter forwarded to the same-named one')
def r6(fx):
    it = Interp()
    for fac, dat in FACTORIES.items():
        fn = fx.fn('helpers', fac)
        dfn = fx.fn('helpers', dat)
        rec, res = _run_factory(fx, it, fac, dat)
        want_args = {p: f'<{p}>' for p in src.params(fn)}
        same_sig = src.params(fn) == src.params(dfn) and {k: ast.unparse(v) for k, v in src.param_defaults(fn).items()} == \
            {k: ast.unparse(v) for k, v in src.param_defaults(dfn).items()}
        ok = rec.get('data_args') == want_args and rec.get('make_qr') == ('<payload>', {}) and isinstance(res, QRModel) and same_sig
        yield ob(f'{fac} -> make_qr({dat}(...))', ok, fn, got=f'data function got {rec.get("data_args")}; make_qr got {rec.get("make_qr")}; same signature: {same_sig}'
                 if not ok else 'all forwarded', want='all forwarded, same signature, make_qr(<payload>)')
