"""C15 -- purity: deterministic, history-free, thread-safe, idempotent."""
import ast

from .. import ev, eff, iso, nf, pat, src
from ..core import rule, ob, explain, Ob
from ..src import Unknown, Forest
from .common import C, need, single
from . import p06, p13

explain('C15', '''Decided (whole-program effect analysis over every function of the package): no function stores into,
deletes from or calls a mutating method on an object reachable from a module-level name, directly, through local
aliases or through a callee (the only writer of module state is import-time code of cli); no `global`/`nonlocal`
rebinding; every API entry point (factories, encode*, QRCode/QRCodeSequence methods, save and all serialisers, data-URI
helpers, matrix iterators, helper factories) has an empty parameter-mutation summary apart from `self` in constructors,
so no call modifies its arguments, a symbol passed to a serialiser, or a previously returned symbol; mutators
(add_*, apply_mask, write_* on a buffer, Segments.add_segment, write_ppm on its colour map) are only ever handed objects
their caller created; mask candidates are row copies (C06.R2); no function result is memoised; there are no mutable
default arguments, no class-level mutable attributes, no function returns a module-level mutable object; no source of
nondeterminism (random, urandom, uuid, id, hash, time, iteration over a set of str/bytes) is reachable from the encoder,
the iterators or a serialiser except the three documented creation timestamps; capacity/padding use the boosted level so
that re-encoding with the reported parameters takes the same path. A synthetic positive control (a module with one write
to a module table, one aliased write, one memoised function) must be flagged on every run. NOT decided: nothing; for
this property the quantifier over histories and schedules collapses to the absence of shared mutable state.''')

ENTRY = [
    ('__init__', 'make'), ('__init__', 'make_qr'), ('__init__', 'make_micro'), ('__init__', 'make_sequence'),
    ('encoder', 'encode'), ('encoder', 'encode_sequence'), ('encoder', '_encode'),
    ('writers', 'save'), ('writers', 'as_svg_data_uri'), ('writers', 'as_png_data_uri'),
    ('writers', 'write_eps'), ('writers', 'write_pdf'), ('writers', 'write_txt'),
    ('writers', 'write_pbm'), ('writers', 'write_pam'), ('writers', 'write_xpm'), ('writers', 'write_xbm'),
    ('writers', 'write_tex'), ('writers', 'write_terminal'), ('writers', 'write_terminal_compact'),
    ('writers', 'colorful.decorate.wrapper'),      # what write_svg / write_png / write_ppm denote after decoration
    ('utils', 'matrix_iter'), ('utils', 'matrix_iter_verbose'), ('utils', 'matrix_to_lines'),
    ('utils', 'get_symbol_size'), ('utils', 'get_border'), ('utils', 'get_default_border_size'),
    ('helpers', 'make_wifi_data'), ('helpers', 'make_wifi'), ('helpers', 'make_mecard_data'), ('helpers', 'make_mecard'),
    ('helpers', 'make_vcard_data'), ('helpers', 'make_vcard'), ('helpers', 'make_geo_data'), ('helpers', 'make_geo'),
    ('helpers', 'make_make_email_data'), ('helpers', 'make_email'), ('helpers', '_make_epc_qr_data'), ('helpers', 'make_epc_qr'),
    ('cli', 'main'),
]
SELF_BUILDERS = {'__init__', '__new__'}

CONTROL = '''
import functools
TABLE = {'a': [1, 2]}
CACHE = []

def direct(x):
    TABLE['b'] = x

def aliased(x):
    row = TABLE['a']
    row.append(x)

def via_callee(x):
    helper(CACHE, x)

def helper(lst, x):
    lst.append(x)

@functools.lru_cache(maxsize=8)
def memo(x):
    return bytearray(x)

def default_arg(x, acc=[]):
    acc.append(x)
    return acc

def mutates_param(matrix):
    matrix[0][0] ^= 1

def clean(matrix):
    m = [r[:] for r in matrix]
    m[0][0] ^= 1
    return m
'''


def _control_program():
    base = Forest({'ctl': CONTROL})
    base.trees.setdefault('ctl', base.trees['ctl'])
    return eff.Program(base)


@rule('C15', 'R0', 8, 'positive control: a synthetic module with known effects is classified correctly')
def r0(fx):
    P = _control_program()
    f = {q: P.fns[('ctl', q)] for q in ('direct', 'aliased', 'via_callee', 'helper', 'memo', 'default_arg', 'mutates_param', 'clean')}
    mod = fx.forest.mod('consts')
    yield ob('control: direct write to a module table is flagged', 'ctl.TABLE' in f['direct'].mut_globals, mod, where='control.direct',
             got=sorted(f['direct'].mut_globals), want=['ctl.TABLE'])
    yield ob('control: write through a local alias of a table row is flagged', 'ctl.TABLE' in f['aliased'].mut_globals, mod,
             where='control.aliased', got=sorted(f['aliased'].mut_globals), want=['ctl.TABLE'])
    yield ob('control: write through a callee is flagged', 'ctl.CACHE' in f['via_callee'].mut_globals, mod, where='control.via_callee',
             got=sorted(f['via_callee'].mut_globals), want=['ctl.CACHE'])
    yield ob('control: parameter mutation summary', set(f['helper'].mut_params) == {'lst'} and set(f['mutates_param'].mut_params) == {'matrix'},
             mod, where='control.helper', got=(sorted(f['helper'].mut_params), sorted(f['mutates_param'].mut_params)), want=(['lst'], ['matrix']))
    yield ob('control: mutation of a row copy is not attributed to the parameter', not f['clean'].mut_params and not f['clean'].mut_globals,
             mod, where='control.clean', got=(sorted(f['clean'].mut_params), sorted(f['clean'].mut_globals)), want=([], []))
    yield ob('control: memoised function is flagged', _memoised(f['memo'].node) is not None, mod, where='control.memo',
             got=_memoised(f['memo'].node), want='lru_cache')
    yield ob('control: mutable default is flagged', bool(_mutable_defaults(f['default_arg'].node)), mod, where='control.default_arg',
             got=_mutable_defaults(f['default_arg'].node), want=['acc'])
    yield ob('control: unmemoised function is not flagged', _memoised(f['clean'].node) is None, mod, where='control.clean',
             got=_memoised(f['clean'].node), want=None)


def _memoised(fn):
    for d in fn.decorator_list:
        dn = src.call_name(d) if isinstance(d, ast.Call) else src.dotted(d)
        if dn and dn.split('.')[-1] in ('lru_cache', 'cache', 'cached_property', 'memoize', 'memoized'):
            return dn
    return None


def _mutable_defaults(fn):
    out = []
    a = fn.args
    pos = a.posonlyargs + a.args
    for p, d in list(zip(pos[len(pos) - len(a.defaults):], a.defaults)) + [(p, d) for p, d in zip(a.kwonlyargs, a.kw_defaults) if d is not None]:
        if isinstance(d, (ast.List, ast.Dict, ast.Set, ast.ListComp, ast.DictComp, ast.SetComp)) or \
                (isinstance(d, ast.Call) and src.call_name(d) in ('list', 'dict', 'set', 'bytearray', 'defaultdict', 'Buffer', 'Segments')):
            out.append(p.arg)
    return out


@rule('C15', 'R1', 180, 'no function writes module-level state (directly, through aliases or callees); no global/nonlocal rebinding')
def r1(fx):
    P = eff.program(fx.forest)
    n = 0
    for fi in sorted(P.fns.values(), key=lambda f: f.name):
        n += 1
        bad = {g: ents[:2] for g, ents in fi.mut_globals.items()}
        yield Ob(f'{fi.name}: module-level objects mutated', not bad, fi.name, fi.node.lineno,
                 '; '.join(f'{g} at line {e[0][0]}: {e[0][1]}' for g, e in bad.items()) or 'none', 'none', True)
    for m, q, node in fx.forest.functions():
        for x in src.walk_local(node):
            if isinstance(x, (ast.Global, ast.Nonlocal)):
                yield Ob(f'{m}.{q}: {type(x).__name__.lower()} {", ".join(x.names)}', False, f'{m}.{q}', x.lineno,
                         ast.unparse(x), 'no global / nonlocal rebinding', True)
    fx.info['C15 functions'] = n
    fx.info['C15 mutation sites'] = sum(f.sites for f in P.fns.values())
    fx.info['C15 fixed-point rounds'] = P.rounds
    for m, tree in fx.forest.trees.items():
        writers_ = []
        for st in tree.body:
            if isinstance(st, (ast.For, ast.While, ast.If, ast.With, ast.Try)):
                for x in ast.walk(st):
                    if isinstance(x, (ast.Assign, ast.AugAssign)):
                        for t in (x.targets if isinstance(x, ast.Assign) else [x.target]):
                            if isinstance(t, ast.Subscript):
                                writers_.append(ast.unparse(t.value))
        # statements at module level run once, at import: tables they fill are part of the module's initial state (recorded as
        # coverage; what must not happen is a write from a function, decided above)
        fx.info.setdefault('C15 tables filled at import time', {})[m] = sorted(set(writers_))


@rule('C15', 'R2', 40, 'API entry points mutate none of their arguments (except self in constructors); a serialiser never mutates the matrix')
def r2(fx):
    P = eff.program(fx.forest)
    for key in ENTRY:
        fi = P.fns.get(key)
        need(fi is not None, f'entry point {key[0]}.{key[1]} not found')
        bad = {p: e[:2] for p, e in fi.mut_params.items()}
        yield Ob(f'{fi.name}: parameters mutated', not bad, fi.name, fi.node.lineno,
                 '; '.join(f'{p} at line {e[0][0]}: {e[0][1]}' for p, e in bad.items()) or 'none', 'none', True)
    for k, fi in sorted(P.fns.items()):
        if k[1].startswith(('QRCode.', 'QRCodeSequence.')) and k[0] == '__init__':
            allowed = {'self'} if fi.node.name in SELF_BUILDERS else set()
            bad = {p: e[:1] for p, e in fi.mut_params.items() if p not in allowed}
            yield Ob(f'{fi.name}: parameters mutated', not bad, fi.name, fi.node.lineno,
                     '; '.join(f'{p} at line {e[0][0]}: {e[0][1]}' for p, e in bad.items()) or 'none',
                     'none' + (' (self allowed in a constructor)' if allowed else ''), True)
    # every call of a function that mutates a parameter: the argument is owned by the caller (or the caller's own parameter,
    # in which case the effect shows in the caller's summary, checked above for the entry points)
    n_sites = 0
    for fi in sorted(P.fns.values(), key=lambda f: f.name):
        for call, callees in fi.calls:
            for g in callees:
                for p in g.mut_params:
                    arg = P.arg_for(g, call, p)
                    if arg is None:
                        continue
                    roots = P.root_of(fi, arg, fi._aliases)
                    n_sites += 1
                    bad = [r for r in roots if r[0] in ('global', 'unknown')]
                    yield Ob(f'{fi.name}: {ast.unparse(call.func)}({p}={ast.unparse(arg)[:30]})', not bad, fi.name, call.lineno,
                             f'argument rooted at {sorted(roots)}', 'fresh object, own parameter or enclosing local', True)
    fx.info['C15 mutator call sites'] = n_sites


@rule('C15', 'R3', 16, 'mask candidates are row copies; the input matrix is untouched; the result is the chosen candidate (C06.R2)')
def r3(fx):
    yield from p06.r2(fx)


NONDET = {'random', 'urandom', 'uuid1', 'uuid4', 'getrandbits', 'randint', 'choice', 'shuffle', 'id', 'hash', 'getpid',
          'perf_counter', 'monotonic', 'token_bytes', 'token_hex'}
TIME_FNS = {'time', 'strftime', 'localtime', 'gmtime', 'timezone', 'now', 'today', 'utcnow'}


@rule('C15', 'R4', 100, 'no nondeterminism source reachable from the encoder, iterators or serialisers (time only in the three creation stamps); no order-dependent set iteration')
def r4(fx):
    P = eff.program(fx.forest)
    roots = [k for k in ENTRY if k != ('cli', 'main')] + [k for k in P.fns if k[0] == '__init__' and k[1].startswith('QRCode') and not k[1].endswith('.show')
                                                             and '.show.' not in k[1]]
    reach = P.reachable(roots)
    fx.info['C15 reachable functions'] = len(reach)
    allowed_time = {('writers', 'write_eps'): 1, ('writers', 'write_pdf'): 3, ('writers', 'write_tex'): 1}
    for k in sorted(reach):
        fi = P.fns[k]
        bad, times = [], []
        for n in src.walk_local(fi.node):
            if isinstance(n, ast.Call):
                d = src.call_name(n) or ''
                last = d.split('.')[-1]
                if last in NONDET and (d.split('.')[0] in ('random', 'os', 'uuid', 'secrets', 'time') or '.' not in d):
                    bad.append(f'{d}() at line {n.lineno}')
                if d.startswith('time.') or d.startswith('datetime.'):
                    times.append(f'{d} at line {n.lineno}')
            elif isinstance(n, ast.Attribute) and src.dotted(n) in ('time.timezone', 'time.altzone'):
                times.append(f'{src.dotted(n)} at line {n.lineno}')
            elif isinstance(n, ast.Compare) and any(isinstance(o, (ast.Is, ast.IsNot)) for o in n.ops):
                # an identity test against a value object (text, bytes, float, tuple, a large integer): the outcome depends on
                # which object the caller happened to pass, not on its value
                for side in [n.left] + list(n.comparators):
                    val = _value_of(fx, k[0], side)
                    if isinstance(val, (str, bytes, float, tuple, frozenset)) or (isinstance(val, int) and not isinstance(val, bool) and not -5 <= val <= 256):
                        bad.append(f'identity test against the value {val!r:.30}: `{ast.unparse(n)[:60]}` at line {n.lineno}')
                        break
            # iteration over a set
            it = None
            if isinstance(n, ast.For):
                it = n.iter
            elif isinstance(n, ast.comprehension):
                it = n.iter
            if it is not None and _is_set_expr(it, fi):
                par = src.parent(n) if isinstance(n, ast.comprehension) else None
                consumer = src.parent(par) if par is not None else None
                order_free = isinstance(par, ast.SetComp) or (isinstance(consumer, ast.Call) and src.call_name(consumer) in
                                                             ('set', 'frozenset', 'sorted', 'len', 'any', 'all', 'sum', 'min', 'max'))
                if not order_free:
                    bad.append(f'iteration over a set: {ast.unparse(it)[:50]} at line {getattr(it, "lineno", 0)}')
        lim = allowed_time.get(k, 0)
        if len(times) > lim:
            bad.append(f'{len(times)} time reads (allowed {lim}): {times}')
        yield Ob(f'{fi.name}: nondeterminism sources', not bad, fi.name, fi.node.lineno, '; '.join(bad) or 'none', 'none', True)
    for k, lim in allowed_time.items():
        fi = P.fns[k]
        cnt = sum(1 for n in src.walk_local(fi.node, into_nested=False) if (isinstance(n, ast.Call) and (src.call_name(n) or '').startswith('time.'))
                  or (isinstance(n, ast.Attribute) and src.dotted(n) in ('time.timezone',) and not isinstance(src.parent(n), ast.Attribute)))
        fx.info[f'time reads in {fi.name}'] = cnt


_NOVALUE = object()


def _value_of(fx, mod, e):
    """The constant an operand of an identity test denotes (a literal, a module constant, an attribute of an imported module of
    the package), else _NOVALUE."""
    if isinstance(e, ast.Constant):
        return e.value
    try:
        ns = ev.module_consts(fx.forest, mod)
        if isinstance(e, ast.Name) and ns.has(e.id):
            return ns.get(e.id)
        if isinstance(e, ast.Attribute) and isinstance(e.value, ast.Name) and ns.has(e.value.id):
            base = ns.get(e.value.id)
            if isinstance(base, ev.Namespace) and base.has(e.attr):
                return base.get(e.attr)
    except Unknown:
        pass
    return _NOVALUE


def _is_set_expr(e, fi):
    if isinstance(e, (ast.Set, ast.SetComp)):
        return True
    if isinstance(e, ast.Call) and src.call_name(e) in ('set', 'frozenset'):
        return True
    if isinstance(e, ast.Name):
        for v in getattr(fi, '_aliases', {}).get(e.id, []):
            if v is not None and not isinstance(v, ast.Name) and _is_set_expr(v, fi):
                return True
    return False


@rule('C15', 'R5', 180, 'no memoised results, no mutable default arguments, no class-level mutable attributes, no returned module-level mutable object')
def r5(fx):
    P = eff.program(fx.forest)
    for fi in sorted(P.fns.values(), key=lambda f: f.name):
        probs = []
        m = _memoised(fi.node)
        if m:
            probs.append(f'results cached by @{m} (shared between calls)')
        md = _mutable_defaults(fi.node)
        if md:
            probs.append(f'mutable default argument(s) {md}')
        for ra in fi.returns_alias:
            if ra.startswith('global:'):
                mod, name = ra[7:].split('.', 1)
                try:
                    val = ev.const(fx.forest, mod, name.split('.')[0])
                except Unknown:
                    continue
                if isinstance(val, (dict, list, set, bytearray)):
                    # returning an element of a table is fine when the elements are immutable
                    elems = list(val.values()) if isinstance(val, dict) else list(val)
                    whole = any(isinstance(r.value, (ast.Name, ast.Attribute)) and src.dotted(r.value) in (name, f'consts.{name}', f'{mod}.{name}')
                                for r in src.walk_local(fi.node) if isinstance(r, ast.Return) and r.value is not None)
                    deep = any(isinstance(x, (dict, list, set, bytearray)) for x in elems)
                    if whole or (deep and not isinstance(val, dict)):
                        probs.append(f'returns module-level mutable object {ra[7:]}')
        yield Ob(f'{fi.name}: shared-state leaks', not probs, fi.name, fi.node.lineno, '; '.join(probs) or 'none', 'none', True)
    for m, tree in fx.forest.trees.items():
        for cls in [n for n in ast.walk(tree) if isinstance(n, ast.ClassDef)]:
            bad = []
            for st in cls.body:
                if isinstance(st, ast.Assign) and isinstance(st.value, (ast.List, ast.Dict, ast.Set)) and \
                        not any(isinstance(t, ast.Name) and t.id == '__slots__' for t in st.targets):
                    bad.append(ast.unparse(st)[:50])
            yield Ob(f'{m}.{cls.name}: class-level mutable attributes', not bad, f'{m}.{cls.name}', cls.lineno, bad, [], True)


@rule('C15', 'R6', 3, 're-encoding with the reported version/level/mask takes the same path: padding uses the boosted level; one mask applicator')
def r6(fx):
    for o in p13.r6(fx):
        if 'capacity' in o.key:
            yield o
    # the requested and the automatic path mask with the same predicate table and the same region predicate: a symbol made with the
    # automatically chosen pattern number given explicitly is the same symbol
    from . import p06
    from ..interp import Interp, FuncVal
    fn = fx.fn('encoder', 'find_and_apply_best_mask')
    it = Interp(max_steps=20_000_000)
    diff = []
    for micro in (False, True):
        n = 11 if micro else 21
        seen = {}
        for requested in (None, 2):
            log = []
            genv, tag_of = p06._selection_env(fx, it, [1, 2, 9, 3] if micro else [9, 8, 1, 7, 6, 5, 4, 3], micro, log)
            regions = []
            inner = genv['apply_mask']

            def apply_mask(matrix, mask_pattern, width, height, is_encoding_region, inner=inner, regions=regions, n=n):
                regions.append((mask_pattern.k, width, height, tuple(bool(is_encoding_region(i, j)) for i in range(n) for j in range(n))))
                return inner(matrix, mask_pattern, width, height, is_encoding_region)
            from .. import refsig
            genv['apply_mask'] = refsig.tolerant(fx.forest, 'encoder', 'apply_mask', apply_mask)
            res = FuncVal(fn, genv, it)(genv['make_matrix'](n, n), n, n, requested)
            seen[requested] = (res[0] if isinstance(res, tuple) else res, [r for r in regions if r[0] == 2])
        auto, req = seen[None], seen[2]
        if auto[0] != 2 or req[0] != 2 or not auto[1] or not req[1] or any(r != req[1][0] for r in auto[1] + req[1]):
            diff.append(('Micro' if micro else 'QR', auto[0], req[0], len(auto[1]), len(req[1])))
    yield ob('requested and automatic path use the same apply_mask with predicates from the same table', not diff, fn, got=diff or 'same predicate, same region',
             want='pattern 2 chosen automatically and pattern 2 requested: masked with the same predicate over the same encoding region')


@rule('C15', 'R7', 3, 're-encoding with the automatically chosen mask requested explicitly reproduces the symbol; a requested mask is applied with the patterns of the symbol kind (C06.R10); with boosting disabled the level is passed through (C05.R5)')
def r7(fx):
    from . import p06, p05
    for o in p06.assembled_symbols(fx):
        if 'reproduces the symbol' in o.key or 'M4' in o.key or 'version 1-' in o.key:
            yield o
    # ... and with boosting disabled the level handed on is the level given (none for M1): the reported level can be requested again
    for o in p05.r5(fx):
        if 'boost=False' in o.key:
            yield o


@rule('C15', 'R8', 4, 'equal arguments carried by distinct objects give the same segments: add_segment merges parts by the value of mode and encoding, not by object identity')
def r8(fx):
    from .common import modes
    from .models import SegModel, encoder_env
    from ..interp import Interp, FuncVal
    fn = fx.fn('encoder', 'Segments.add_segment')
    md = modes(fx)
    it = Interp()

    def seg_ctor(bits, char_count, mode, encoding=None):
        return tuple.__new__(SegModel, (list(bits), char_count, mode, encoding))
    genv = encoder_env(fx.forest, it, _Segment=seg_ctor)
    add = FuncVal(fn, genv, it)

    class Self:
        _model = ('segments', 'bit_length', 'modes')

        def __init__(self):
            self.segments, self.bit_length, self.modes = [], 0, []

    def fresh(x):
        # an equal value in an object of its own (what a caller gets from a parser, a split or a decode)
        if isinstance(x, str):
            return ''.join(list(x)) if len(x) > 1 else x
        return x
    for title, mode, enc in (('byte parts with encoding "utf-8"', md['byte'], 'utf-8'), ('byte parts with encoding "iso-8859-15"', md['byte'], 'iso-8859-15'),
                             ('byte parts without encoding', md['byte'], None), ('kanji parts', md['kanji'], None)):
        shapes = []
        for distinct in (False, True):
            me = Self()
            e1, e2 = enc, (fresh(enc) if distinct else enc)
            add(me, tuple.__new__(SegModel, ([1] * 16, 2, mode, e1)))
            add(me, tuple.__new__(SegModel, ([0] * 8, 1, mode, e2)))
            shapes.append([(len(s.bits), s.char_count, s.mode, s.encoding) for s in me.segments])
        yield ob(f'two {title}: the same segments whether the two encodings are one object or two equal objects', shapes[0] == shapes[1], fn,
                 got=shapes[1], want=shapes[0])


def stateless(fx, prop):
    """Shared rule: the functions a property is anchored in, and everything they call, keep no state between calls:
    no write to a module-level object (directly, through an alias or a callee), no memoised results, no mutable
    default argument.  A cache, a reused work buffer or a lazily filled table makes the result of a call depend on
    earlier (or concurrent) calls, which breaks 'for every input' properties for particular call histories only."""
    from ..anchors import ANCHORS
    P = eff.program(fx.forest)
    fn_anchor, _ = ANCHORS[prop]
    roots = []
    for (m, q), fi in P.fns.items():
        pre = fn_anchor.get(m, [])
        if any(q == p_ or q.startswith(p_ + '.') for p_ in pre):
            roots.append((m, q))
    need(roots, f'no anchor function of {prop} found')
    reach = P.reachable(roots)
    for k in sorted(reach):
        fi = P.fns[k]
        if k[0] == 'cli' and k[1] in ('make_code', '_AttrDict.__init__'):
            continue
        probs = []
        for g, ents in fi.mut_globals.items():
            probs.append(f'writes module-level object {g} (line {ents[0][0]}: {ents[0][1]})')
        m = _memoised(fi.node)
        if m:
            probs.append(f'results cached by @{m}')
        md = _mutable_defaults(fi.node)
        if md:
            probs.append(f'mutable default argument(s) {md}')
        for n in src.walk_local(fi.node):
            if isinstance(n, ast.Compare) and any(isinstance(o, (ast.Is, ast.IsNot)) for o in n.ops):
                for side in [n.left] + list(n.comparators):
                    val = _value_of(fx, k[0], side)
                    if isinstance(val, (str, bytes, float, tuple, frozenset)) or (isinstance(val, int) and not isinstance(val, bool) and not -5 <= val <= 256):
                        probs.append(f'identity test against the value {val!r:.30} (the outcome depends on which object is passed, not on its value): `{ast.unparse(n)[:60]}` at line {n.lineno}')
                        break
        yield Ob(f'{fi.name}: keeps no state between calls', not probs, fi.name, fi.node.lineno, '; '.join(probs) or 'stateless', 'stateless', True)
