"""Rules for C15 (see DESIGN.md section 5)."""
