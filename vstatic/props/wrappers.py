"""Forwarding of the public factory parameters (segno.make / make_qr / make_micro / make_sequence)
to encoder.encode / encode_sequence.  Shared by several properties, each claims its own parameters."""
import ast

from .. import src
from ..core import ob
from ..src import Unknown
from .common import need, single

# wrapper -> (callee dotted name, constants the wrapper is allowed/required to pin)
WRAPPERS = {
    'make': ('encoder.encode', {}),
    'make_qr': ('make', {'micro': False}),
    'make_micro': ('make', {'micro': True}),
    'make_sequence': ('encoder.encode_sequence', {}),
}
CALLEE_FN = {'encoder.encode': ('encoder', 'encode'), 'make': ('__init__', 'make'),
             'encoder.encode_sequence': ('encoder', 'encode_sequence')}


def forwarding(fx, wanted):
    """Obligations: every parameter p in `wanted` that wrapper W has is passed to the same-named parameter
    of its callee, unchanged; and the wrapper's default for p equals the callee's default."""
    for w, (callee, pinned) in WRAPPERS.items():
        fn = fx.fn('__init__', w)
        ret = single([s for s in fn.body if isinstance(s, ast.Return)], f'return in {w}')
        calls = [c for c in ast.walk(ret.value) if isinstance(c, ast.Call) and src.call_name(c) == callee]
        call = single(calls, f'call of {callee} in {w}')
        cfn = fx.fn(*CALLEE_FN[callee])
        cparams = src.params(cfn)
        bound = {}
        for i, a in enumerate(call.args):
            if isinstance(a, ast.Starred):
                raise Unknown(f'{w}: starred argument')
            bound[cparams[i]] = a
        for k in call.keywords:
            if k.arg is None:
                raise Unknown(f'{w}: **kwargs forwarding')
            bound[k.arg] = k.value
        wdef, cdef = src.param_defaults(fn), src.param_defaults(cfn)
        for p in src.params(fn):
            if p not in wanted:
                continue
            got = bound.get(p)
            ok = isinstance(got, ast.Name) and got.id == p
            yield ob(f'{w}({p}) -> {callee}({p})', ok, call, got=f'{p}={ast.unparse(got)}' if got is not None else f'{p} not passed',
                     want=f'{p}={p}')
            if p in wdef or p in cdef:
                a, b = wdef.get(p), cdef.get(p)
                same = a is not None and b is not None and ast.unparse(a) == ast.unparse(b)
                yield ob(f'{w}: default of {p} = default of {callee}', same, fn,
                         got=f'{ast.unparse(a) if a is not None else "required"} vs {ast.unparse(b) if b is not None else "required"}',
                         want='equal defaults')
        for p, val in pinned.items():
            if p in wanted:
                got = bound.get(p)
                ok = isinstance(got, ast.Constant) and got.value is val
                yield ob(f'{w} pins {p}={val}', ok, call, got=ast.unparse(got) if got is not None else 'not passed', want=repr(val))
    # QRCode wraps the encoder result unchanged
    if 'content' in wanted:
        for w in ('make',):
            fn = fx.fn('__init__', w)
            ret = single([s for s in fn.body if isinstance(s, ast.Return)], f'return in {w}')
            ok = isinstance(ret.value, ast.Call) and src.call_name(ret.value) == 'QRCode' and len(ret.value.args) == 1
            yield ob('make returns QRCode(encoder.encode(...))', ok, ret, got=ast.unparse(ret.value)[:60], want='QRCode(encoder.encode(...))')
        fn = fx.fn('__init__', 'make_sequence')
        ret = single([s for s in fn.body if isinstance(s, ast.Return)], 'return in make_sequence')
        txt = ast.unparse(ret.value)
        yield ob('make_sequence returns QRCodeSequence(map(QRCode, encoder.encode_sequence(...)))',
                 txt.startswith('QRCodeSequence(map(QRCode, encoder.encode_sequence('), ret, got=txt[:70],
                 want='QRCodeSequence(map(QRCode, encoder.encode_sequence(...)))')
