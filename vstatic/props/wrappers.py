"""Forwarding of the public factory parameters (segno.make / make_qr / make_micro / make_sequence)
to encoder.encode / encode_sequence.  Shared by several properties, each claims its own parameters."""
import ast

from .. import src
from ..core import ob
from ..src import Unknown
from .common import need, single

# wrapper -> (callee dotted name, constants the wrapper is allowed/required to pin)
WRAPPERS = {
    'make': ('encoder.encode', {}),
    'make_qr': ('make', {'micro': False}),
    'make_micro': ('make', {'micro': True}),
    'make_sequence': ('encoder.encode_sequence', {}),
}
CALLEE_FN = {'encoder.encode': ('encoder', 'encode'), 'make': ('__init__', 'make'),
             'encoder.encode_sequence': ('encoder', 'encode_sequence')}


def _bind_call(cfn, args, kwargs):
    """{parameter name: value} of a call of `cfn` with positional `args` and keyword `kwargs`."""
    cparams = src.params(cfn)
    if len(args) > len(cparams) or set(kwargs) - set(cparams):
        raise Unknown(f'call of {cfn.name} does not fit its signature')
    bound = dict(zip(cparams, args))
    for k, v in kwargs.items():
        if k in bound:
            raise Unknown(f'{cfn.name}: parameter {k} passed twice')
        bound[k] = v
    return bound


class _Sent(str):
    """A parameter value that stands for "whatever the caller passed as <name>"."""


def run_wrapper(fx, w):
    """Interpret the public factory `w` with every parameter set to a marker of its own; returns (what the encoder entry point
    received per parameter, entry point name, the value returned)."""
    from .. import ev
    from ..interp import Interp, FuncVal, callable_env
    it = Interp()
    rec = []

    def entry(name):
        cfn = fx.fn('encoder', name)

        def f(*a, **k):
            rec.append((name, _bind_call(cfn, a, k)))
            return [('CODE', 0), ('CODE', 1)] if name == 'encode_sequence' else ('CODE',)
        return f
    genv = callable_env(fx.forest, '__init__', it, {
        'encoder': ev.Namespace('encoder', {'encode': entry('encode'), 'encode_sequence': entry('encode_sequence')}),
        'QRCode': lambda code: ('QRCode', code), 'QRCodeSequence': lambda codes: ('QRCodeSequence', tuple(codes))})
    fn = fx.fn('__init__', w)
    args = {p: _Sent(f'<{p}>') for p in src.params(fn)}
    res = FuncVal(fn, genv, it)(**args)
    if len(rec) != 1:
        raise Unknown(f'{w}: {len(rec)} calls of the encoder entry points, expected one')
    return rec[0][1], rec[0][0], res


def forwarding(fx, wanted):
    """Obligations: every parameter p in `wanted` that the public factory W has reaches the same-named parameter of the
    encoder entry point unchanged (W is interpreted with a marker per parameter and a recording entry point); the factory's
    default for p equals the entry point's default; make_qr / make_micro pin micro."""
    from .. import ev
    for w, (callee, pinned) in WRAPPERS.items():
        fn = fx.fn('__init__', w)
        got, entry_name, res = run_wrapper(fx, w)
        cfn = fx.fn('encoder', entry_name)
        wdef, cdef = src.param_defaults(fn), src.param_defaults(cfn)
        env = ev.base_env(fx.forest, '__init__')
        cenv = ev.base_env(fx.forest, 'encoder')
        for p in src.params(fn):
            if p not in wanted:
                continue
            v = got.get(p, '<not passed>')
            ok = isinstance(v, _Sent) and v == f'<{p}>'
            yield ob(f'{w}({p}) -> encoder.{entry_name}({p})', ok, fn, got=f'{p}={v}', want=f'{p}=<{p}>')
            if p in wdef or p in cdef:
                a, b = wdef.get(p), cdef.get(p)
                same = a is not None and b is not None and (ast.unparse(a) == ast.unparse(b) or ev.ev(a, env) == ev.ev(b, cenv))
                yield ob(f'{w}: default of {p} = default of encoder.{entry_name}', same, fn,
                         got=f'{ast.unparse(a) if a is not None else "required"} vs {ast.unparse(b) if b is not None else "required"}',
                         want='equal defaults')
        for p, val in pinned.items():
            if p in wanted:
                v = got.get(p, '<not passed>')
                yield ob(f'{w} pins {p}={val}', v is val, fn, got=repr(v), want=repr(val))
        if 'content' in wanted and w == 'make':
            yield ob('make returns QRCode(encoder.encode(...))', res == ('QRCode', ('CODE',)), fn, got=repr(res)[:60], want='QRCode(<what encode returned>)')
        if 'content' in wanted and w == 'make_sequence':
            yield ob('make_sequence returns QRCodeSequence(map(QRCode, encoder.encode_sequence(...)))',
                     res == ('QRCodeSequence', (('QRCode', ('CODE', 0)), ('QRCode', ('CODE', 1)))), fn, got=repr(res)[:90],
                     want='QRCodeSequence of one QRCode per code, in order')
