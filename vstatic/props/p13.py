"""C13 -- terminator, padding bits, pad codewords, M1/M3 tail, remainder bits, call order."""
import ast

from .. import ev, iso, nf, pat, src
from ..core import rule, ob, explain
from ..interp import Interp, make_callable, Raised
from ..src import Unknown
from .common import C, levels, micro_versions, table_ob, need, single

explain('C13', '''Decided completely for the four helpers, which are pure integer arithmetic on (version,
capacity, length) and never see user data: the terminator count equals min(capacity-length, T) with T the ISO
table; the number of zero bits added to reach the codeword boundary is evaluated for every residue; the pad
codeword literals, their alternation and count; the M1/M3 filling (zero bits to the boundary, alternating pad
codewords, final 4-bit codeword 0000) for every length 0..capacity of the three M1/M3 capacities; the order and
arguments of the three calls in _encode. The helpers are evaluated by the abstract interpreter on a recording
buffer over their complete (capacity, length) domain - a finite truth table of data-independent code.
NOT decided: nothing content-dependent is involved; that the segments themselves are right is C01.''')


class Buf:
    """Recording stand-in for encoder.Buffer (only what the pad helpers use)."""
    _model = ('extend',)

    def __init__(self, n=0):
        self.bits = [7] * n     # 7 = 'some earlier bit', never inspected

    def extend(self, it):
        self.bits.extend(list(it))

    def __len__(self):
        return len(self.bits)


def _run(fx, name, *args):
    it = Interp(max_steps=60_000)     # the helpers are a few dozen steps on this domain; a runaway loop is UNKNOWN, not a hang
    f = make_callable(fx.forest, 'encoder', name, it)
    return f(*args)


def _capacities(fx):
    """{iso version: sorted set of capacities of that version}"""
    cap = C(fx, 'SYMBOL_CAPACITY')
    mv = micro_versions(fx)
    out = {}
    for v in iso.ALL_VERSIONS:
        row = cap.get(mv[v] if v < 1 else v)
        need(row, f'SYMBOL_CAPACITY has no row for version {v}')
        out[v] = sorted(set(row.values()))
    return out


@rule('C13', 'R1', 49, 'terminator = min(capacity - length, T[version]) zero bits; T = 4 / 3,5,7,9')
def r1(fx):
    mv = micro_versions(fx)
    t = C(fx, 'TERMINATOR_LENGTH')
    for k, want in iso.TERMINATOR.items():
        yield table_ob(fx, 'TERMINATOR_LENGTH', k, t.get(None if k is None else mv[k]), want)
    fn = fx.fn('encoder', 'write_terminator')
    caps = _capacities(fx)
    for v in iso.ALL_VERSIONS:
        ver = None if v >= 1 else mv[v]
        bad = None
        n = 0
        for cap in caps[v]:
            for dist in range(0, 14):
                if cap - dist < 0:
                    continue
                b = Buf(cap - dist)
                _run(fx, 'write_terminator', b, cap, ver, len(b))
                got = b.bits[cap - dist:]
                n += 1
                want = [0] * min(dist, iso.TERMINATOR[None if v >= 1 else v])
                if got != want and bad is None:
                    bad = (cap, cap - dist, got, want)
        yield ob(f'terminator v{v} ({n} (capacity, length) pairs)', bad is None, fn,
                 got=f'capacity={bad[0]} length={bad[1]}: {bad[2]}' if bad else 'min(capacity-length, T) zeros',
                 want=f'{bad[3]}' if bad else 'min(capacity-length, T) zeros')


@rule('C13', 'R2', 8, 'padding bits: zeros up to the next codeword boundary, none if already aligned (not M1/M3)')
def r2(fx):
    fn = fx.fn('encoder', 'write_padding_bits')
    mv = micro_versions(fx)
    for res in range(8):
        bad = None
        for v in (1, 7, 40, -2, 0):
            for base in (0, 8, 64):
                ln = base + res
                b = Buf(ln)
                _run(fx, 'write_padding_bits', b, mv[v] if v < 1 else v, len(b))
                got = b.bits[ln:]
                want = [0] * (-ln % 8)
                if got != want and bad is None:
                    bad = (v, ln, got, want)
        yield ob(f'pad bits, length = {res} mod 8', bad is None, fn,
                 got=f'v{bad[0]} length={bad[1]}: {len(bad[2])} bit(s) {bad[2]}' if bad else f'{-res % 8} zero bit(s)',
                 want=f'{len(bad[3])} zero bit(s)' if bad else f'{-res % 8} zero bit(s)')


PADS = ([1, 1, 1, 0, 1, 1, 0, 0], [0, 0, 0, 1, 0, 0, 0, 1])


@rule('C13', 'R3', 41, 'pad codewords 11101100 / 00010001 alternately from the first, up to the data capacity')
def r3(fx):
    fn = fx.fn('encoder', 'write_pad_codewords')
    mv = micro_versions(fx)
    caps = _capacities(fx)
    # literal occurs in the function
    lits = [n for n in src.walk_local(fn) if isinstance(n, ast.Tuple) and all(isinstance(e, ast.Tuple) for e in n.elts)
            and len(n.elts) == 2]
    lit = single(lits, 'pad codeword literal (tuple of two tuples)')
    val = ev.ev(lit, {})
    yield ob('pad codeword literals', [list(x) for x in val] == [PADS[0], PADS[1]], lit, got=val, want=PADS)
    for v in iso.ALL_VERSIONS:
        if v in (-3, -1):
            continue
        bad = None
        n = 0
        for cap in caps[v]:
            for k in range(0, min(cap // 8, 6) + 1):
                ln = cap - 8 * k       # aligned stream, k codewords short of the capacity
                b = Buf(ln)
                _run(fx, 'write_pad_codewords', b, mv[v] if v < 1 else v, cap, len(b))
                got = b.bits[ln:]
                want = []
                for i in range(k):
                    want += PADS[i % 2]
                n += 1
                if got != want and bad is None:
                    bad = (cap, ln, got, want)
        yield ob(f'pad codewords v{v} ({n} cases)', bad is None, fn,
                 got=f'capacity={bad[0]} length={bad[1]}: {bad[2]}' if bad else 'alternating pad codewords up to capacity',
                 want=f'{bad[3]}' if bad else 'alternating pad codewords up to capacity')


def _m13_reference(cap, ln):
    bits = []
    cur = ln
    while cur % 8 and cur < cap:
        bits.append(0)
        cur += 1
    i = 0
    while cap - cur >= 8:
        bits += PADS[i % 2]
        i += 1
        cur += 8
    bits += [0] * (cap - cur)
    return bits


@rule('C13', 'R4', 3, 'M1/M3: zero bits to the boundary, alternating pad codewords, final 4-bit codeword 0000')
def r4(fx):
    fn = fx.fn('encoder', 'write_pad_codewords')
    mv = micro_versions(fx)
    caps = _capacities(fx)
    for v in (-3, -1):
        for cap in caps[v]:
            bad = None
            for ln in range(0, cap + 1):
                b = Buf(ln)
                # the two helpers are applied in this order by _encode (R6); the first is a no-op for M1/M3
                _run(fx, 'write_padding_bits', b, mv[v], len(b))
                _run(fx, 'write_pad_codewords', b, mv[v], cap, len(b))
                got = b.bits[ln:]
                want = _m13_reference(cap, ln)
                if got != want and bad is None:
                    bad = (ln, got, want)
            yield ob(f'M1/M3 fill v{v} capacity {cap} (lengths 0..{cap})', bad is None, fn,
                     got=f'length={bad[0]}: {"".join(map(str, bad[1]))}' if bad else 'ISO 7.4.10 fill',
                     want=f'{"".join(map(str, bad[2]))}' if bad else 'ISO 7.4.10 fill')


@rule('C13', 'R6', 5, '_encode: terminator, padding bits, pad codewords in this order, fresh len(buff), capacity of the final level')
def r6(fx):
    fn = fx.fn('encoder', '_encode')
    calls = {}
    order = []
    for st in fn.body:
        if isinstance(st, ast.Expr) and isinstance(st.value, ast.Call):
            nm = src.call_name(st.value)
            if nm in ('write_terminator', 'write_padding_bits', 'write_pad_codewords'):
                calls[nm] = st.value
                order.append(nm)
    yield ob('call order', order == ['write_terminator', 'write_padding_bits', 'write_pad_codewords'], fn, got=order,
             want=['write_terminator', 'write_padding_bits', 'write_pad_codewords'])
    need(len(order) == 3 and len(set(order)) == 3, 'the three pad helpers are not called exactly once at top level of _encode')
    b1 = pat.need(calls['write_terminator'], 'write_terminator(buff, H_cap, H_ver, H_len)', 'write_terminator call')
    b2 = pat.need(calls['write_padding_bits'], 'write_padding_bits(buff, H_version, H_len)', 'write_padding_bits call')
    b3 = pat.need(calls['write_pad_codewords'], 'write_pad_codewords(buff, H_version, H_cap, H_len)', 'write_pad_codewords call')
    yield ob('each helper gets the current length', all(pat.slot(b['len'], ['len(buff)'], 'length argument') for b in (b1, b2, b3)),
             fn, got=[ast.unparse(b['len']) for b in (b1, b2, b3)], want='len(buff)')
    yield ob('version arguments', pat.slot(b1['ver'], ['ver'], 'ver') and pat.slot(b2['version'], ['version'], 'version')
             and pat.slot(b3['version'], ['version'], 'version'), fn,
             got=[ast.unparse(b1['ver']), ast.unparse(b2['version']), ast.unparse(b3['version'])], want="['ver', 'version', 'version']")
    # capacity: SYMBOL_CAPACITY[version][error] read after the boost
    cap_assign = [s for s in fn.body if isinstance(s, ast.Assign) and ast.unparse(s.targets[0]) == 'capacity']
    ca = single(cap_assign, 'assignment of capacity in _encode')
    pat.need(ca.value, 'consts.SYMBOL_CAPACITY[H_v][H_e]', 'capacity lookup')
    bb = pat.match(ca.value, 'consts.SYMBOL_CAPACITY[H_v][H_e]')
    okc = pat.slot(bb['v'], ['version'], 'capacity version') and pat.slot(bb['e'], ['error'], 'capacity level') \
        and pat.slot(b1['cap'], ['capacity'], 'cap') and pat.slot(b3['cap'], ['capacity'], 'cap')
    yield ob('capacity = SYMBOL_CAPACITY[version][error] passed to both', okc, ca, got=ast.unparse(ca.value),
             want='consts.SYMBOL_CAPACITY[version][error]')
    boost = [s for s in fn.body if isinstance(s, ast.If) and ast.unparse(s.test) == 'boost_error']
    b = single(boost, '`if boost_error:` in _encode')
    idx = fn.body.index
    yield ob('capacity is read after the level was boosted', idx(b) < idx(ca) < idx(next(s for s in fn.body if isinstance(s, ast.Expr) and isinstance(s.value, ast.Call) and src.call_name(s.value) == 'write_terminator')),
             ca, got=f'boost at line {b.lineno}, capacity at line {ca.lineno}', want='boost < capacity < terminator')
