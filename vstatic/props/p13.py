"""Rules for C13 (see DESIGN.md section 5)."""
