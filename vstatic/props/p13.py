"""C13 -- terminator, padding bits, pad codewords, M1/M3 tail, remainder bits, call order."""
import ast

from .. import ev, iso, nf, pat, src
from ..core import rule, ob, explain
from ..interp import Interp, make_callable, Raised
from ..src import Unknown
from ..ev import PyRaise
from .common import C, levels, micro_versions, modes, table_ob, need, single

explain('C13', '''Decided completely for the four helpers, which are pure integer arithmetic on (version,
capacity, length) and never see user data: the terminator count equals min(capacity-length, T) with T the ISO
table; the number of zero bits added to reach the codeword boundary is evaluated for every residue; the pad
codeword literals, their alternation and count; the M1/M3 filling (zero bits to the boundary, alternating pad
codewords, final 4-bit codeword 0000) for every length 0..capacity of the three M1/M3 capacities; the order and
arguments of the three calls in _encode. The helpers are evaluated by the abstract interpreter on a recording
buffer over their complete (capacity, length) domain - a finite truth table of data-independent code.
NOT decided: nothing content-dependent is involved; that the segments themselves are right is C01.''')


class Buf:
    """Recording stand-in for encoder.Buffer (only what the pad helpers use)."""
    _model = ('extend', 'append_bits', 'getbits')

    def __init__(self, n=0):
        self.bits = [7] * n     # 7 = 'some earlier bit', never inspected

    def extend(self, it):
        self.bits.extend(list(it))

    def append_bits(self, val, length):
        if not isinstance(val, int) or isinstance(val, bool) or not isinstance(length, int):
            raise Unknown('append_bits with a non-constant value or width')
        self.bits.extend((val >> i) & 1 for i in reversed(range(length)))

    def getbits(self):
        return self.bits

    def __len__(self):
        return len(self.bits)


def _run(fx, name, *args):
    it = Interp(max_steps=60_000)     # the helpers are a few dozen steps on this domain; a runaway loop is UNKNOWN, not a hang
    f = make_callable(fx.forest, 'encoder', name, it)
    return f(*args)


def _capacities(fx):
    """{iso version: sorted set of capacities of that version}"""
    cap = C(fx, 'SYMBOL_CAPACITY')
    mv = micro_versions(fx)
    out = {}
    for v in iso.ALL_VERSIONS:
        row = cap.get(mv[v] if v < 1 else v)
        need(row, f'SYMBOL_CAPACITY has no row for version {v}')
        out[v] = sorted(set(row.values()))
    return out


@rule('C13', 'R1', 49, 'terminator = min(capacity - length, T[version]) zero bits; T = 4 / 3,5,7,9')
def r1(fx):
    mv = micro_versions(fx)
    t = C(fx, 'TERMINATOR_LENGTH')
    for k, want in iso.TERMINATOR.items():
        yield table_ob(fx, 'TERMINATOR_LENGTH', k, t.get(None if k is None else mv[k]), want)
    fn = fx.fn('encoder', 'write_terminator')
    caps = _capacities(fx)
    for v in iso.ALL_VERSIONS:
        ver = None if v >= 1 else mv[v]
        bad = None
        n = 0
        for cap in caps[v]:
            for dist in range(0, 14):
                if cap - dist < 0:
                    continue
                b = Buf(cap - dist)
                _run(fx, 'write_terminator', b, cap, ver, len(b))
                got = b.bits[cap - dist:]
                n += 1
                want = [0] * min(dist, iso.TERMINATOR[None if v >= 1 else v])
                if got != want and bad is None:
                    bad = (cap, cap - dist, got, want)
        yield ob(f'terminator v{v} ({n} (capacity, length) pairs)', bad is None, fn,
                 got=f'capacity={bad[0]} length={bad[1]}: {bad[2]}' if bad else 'min(capacity-length, T) zeros',
                 want=f'{bad[3]}' if bad else 'min(capacity-length, T) zeros')


@rule('C13', 'R2', 8, 'padding bits: zeros up to the next codeword boundary, none if already aligned (not M1/M3)')
def r2(fx):
    fn = fx.fn('encoder', 'write_padding_bits')
    mv = micro_versions(fx)
    for res in range(8):
        bad = None
        for v in (1, 7, 40, -2, 0):
            for base in (0, 8, 64):
                ln = base + res
                b = Buf(ln)
                _run(fx, 'write_padding_bits', b, mv[v] if v < 1 else v, len(b))
                got = b.bits[ln:]
                want = [0] * (-ln % 8)
                if got != want and bad is None:
                    bad = (v, ln, got, want)
        yield ob(f'pad bits, length = {res} mod 8', bad is None, fn,
                 got=f'v{bad[0]} length={bad[1]}: {len(bad[2])} bit(s) {bad[2]}' if bad else f'{-res % 8} zero bit(s)',
                 want=f'{len(bad[3])} zero bit(s)' if bad else f'{-res % 8} zero bit(s)')


PADS = ([1, 1, 1, 0, 1, 1, 0, 0], [0, 0, 0, 1, 0, 0, 0, 1])


@rule('C13', 'R3', 40, 'pad codewords 11101100 / 00010001 alternately from the first, up to the data capacity')
def r3(fx):
    fn = fx.fn('encoder', 'write_pad_codewords')
    mv = micro_versions(fx)
    caps = _capacities(fx)
    for v in iso.ALL_VERSIONS:
        if v in (-3, -1):
            continue
        bad = None
        n = 0
        for cap in caps[v]:
            # near the capacity (0..6 codewords short) and near the empty stream (all, or all but one / two codewords are padding)
            for k in sorted(set(range(0, min(cap // 8, 6) + 1)) | {max(cap // 8 - j, 0) for j in (0, 1, 2)}):
                ln = cap - 8 * k       # aligned stream, k codewords short of the capacity
                b = Buf(ln)
                _run(fx, 'write_pad_codewords', b, mv[v] if v < 1 else v, cap, len(b))
                got = b.bits[ln:]
                want = []
                for i in range(k):
                    want += PADS[i % 2]
                n += 1
                if got != want and bad is None:
                    bad = (cap, ln, got, want)
        yield ob(f'pad codewords v{v} ({n} cases)', bad is None, fn,
                 got=f'capacity={bad[0]} length={bad[1]}: {bad[2]}' if bad else 'alternating pad codewords up to capacity',
                 want=f'{bad[3]}' if bad else 'alternating pad codewords up to capacity')


def _m13_reference(cap, ln):
    bits = []
    cur = ln
    while cur % 8 and cur < cap:
        bits.append(0)
        cur += 1
    i = 0
    while cap - cur >= 8:
        bits += PADS[i % 2]
        i += 1
        cur += 8
    bits += [0] * (cap - cur)
    return bits


@rule('C13', 'R4', 3, 'M1/M3: zero bits to the boundary, alternating pad codewords, final 4-bit codeword 0000')
def r4(fx):
    fn = fx.fn('encoder', 'write_pad_codewords')
    mv = micro_versions(fx)
    caps = _capacities(fx)
    for v in (-3, -1):
        for cap in caps[v]:
            bad = None
            for ln in range(0, cap + 1):
                b = Buf(ln)
                # the two helpers are applied in this order by _encode (R6); the first is a no-op for M1/M3
                _run(fx, 'write_padding_bits', b, mv[v], len(b))
                _run(fx, 'write_pad_codewords', b, mv[v], cap, len(b))
                got = b.bits[ln:]
                want = _m13_reference(cap, ln)
                if got != want and bad is None:
                    bad = (ln, got, want)
            yield ob(f'M1/M3 fill v{v} capacity {cap} (lengths 0..{cap})', bad is None, fn,
                     got=f'length={bad[0]}: {"".join(map(str, bad[1]))}' if bad else 'ISO 7.4.10 fill',
                     want=f'{"".join(map(str, bad[2]))}' if bad else 'ISO 7.4.10 fill')


@rule('C13', 'R6', 8, '_encode: terminator, padding bits, pad codewords in this order on the one bit buffer, each with its current length, capacity of the final (boosted) level')
def r6(fx):
    """_encode is interpreted with recording stand-ins for all its stages (models.trace_encode)."""
    from .models import trace_encode
    fn = fx.fn('encoder', '_encode')
    lv, mv = levels(fx), micro_versions(fx)
    cap = C(fx, 'SYMBOL_CAPACITY')
    from .models import SegModel, SegmentsModel, SAModel
    md = modes(fx)
    writers_ = ('write_segment', 'write_terminator', 'write_padding_bits', 'write_pad_codewords')
    cases = [(v_, l_, b_, None) for v_, l_, b_ in ((5, 'L', 'Q'), (-2, 'L', 'M'), (-3, None, None), (1, 'M', 'M'))]
    from .models import stage_policy, BUFFER_STAGES
    real_stages = False
    if any(stage_policy(fx, n_) == 'real' for n_ in BUFFER_STAGES):
        # the stages hand something back that _encode uses (a running length, say): the stand-ins, which return nothing, cannot
        # take their place.  The repository's own stages then run on the model buffer, for segments of every mode (with and
        # without ECI header, with the Structured Append header), and the length each stage is told is compared with the
        # length the buffer really has.
        real_stages = True
        cases += [(5, 'L', 'Q', k_) for k_ in ('hanzi', 'kanji', 'numeric', 'alphanumeric', 'byte utf-8 eci', 'byte utf-8', 'sa', 'two segments')] + [(-1, 'L', 'M', 'kanji')]
    for v, level, boosted, kind in cases:
        rv = mv[v] if v < 1 else v
        kw = {}
        if real_stages:
            kw = dict(run_real=writers_, real_write_segment=True)
            segs = [SegModel(md['byte'], 'iso-8859-1', nbits=24, char_count=3)]
            if v in (-3, -2):       # M1 / M2 know no byte mode
                segs = [SegModel(md['numeric'], None, nbits=10, char_count=3)]
            if kind in ('hanzi', 'kanji'):
                segs = [SegModel(md[kind], None, nbits=26, char_count=2)]
            elif kind in ('numeric', 'alphanumeric'):
                segs = [SegModel(md[kind], None, nbits=10 if kind == 'numeric' else 11, char_count=3 if kind == 'numeric' else 2)]
            elif kind and kind.startswith('byte utf-8'):
                segs = [SegModel(md['byte'], 'utf-8', nbits=16, char_count=2)]
                kw['eci'] = kind.endswith('eci')
            elif kind == 'two segments':
                segs = [SegModel(md['numeric'], None, nbits=10, char_count=3), SegModel(md['byte'], 'iso-8859-1', nbits=8, char_count=1)]
            if kind == 'sa':
                kw['sa_info'] = SAModel((3, 1, 2, 0x5A))
            kw['segments'] = SegmentsModel(segs)
        rec, res, info = trace_encode(fx, rv, level, boosted, **kw)
        names = [r[0] for r in rec if r[0] in ('boost_error_level', 'write_terminator', 'write_padding_bits', 'write_pad_codewords', 'make_final_message')]
        by = {r[0]: r for r in rec}
        tag = f'v{v} level {level} boosted to {boosted}' + (f' ({kind})' if kind else '')
        want_order = ['boost_error_level', 'write_terminator', 'write_padding_bits', 'write_pad_codewords', 'make_final_message']
        probs = []
        if names != want_order:
            probs.append(f'call order {names}')
        else:
            t, pb, pc, fin = by['write_terminator'], by['write_padding_bits'], by['write_pad_codewords'], by['make_final_message']
            buf = info['buffers'][0] if len(info['buffers']) == 1 else None
            if buf is None or not (t[1][0] is buf and pb[1][0] is buf and pc[1][0] is buf and fin[1][2] is buf):
                probs.append('the helpers do not all work on the one bit buffer that becomes the final message')
            want_cap = cap[rv][None if boosted is None else lv[boosted]]
            ver_t = None if v >= 1 else rv
            if tuple(t[1][1:]) != (want_cap, ver_t, t[3]):
                probs.append(f'write_terminator(capacity, ver, length) = {t[1][1:]}, expected ({want_cap}, {ver_t}, {t[3]})')
            if tuple(pb[1][1:]) != (rv, pb[3]):
                probs.append(f'write_padding_bits(version, length) = {pb[1][1:]}, expected ({rv}, {pb[3]})')
            if tuple(pc[1][1:]) != (rv, want_cap, pc[3]):
                probs.append(f'write_pad_codewords(version, capacity, length) = {pc[1][1:]}, expected ({rv}, {want_cap}, {pc[3]})')
            if tuple(fin[1][:2]) != (rv, None if boosted is None else lv[boosted]):
                probs.append(f'final message built for (version, level) = {fin[1][:2]}')
        yield ob(f'{tag}: order, buffer, current lengths', not [p_ for p_ in probs if 'capacity' not in p_ and 'final message built' not in p_], fn,
                 got='; '.join(probs) or 'as required', want='as required')
        yield ob(f'{tag}: capacity = SYMBOL_CAPACITY[version][level after boosting] for terminator and pad codewords', not [p_ for p_ in probs if 'capacity' in p_ or 'final message built' in p_],
                 fn, got='; '.join(probs) or 'as required', want='as required')


@rule('C13', 'R7', 160, 'the remainder bits after the last codeword are zero and as many as the version needs (final message for every version and level, shared with C03.R5)')
def r7(fx):
    from . import p03
    for o in p03.r5(fx):
        if o.key.startswith('final message v'):
            yield o
