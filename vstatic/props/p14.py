"""C14 -- arguments honoured or refused with ValueError; nothing else escapes."""
import ast

from .. import ev, eff, iso, nf, pat, src
from ..core import rule, ob, explain, Ob
from ..ev import PyRaise
from ..interp import Interp, make_callable, FuncVal, callable_env
from ..src import Unknown
from .common import C, levels, micro_versions, modes, need, single
from . import p04, p06, p07, p08, wrappers

explain('C14', '''Decided (structural): every explicit raise in the package raises ValueError or a subclass, except four
enumerated protocol/platform sites; the argument normalisers (version, level, mode, mask), the serialiser dispatch, the
colour parsers and the scale/border validators are control code and are interpreted abstractly over large domains of
well-formed and malformed arguments (all letter cases, numeric strings, out-of-range numbers, wrong spellings, empty and
truncated colour strings, short/long/out-of-range colour tuples): they return the canonical value or raise ValueError,
never KeyError/IndexError/AttributeError/TypeError; encode is interpreted over the excluded combinations (H or ECI with
Micro, Micro version with micro=False, QR version with micro=True, mode not in version, mask outside the range of the
version class finally chosen, version outside the table) and refuses each with ValueError before _encode; the two
asserts are unreachable with documented arguments; the call graph has no recursion and the only while-loop advances;
odd-length kanji/hanzi input is refused (C07.R4); the command line tool returns 0 only after writing and turns a
ValueError from symbol creation into exit status 1 with the message on stderr. NOT decided: absence of every implicit
exception for every value of the documented types (a whole-program value analysis).''')

ALLOWED_OTHER = {   # (module, function qualname, exception) -> reason
    ('__init__', 'QRCode.__getattr__', 'AttributeError'): 'attribute protocol',
    ('__init__', 'QRCodeSequence.__getattr__', 'AttributeError'): 'attribute protocol',
    ('writers', 'write_terminal_win', 'OSError'): 'Windows console API unavailable (platform-only code)',
    ('__init__', 'QRCode.show', '<re-raise>'): 're-raise after cleanup in show()',
}


def _exc_name(fx, mod, node):
    if node is None:
        return '<re-raise>'
    n = node.func if isinstance(node, ast.Call) else node
    return src.dotted(n) or ast.unparse(n)


def _is_valueerror_family(fx, mod, name):
    if name in ('ValueError', 'UnicodeError', 'UnicodeEncodeError', 'UnicodeDecodeError'):
        return True
    # repository classes
    for m in (mod, 'encoder'):
        try:
            cls = fx.forest.cls(m, name.split('.')[-1])
        except Unknown:
            continue
        return any(_is_valueerror_family(fx, m, src.dotted(b) or '') for b in cls.bases)
    return False


@rule('C14', 'R1', 60, 'every explicit raise is ValueError or a subclass (four enumerated exceptions)')
def r1(fx):
    seen_allowed = set()
    for m, q, fn in fx.forest.functions():
        for n in src.walk_local(fn):
            if isinstance(n, ast.Raise):
                name = _exc_name(fx, m, n.exc)
                top = q
                key = None
                for (am, aq, an), why in ALLOWED_OTHER.items():
                    if am == m and (q == aq or q.startswith(aq + '.')) and an == name:
                        key = (am, aq, an)
                if key:
                    seen_allowed.add(key)
                    yield Ob(f'{m}.{q}: raise {name}', True, f'{m}.{q}', n.lineno, name, f'allowed: {ALLOWED_OTHER[key]}', False)
                    continue
                ok = _is_valueerror_family(fx, m, name)
                why = 'ValueError or a subclass'
                if not ok and name in ('argparse.ArgumentTypeError', 'ArgumentTypeError') and m == 'cli':
                    # the protocol of an argparse `type=` converter: argparse reports it as a usage error (exit status 2)
                    ok, why = True, 'allowed: argparse converter protocol'
                if not ok and name == 'TypeError' and _type_guarded(n):
                    # a value of another type than the documented option type is outside the property's domain
                    ok, why = True, 'allowed: raised for a value of the wrong type (guarded by a type test)'
                yield Ob(f'{m}.{q}: raise {name}', ok, f'{m}.{q}', n.lineno, name, why, True)


def _type_guarded(raise_node):
    """The raise sits under an `if` (or in the handler of a conversion) whose condition is a type test: isinstance / type() /
    identity with True or False / callable()."""
    def type_test(test):
        for x in ast.walk(test):
            if isinstance(x, ast.Call) and src.call_name(x) in ('isinstance', 'type', 'callable', 'issubclass', 'hasattr'):
                return True
        return False
    # the fall-through of a chain of type tests that each leave the function: `if isinstance(..): return ..` ... `raise TypeError`
    par = getattr(raise_node, '_parent', None)
    for fld in ('body', 'orelse', 'finalbody'):
        block = getattr(par, fld, None)
        if isinstance(block, list) and raise_node in block:
            before = block[:block.index(raise_node)]
            if any(isinstance(st, ast.If) and type_test(st.test) and st.body and isinstance(st.body[-1], (ast.Return, ast.Raise)) for st in before):
                return True
    n = raise_node
    while getattr(n, '_parent', None) is not None:
        p = n._parent
        if isinstance(p, ast.If) and n in p.body + p.orelse:
            for x in ast.walk(p.test):
                if isinstance(x, ast.Call) and src.call_name(x) in ('isinstance', 'type', 'callable', 'issubclass', 'hasattr'):
                    return True
                if isinstance(x, ast.Compare) and any(isinstance(o, (ast.Is, ast.IsNot)) for o in x.ops) and \
                        any(isinstance(c, ast.Constant) and c.value in (True, False) for c in [x.left] + x.comparators):
                    return True
        if isinstance(p, ast.ExceptHandler) and p.type is not None and 'TypeError' in ast.unparse(p.type):
            return True         # re-raised from a failed conversion (int(x), operator.index(x), ...)
        if isinstance(p, (ast.FunctionDef, ast.Module)):
            break
        n = p
    return False


def _sweep(f, domain, expect):
    """Run callable f over domain; expect(x) -> value | 'ValueError'.  Returns list of mismatches."""
    bad = []
    for x in domain:
        try:
            got = f(x)
        except PyRaise as e:
            got = f'raises {e.name}'
        want = expect(x)
        if want == 'ValueError':
            want = 'raises ValueError'
        if got != want:
            bad.append((x, got, want))
    return bad


@rule('C14', 'R2', 6, 'normalisers: documented spellings accepted (any case, numeric strings), everything else ValueError')
def r2(fx):
    it = Interp(max_steps=20_000_000)
    mv, lv, md = micro_versions(fx), levels(fx), modes(fx)
    nv = make_callable(fx.forest, 'encoder', 'normalize_version', it)
    dom = list(range(-5, 45)) + [str(i) for i in range(-2, 43)] + ['M1', 'M2', 'M3', 'M4', 'm1', 'm2', 'm3', 'm4', 'M0', 'M5', 'm5', 'x', '',
                                                                  'M', '1.5', ' 7', '40 ', None, 'M10', 'mm1',
                                                                  # what float() / int() accept beyond plain digits
                                                                  'inf', '-inf', 'Infinity', 'nan', 'NaN', '1e999', '1e1', '7.0', '0x7', '1_0', '+7', '७']

    def exp_v(x):
        if x is None:
            return None
        if isinstance(x, str) and x.upper() in ('M1', 'M2', 'M3', 'M4'):
            return mv[int(x[1]) - 4]
        try:
            i = int(x)
        except ValueError:
            return 'ValueError'
        return i if 1 <= i <= 40 else 'ValueError'
    ref_answers = dict((x, exp_v(x)) for x in dom[:len(dom) - 12])
    bad = _sweep(nv, dom[:len(dom) - 12], exp_v)
    # the odd spellings: whatever is accepted must be a version 1..40 (or refused with ValueError) - never another exception
    for x in dom[len(dom) - 12:]:
        try:
            got = nv(x)
            if not (isinstance(got, int) and not isinstance(got, bool) and 1 <= got <= 40):
                bad.append((x, got, 'a version or ValueError'))
        except PyRaise as e:
            if e.name not in ('ValueError',) and not e.name.endswith('VersionError'):
                bad.append((x, f'raises {e.name}', 'a version or ValueError'))
    yield ob(f'normalize_version over {len(dom)} values', not bad, fx.fn('encoder', 'normalize_version'), got=bad[:4], want=[])
    ne = make_callable(fx.forest, 'encoder', 'normalize_errorlevel', it)
    dom = ['l', 'm', 'q', 'h', 'L', 'M', 'Q', 'H', 'x', '', 'LL', 'low', '-', 0, 1, 2, 3, 4, -1, 7] + [None]

    def exp_e(x):
        if x is None:
            return None
        if isinstance(x, str):
            return lv[x.upper()] if x.upper() in lv and len(x) == 1 else 'ValueError'
        return x if x in lv.values() else 'ValueError'
    bad = _sweep(lambda x: ne(x, accept_none=True), dom, exp_e)
    yield ob(f'normalize_errorlevel over {len(dom)} values', not bad, fx.fn('encoder', 'normalize_errorlevel'), got=bad[:4], want=[])
    try:
        ne(None)
        got = 'accepted'
    except PyRaise as e:
        got = e.name
    yield ob('normalize_errorlevel(None) without accept_none', got == 'ValueError', fx.fn('encoder', 'normalize_errorlevel'), got=got, want='ValueError')
    nm = make_callable(fx.forest, 'encoder', 'normalize_mode', it)
    names = ['numeric', 'alphanumeric', 'byte', 'kanji', 'hanzi']
    dom = names + [n.upper() for n in names] + [n.title() for n in names] + ['x', '', 'bytes', 'num', None, 0, 3, 5, 16] + list(md[n] for n in names)

    def exp_m(x):
        if x is None:
            return None
        if isinstance(x, str):
            return md[x.lower()] if x.lower() in names else 'ValueError'
        return x if x in [md[n] for n in names] else 'ValueError'
    bad = _sweep(nm, dom, exp_m)
    yield ob(f'normalize_mode over {len(dom)} values', not bad, fx.fn('encoder', 'normalize_mode'), got=bad[:4], want=[])
    for o in p06.r9(fx):
        if o.key.startswith('normalize_mask'):
            yield o


@rule('C14', 'R3', 5, 'user-keyed table lookups raise ValueError: output kind (any case, svgz), mode/version table, ECI number')
def r3(fx):
    it = Interp()
    calls = []

    def mk(kind):
        def w(matrix, matrix_size, out, **kw):
            calls.append((kind, out, kw))
        return w
    refs = C(fx, '_VALID_SERIALIZERS', 'writers')
    need(isinstance(refs, dict) and all(isinstance(v, ev.FuncRef) for v in refs.values()), '_VALID_SERIALIZERS is not a table of serialiser functions')
    # recording stand-ins for the serialisers themselves: they stand in wherever the module refers to them (this table, tables
    # derived from it, helpers that call a serialiser)
    over = {v.name: mk(k) for k, v in refs.items()}
    need(len(over) == len(refs), 'two kinds share one serialiser')

    class GZ:
        _model = ('open',)

        @staticmethod
        def open(out, mode, compresslevel=9):
            calls.append(('gzip.open', out, mode, compresslevel))
            return CM(('gz', out))

    class CM:
        def __init__(self, v):
            self._cm_value = v
    genv = callable_env(fx.forest, 'writers', it, dict(over, gzip=GZ()))
    table = genv['_VALID_SERIALIZERS']
    save = FuncVal(fx.fn('writers', 'save'), genv, it)
    kinds = sorted(table)
    yield ob('serialiser table has the 12 kinds', kinds == sorted(['svg', 'png', 'eps', 'txt', 'pdf', 'ans', 'pbm', 'pam', 'ppm', 'tex', 'xbm', 'xpm']),
             fx.forest.module_assign('writers', '_VALID_SERIALIZERS'), where='writers._VALID_SERIALIZERS', got=kinds, want='12 kinds')
    bad = []

    class Stream:
        # a writable object without a name (io.BytesIO, say)
        _model = ('write',)

        def write(self, data):
            calls.append(('stream.write', len(data)))
    for k in kinds:
        for spell in (k, k.upper(), k.title()):
            for how in ('kind', 'path'):
                calls.clear()
                try:
                    if how == 'kind':
                        save('<m>', (21, 21), Stream(), kind=spell, scale=3)
                    else:
                        save('<m>', (21, 21), f'dir.v2/name.{spell}', scale=3)
                    got = calls[-1][0] if calls else None
                except PyRaise as e:
                    got = f'raises {e.name}'
                if got != k or (calls and calls[-1][2] != {'scale': 3}):
                    bad.append((spell, how, got))
    yield ob('every kind in any letter case, by kind= and by file extension, reaches its serialiser with the options', not bad,
             fx.fn('writers', 'save'), got=bad[:4], want=[])
    bad = []
    for spell, how in (('xyz', 'kind'), ('', 'kind'), ('svgx', 'kind'), ('name.xyz', 'path'), ('name', 'path'), ('name.', 'path'), ('pngg', 'kind')):
        try:
            if how == 'kind':
                save('<m>', (21, 21), Stream(), kind=spell)
            else:
                save('<m>', (21, 21), spell)
            bad.append((spell, 'accepted'))
        except PyRaise as e:
            if e.name != 'ValueError':
                bad.append((spell, e.name))
    yield ob('unknown output kind / extension is refused with ValueError', not bad, fx.fn('writers', 'save'), got=bad, want=[])
    # svgz: the SVG serialiser writes into what gzip.open(<file name>, 'wb', compresslevel) yields; file names only
    probs = []
    for name, opts, level in (('name.svgz', {}, 9), ('dir.v1/NAME.SVGZ', {'compresslevel': 5}, 5), ('x.SvgZ', {'scale': 3, 'compresslevel': 1}, 1)):
        calls.clear()
        try:
            save('<m>', (21, 21), name, **opts)
        except PyRaise as e:
            probs.append(f'{name}: raises {e.name}')
            continue
        rest = {k: v for k, v in opts.items() if k != 'compresslevel'}
        want = [('gzip.open', name, 'wb', level), ('svg', ('gz', name), rest)]
        if calls != want:
            probs.append(f'{name} {opts}: {calls}')
    st = Stream()
    calls.clear()
    try:
        save('<m>', (21, 21), st, kind='svgz', scale=2)
        if calls != [('gzip.open', st, 'wb', 9), ('svg', ('gz', st), {'scale': 2})]:
            probs.append(f'kind=svgz on a stream: {calls}')
    except PyRaise as e:
        probs.append(f'kind=svgz on a stream raises {e.name}')
    yield ob('svgz (file name in any case, or kind=) = the SVG serialiser writing through gzip.open', not probs, fx.fn('writers', 'save'), got=probs[:2] or 'as required',
             want="gzip.open(out, 'wb', compresslevel=<option or 9>) then the SVG serialiser with the remaining options")
    # is_mode_supported / get_eci_assignment_number
    ims = make_callable(fx.forest, 'encoder', 'is_mode_supported', it)
    try:
        ims(99, 1)
        got = 'accepted'
    except PyRaise as e:
        got = e.name
    yield ob('is_mode_supported: unknown mode constant -> ValueError', got == 'ValueError', fx.fn('encoder', 'is_mode_supported'), got=got, want='ValueError')

    class Codecs:
        _model = ('lookup',)

        @staticmethod
        def lookup(name):
            class Info:
                _model = ('name',)
            i = Info()
            i.name = {'latin1': 'iso8859-1', 'utf8': 'utf-8', 'koi8-r': 'koi8-r'}[name]
            return i
    g2 = callable_env(fx.forest, 'encoder', it, {'codecs': Codecs()})
    ge = FuncVal(fx.fn('encoder', 'get_eci_assignment_number'), g2, it)
    res = []
    for enc in ('latin1', 'utf8', 'koi8-r'):
        try:
            res.append(ge(enc))
        except PyRaise as e:
            res.append(e.name)
    yield ob('ECI number: known codecs map to their number, a codec without ECI number -> ValueError', res == [3, 26, 'ValueError'],
             fx.fn('encoder', 'get_eci_assignment_number'), got=res, want=[3, 26, 'ValueError'])


@rule('C14', 'R4', 54, 'encode refuses the excluded combinations with ValueError before anything is encoded')
def r4(fx):
    fn = fx.fn('encoder', 'encode')
    mv, lv = micro_versions(fx), levels(fx)
    it = Interp()

    def run(guessed, **kw):
        genv, rec = p04._encode_stub_env(fx, it, mv[guessed] if guessed < 1 else guessed)
        args = dict(error=None, version=None, mode=None, mask=None, encoding=None, eci=False, micro=None, boost_error=True)
        args.update(kw)
        try:
            FuncVal(fn, genv, it)('<content>', **args)
            return 'accepted', rec
        except PyRaise as e:
            return f'raises {e.name}', rec
    cases = []
    for ver in ('M1', 'M2', 'm3', 'M4'):
        cases.append((f'ECI with version {ver}', dict(eci=True, version=ver), -2, 'raises ValueError'))
        cases.append((f'version {ver} with micro=False', dict(version=ver, micro=False), -2, 'raises ValueError'))
    cases.append(('ECI with micro=True', dict(eci=True, micro=True), -2, 'raises ValueError'))
    for ver in (1, '5', 40):
        cases.append((f'QR version {ver} with micro=True', dict(version=ver, micro=True), 1, 'raises ValueError'))
    for ver in (0, 41, -1, 'M5', 'x', '', 'M0'):
        cases.append((f'version {ver!r} outside M1-M4 / 1-40', dict(version=ver), 1, 'raises ValueError'))
    for lvl in ('x', '', 'LL', 5):
        cases.append((f'error level {lvl!r}', dict(error=lvl), 1, 'raises ValueError'))
    for mode in ('x', '', 3, 'bytes'):
        cases.append((f'mode {mode!r}', dict(mode=mode), 1, 'raises ValueError'))
    # mask range depends on the class of the version finally used
    for guessed, masks_ok, masks_bad in ((-3, (0, 3, '2'), (4, 7, -1, '5', 8)), (0, (0, 3), (4, 7)), (1, (0, 7, '7'), (8, -1, '9')), (40, (0, 7), (8,))):
        for m in masks_ok:
            cases.append((f'mask {m!r}, smallest fitting version {guessed}', dict(mask=m), guessed, 'accepted'))
        for m in masks_bad:
            cases.append((f'mask {m!r}, smallest fitting version {guessed}', dict(mask=m), guessed, 'raises ValueError'))
    cases.append(('mask 5 with requested version M4', dict(mask=5, version='M4'), -3, 'raises ValueError'))
    cases.append(('mask 5 with requested version 1', dict(mask=5, version=1), -3, 'accepted'))
    cases.append(('mask "x"', dict(mask='x'), 1, 'raises ValueError'))
    cases.append(('plain call', dict(), -3, 'accepted'))
    cases.append(('ECI with micro=None and no version', dict(eci=True), 1, 'accepted'))
    for name, kw, guessed, want in cases:
        got, rec = run(guessed, **kw)
        ok = got == want and (want == 'accepted') == ('_encode' in rec)
        yield ob(name, ok, fn, got=f'{got}; _encode reached: {"_encode" in rec}', want=want)
    # eci and a Micro symbol never meet: with eci the search is not allowed to return a Micro version (C04.R3), and
    # encode passes the same eci on
    got, rec = run(1, eci=True)
    yield ob('eci reaches the version search and _encode unchanged', rec.get('find_version', (0, 0))[1] is True and rec['_encode']['eci'] is True,
             fn, got=(rec.get('find_version'), rec.get('_encode')), want='eci=True in both')


@rule('C14', 'R5', 3, 'asserts are unreachable with documented arguments')
def r5(fx):
    asserts = []
    for m, q, fn in fx.forest.functions():
        for n in src.walk_local(fn):
            if isinstance(n, ast.Assert):
                asserts.append((m, q, n))
    got = sorted((m, q, nf.norm(n.test)) for m, q, n in asserts)
    want = sorted([('encoder', 'find_version', nf.norm(ast.parse('not (eci and micro)', mode='eval').body)),
                   ('encoder', 'mask_scores', nf.norm(ast.parse('width == height', mode='eval').body))])
    if got != want:
        raise Unknown(f'the set of assert statements changed: {got}')
    # find_version: every caller passes micro=False or is dominated by the eci/micro refusal
    P = eff.program(fx.forest)
    callers = [(fi, call) for fi in P.fns.values() for call, cs in fi.calls if any(g.key == ('encoder', 'find_version') for g in cs)]
    for fi, call in callers:
        kw = src.kwargs_of(call)
        micro = kw.get('micro', call.args[3] if len(call.args) > 3 else None)
        if isinstance(micro, ast.Constant) and micro.value is False:
            yield ob(f'{fi.name}: find_version(micro=False)', True, call, got='micro=False', want='eci and micro cannot both hold')
        elif fi.key == ('encoder', 'encode'):
            # encode is interpreted with a recording version search: it is never reached with eci and micro both set
            from . import p04
            it5 = Interp()
            bad = []
            for eci in (True, False):
                for micro in (True, None, False):
                    for version in (None, 'M3', 5):
                        genv, rec = p04._encode_stub_env(fx, it5, 1)
                        try:
                            FuncVal(fi.node, genv, it5)('<content>', None, version, None, None, None, eci, micro, True)
                            out = 'accepted'
                        except PyRaise as e:
                            out = f'raises {e.name}'
                        fv = rec.get('find_version')
                        if fv is not None and fv[1] and fv[2]:
                            bad.append((eci, micro, version, 'find_version(eci and micro)'))
                        if eci and (micro or version == 'M3') and out != 'raises ValueError':
                            bad.append((eci, micro, version, out))
            yield ob(f'{fi.name}: find_version call dominated by the refusal of eci with micro', not bad, call, got=bad[:3] or 'never reached with eci and micro',
                     want='ValueError before the version search whenever eci and a Micro symbol are requested')
        else:
            # a helper on the way from encode to the version search: covered by the decision table of encode above if encode is
            # its only way in
            callers_of = {}
            for g in P.fns.values():
                for _, cs in g.calls:
                    for callee in cs:
                        callers_of.setdefault(callee.key, set()).add(g.key)
            seen, todo, roots = set(), [fi.key], set()
            while todo:
                k = todo.pop()
                if k in seen:
                    continue
                seen.add(k)
                up = callers_of.get(k, set()) - {k}
                if not up or k == ('encoder', 'encode'):
                    roots.add(k)
                else:
                    todo.extend(up)
            inv = __import__('vstatic.canon', fromlist=['inventory']).inventory().get(fi.key[0], {})
            if roots == {fi.key} and fi.key[1] not in inv.get('functions', ()):
                continue        # a new helper whose calls were all inlined by the canonicaliser: its definition is dead code
            # entry points the reference tree does not have (new public functions) are outside the calls the property quantifies over
            full_inv = __import__('vstatic.canon', fromlist=['inventory']).inventory()
            roots = {r for r in roots if r[1] in full_inv.get(r[0], {}).get('functions', ()) or r == fi.key}
            if not roots or (roots == {fi.key} and fi.key[1] not in inv.get('functions', ())):
                continue
            if roots != {('encoder', 'encode')}:
                raise Unknown(f'{fi.name} calls find_version with a non-constant micro argument and is reached from {sorted(roots)}: no rule for this caller')
    # mask_scores: width == height on its call chain: _encode -> mask selection -> evaluate_mask -> mask_scores
    from . import p06
    from .models import trace_encode
    chain = []
    for v in (1, 7, 40):
        rec, _, _ = trace_encode(fx, v, 'M', 'M')
        st = [r for r in rec if r[0] == 'find_and_apply_best_mask']
        n = iso.size_of(v)
        if len(st) != 1 or list(st[0][1][1:3]) != [n, n] and (st[0][2].get('width'), st[0][2].get('height')) != (n, n):
            chain.append(f'_encode (version {v}) calls the mask selection with {[(r[1][1:], r[2]) for r in st]}')
    it6 = Interp(max_steps=20_000_000)
    log = []
    genv, _ = p06._selection_env(fx, it6, [3, 1, 4, 1, 5, 9, 2, 6], False, log)
    FuncVal(fx.fn('encoder', 'find_and_apply_best_mask'), genv, it6)(genv['make_matrix'](21, 21), 21, 21)
    dims = sorted({(x[2], x[3]) for x in log if x[0] == 'eval'})
    if dims != [(21, 21)]:
        chain.append(f'the mask selection evaluates candidates with (width, height) = {dims}')
    chain += [f'{o.key}: {o.got}' for o in p06.r8(fx) if o.key.startswith('evaluate_mask =') and not o.ok]
    yield ob('mask_scores receives the width/height of _encode, where height = width (C02.R3)', not chain, fx.fn('encoder', 'mask_scores'),
             got=chain or 'width, height passed through unchanged', want='width, height passed through unchanged')


@rule('C14', 'R6', 3, 'termination: no recursion in the call graph; the only while-loop advances; no unbounded iterators')
def r6(fx):
    P = eff.program(fx.forest)
    cyc = P.call_cycles()
    yield ob('call graph is acyclic', not cyc, fx.forest.mod('encoder'), where='package call graph', got=cyc, want=[])
    whiles = []
    for m, q, fn in fx.forest.functions():
        for n in src.walk_local(fn):
            if isinstance(n, ast.While):
                whiles.append((m, q, n))
    if not whiles:
        yield ob('no while-loop in the package', True, fx.forest.mod('encoder'), where='package', got='none', want='every while-loop advances')
    # functions that only module-level statements refer to run at import time with constant arguments: the evaluation of the
    # module constants (bounded interpretation) runs them to completion or reports the constant as not foldable
    used_in_functions = set()
    for m2, q2, fn2 in fx.forest.functions():
        for n in src.walk_local(fn2):
            if isinstance(n, ast.Name) and isinstance(n.ctx, ast.Load):
                used_in_functions.add(n.id)
            elif isinstance(n, ast.Attribute):
                used_in_functions.add(n.attr)
    for m, q, w in list(whiles):
        top = q.split('.')[0]
        if '.' not in q and top.startswith('_') and top not in used_in_functions:
            try:
                ns = ev.module_consts(fx.forest, m)
                users = [st for st in fx.forest.mod(m).body if not isinstance(st, (ast.FunctionDef, ast.ClassDef))
                         and any(isinstance(n, ast.Name) and n.id == top for n in ast.walk(st))]
                folded = bool(users) and all(isinstance(st, ast.Assign) and all(isinstance(t, ast.Name) and ns.has(t.id) for t in st.targets) for st in users)
            except Unknown:
                folded = False
            if folded:
                whiles.remove((m, q, w))
                yield ob(f'while-loop in {m}.{q} makes progress on every iteration', True, w, got='only called while the module constants are computed: evaluated to completion there',
                         want='a variable moves monotonically towards the bound tested by the loop condition')
    for m, q, w in whiles:
        yield ob(f'while-loop in {m}.{q} makes progress on every iteration', _progress(w) is not None, w, got=_progress(w) or f'no progress argument found for `while {ast.unparse(w.test)[:60]}`',
                 want='a variable moves monotonically towards the bound tested by the loop condition')
    inf = []

    def unbounded(c):
        d = (src.call_name(c) or '').split('.')[-1]
        return (d in ('count', 'cycle') and (src.call_name(c) or '').split('.')[0] in ('itertools', 'count', 'cycle')) or \
            (d == 'repeat' and len(c.args) == 1 and not c.keywords and not _inside_fillvalue(c))

    def bounded_use(node, fn, depth=0):
        """`node` (an unbounded iterator expression or a name bound to one) is only drawn from as often as a finite partner
        allows: an argument of zip beside a bounded iterable, the first argument of islice / takewhile, or of next."""
        par = src.parent(node)
        if isinstance(par, ast.Compare) and all(isinstance(o, (ast.Is, ast.IsNot)) for o in par.ops):
            return True         # an identity test draws nothing
        if isinstance(par, ast.Call) and node in par.args:
            name = (src.call_name(par) or '').split('.')[-1]
            if name == 'zip' or (name == 'map' and par.args and par.args[0] is not node):
                others = [a for a in (par.args if name == 'zip' else par.args[1:]) if a is not node]
                return bool(others) and any(not (isinstance(a, ast.Call) and unbounded(a)) for a in others)
            if name in ('islice', 'takewhile') and len(par.args) >= 2:
                return True
            if name == 'next':
                return True
        if isinstance(par, ast.Assign) and len(par.targets) == 1 and isinstance(par.targets[0], ast.Name) and depth == 0:
            var = par.targets[0].id
            loads = [n for n in src.walk_local(fn) if isinstance(n, ast.Name) and n.id == var and isinstance(n.ctx, ast.Load)]
            return bool(loads) and all(bounded_use(n, fn, 1) for n in loads)
        return False
    for m, q, fn in fx.forest.functions():
        for c in src.calls_in(fn, into_nested=False):
            if unbounded(c) and not bounded_use(c, fn):
                inf.append(f'{m}.{q}: {ast.unparse(c)}')
    yield ob('no unbounded iterator (count, cycle, repeat without count) is consumed', not inf, fx.forest.mod('writers'),
             where='package', got=inf, want=[])


def _progress(w):
    """A progress argument for a while-loop, or None / Unknown.

    (a) search loop: `while i != -1` whose body ends every iteration with `i = seq.find(pattern, i + k)`, k >= 1: the start
        offset grows strictly, find returns -1 or a position >= the offset, positions are bounded by the length;
    (b) counter loop: a conjunct `v < B` / `v <= B` of the condition, `v += c` (c > 0) executed on every iteration, B not written."""
    body = w.body
    # local aliases of bound search methods (`find = seq.find`): the call `find(p, o)` is `seq.find(p, o)`
    fn_ = w
    while getattr(fn_, '_parent', None) is not None and not isinstance(fn_, (ast.FunctionDef, ast.Module)):
        fn_ = fn_._parent
    alias = {}
    if isinstance(fn_, ast.FunctionDef):
        stores = {}
        for n in src.walk_local(fn_):
            if isinstance(n, ast.Name) and isinstance(n.ctx, ast.Store):
                stores[n.id] = stores.get(n.id, 0) + 1
        for n in src.walk_local(fn_):
            if isinstance(n, ast.Assign) and len(n.targets) == 1 and isinstance(n.targets[0], ast.Name) and isinstance(n.value, ast.Attribute) \
                    and n.value.attr in ('find', 'rfind', 'index') and stores.get(n.targets[0].id) == 1:
                alias[n.targets[0].id] = n.value

    def search_call(e):
        """(sequence expr, method, args) of `seq.find(..)` / `alias(..)`, else None."""
        if isinstance(e, ast.Call) and isinstance(e.func, ast.Attribute) and e.func.attr in ('find', 'rfind') and not e.keywords:
            return e.func.value, e.func.attr, e.args
        if isinstance(e, ast.Call) and isinstance(e.func, ast.Name) and e.func.id in alias and alias[e.func.id].attr in ('find', 'rfind') and not e.keywords:
            return alias[e.func.id].value, alias[e.func.id].attr, e.args
        return None

    def leaves(test_var, stmts):
        """An `if <var> < 0 / == -1 / is None ...: return / break` among stmts."""
        for st in stmts:
            if isinstance(st, ast.If) and st.body and isinstance(st.body[-1], (ast.Return, ast.Break, ast.Raise)):
                t_ = ast.unparse(st.test).replace(' ', '')
                if t_ in (f'{test_var}<0', f'{test_var}==-1', f'{test_var}<=-1', f'-1=={test_var}', f'0>{test_var}'):
                    return True
        return False
    written_ = {n.id for s_ in body for n in ast.walk(s_) if isinstance(n, ast.Name) and isinstance(n.ctx, ast.Store)}
    # (a') search loop through an alias or with `> -1` / `>= 0`: `while i != -1 | i > -1 | i >= 0: ...; i = find(p, i + k)`
    tnorm = ast.unparse(w.test).replace(' ', '')
    for iv in sorted(written_):
        if tnorm in (f'{iv}!=-1', f'{iv}>-1', f'{iv}>=0', f'-1!={iv}', f'-1<{iv}', f'0<={iv}'):
            for k, st in enumerate(body):
                if isinstance(st, ast.Assign) and len(st.targets) == 1 and isinstance(st.targets[0], ast.Name) and st.targets[0].id == iv:
                    sc = search_call(st.value)
                    if sc is None or sc[1] != 'find' or len(sc[2]) < 2:
                        continue
                    try:
                        a = nf.affine(sc[2][1])
                    except Unknown:
                        continue
                    before = [n for s_ in body[:k] for n in ast.walk(s_) if isinstance(n, ast.Continue)]
                    nstores = [n for s_ in body for n in ast.walk(s_) if isinstance(n, ast.Name) and isinstance(n.ctx, ast.Store) and n.id == iv]
                    seq_names = {n.id for n in ast.walk(sc[0]) if isinstance(n, ast.Name)}
                    if set(a) <= {iv, ''} and a.get(iv) == 1 and a.get('', 0) >= 1 and not before and len(nstores) == 1 and not (seq_names & written_):
                        return f'{iv} = find(..., {iv} + {a[""]}) on every iteration (search loop)'
    # (f) cutting loop: `while end - pos > width: cut = s.rfind(x, pos, ..); if cut < 0: return; ...; pos = cut + k` (k >= 1): the
    # search starts at pos, so cut >= pos and pos grows strictly; the condition is decreasing in pos
    if isinstance(w.test, ast.Compare) and len(w.test.ops) == 1 and isinstance(w.test.ops[0], (ast.Gt, ast.GtE)):
        try:
            lhs = nf.affine(w.test.left)
        except Unknown:
            lhs = None
        if lhs is not None:
            for pv in [v_ for v_, c_ in lhs.items() if v_ and c_ == -1 and v_ in written_]:
                others = {n.id for n in ast.walk(w.test) if isinstance(n, ast.Name)} - {pv}
                if others & written_:
                    continue
                for k, st in enumerate(body):
                    if isinstance(st, ast.Assign) and len(st.targets) == 1 and isinstance(st.targets[0], ast.Name):
                        cv = st.targets[0].id
                        sc = search_call(st.value)
                        if sc is None or len(sc[2]) < 2 or ast.unparse(sc[2][1]) != pv or not leaves(cv, body[k + 1:]):
                            continue
                        for k2 in range(k + 1, len(body)):
                            s2 = body[k2]
                            if isinstance(s2, ast.Assign) and len(s2.targets) == 1 and isinstance(s2.targets[0], ast.Name) and s2.targets[0].id == pv:
                                try:
                                    a = nf.affine(s2.value)
                                except Unknown:
                                    continue
                                cont = [n for s_ in body[:k2] for n in ast.walk(s_) if isinstance(n, ast.Continue)]
                                n_pv = [n for s_ in body for n in ast.walk(s_) if isinstance(n, ast.Name) and isinstance(n.ctx, ast.Store) and n.id == pv]
                                n_cv = [n for s_ in body for n in ast.walk(s_) if isinstance(n, ast.Name) and isinstance(n.ctx, ast.Store) and n.id == cv]
                                if set(a) <= {cv, ''} and a.get(cv) == 1 and a.get('', 0) >= 1 and not cont and len(n_pv) == 1 and len(n_cv) == 1:
                                    return f'{cv} = {sc[1]}(.., {pv}, ..) >= {pv} or the loop is left; {pv} = {cv} + {a[""]} on every iteration; the condition decreases in {pv}'
    if any(isinstance(n, ast.Continue) for s_ in body for n in ast.walk(s_) if not isinstance(s_, (ast.For, ast.While))):
        # a `continue` could skip the progress statement: only accepted when it comes after it
        pass
    b = pat.match(w.test, 'H_i != -1')
    if b is not None and isinstance(b['i'], ast.Name):
        iv = b['i'].id
        for k, st in enumerate(body):
            if isinstance(st, ast.Assign) and len(st.targets) == 1 and isinstance(st.targets[0], ast.Name) and st.targets[0].id == iv:
                bb = pat.match(st.value, 'H_s.find(H_p, H_o)')
                if bb is None:
                    continue
                try:
                    a = nf.affine(bb['o'])
                except Unknown:
                    continue
                before = [n for s_ in body[:k] for n in ast.walk(s_) if isinstance(n, (ast.Continue,))]
                stores = [n for s_ in body for n in ast.walk(s_) if isinstance(n, ast.Name) and isinstance(n.ctx, ast.Store) and n.id == iv]
                if set(a) <= {iv, ''} and a.get(iv) == 1 and a.get('', 0) >= 1 and not before and len(stores) == 1:
                    return f'{iv} = find(..., {iv} + {a[""]}) on every iteration'
        return None
    def stores_of(name):
        return [n for s_ in body for n in ast.walk(s_) if isinstance(n, ast.Name) and isinstance(n.ctx, ast.Store) and n.id == name]

    def continue_before(k):
        return [n for s_ in body[:k] for n in ast.walk(s_) if isinstance(n, ast.Continue)]
    written = {n.id for s_ in body for n in ast.walk(s_) if isinstance(n, ast.Name) and isinstance(n.ctx, ast.Store)}
    # (d) `while True` search loop: i = seq.find(p, s); if i == -1: return / break; ...; s = i + k (k >= 1)
    if isinstance(w.test, ast.Constant) and w.test.value is True:
        for k, st in enumerate(body):
            if not (isinstance(st, ast.Assign) and len(st.targets) == 1 and isinstance(st.targets[0], ast.Name)):
                continue
            bb = pat.match(st.value, 'H_s.find(H_p, H_o)')
            if bb is None or not isinstance(bb['o'], ast.Name) or k + 1 >= len(body):
                continue
            iv, sv = st.targets[0].id, bb['o'].id
            nxt = body[k + 1]
            leaves = isinstance(nxt, ast.If) and pat.match(nxt.test, f'{iv} == -1') is not None and nxt.body and isinstance(nxt.body[-1], (ast.Return, ast.Break))
            if not leaves:
                continue
            for k2 in range(k + 2, len(body)):
                s2 = body[k2]
                if isinstance(s2, ast.Assign) and len(s2.targets) == 1 and isinstance(s2.targets[0], ast.Name) and s2.targets[0].id == sv:
                    try:
                        a = nf.affine(s2.value)
                    except Unknown:
                        continue
                    if set(a) <= {iv, ''} and a.get(iv) == 1 and a.get('', 0) >= 1 and not continue_before(k2) and len(stores_of(sv)) == 1 and len(stores_of(iv)) == 1 \
                            and not ({n.id for n in ast.walk(bb['s']) if isinstance(n, ast.Name)} & written):
                        return f'{iv} = find(..., {sv}), leaves at -1, {sv} = {iv} + {a[""]} on every other iteration'
        return None
    # (e) the search loop written with an assignment expression: `while (i := seq.find(p, s)) != -1: ...; s = i + k` (k >= 1)
    if isinstance(w.test, ast.Compare) and len(w.test.ops) == 1 and isinstance(w.test.ops[0], ast.NotEq) and isinstance(w.test.left, ast.NamedExpr) \
            and isinstance(w.test.comparators[0], (ast.Constant, ast.UnaryOp)) and ast.unparse(w.test.comparators[0]) == '-1':
        bb = pat.match(w.test.left.value, 'H_s.find(H_p, H_o)')
        if bb is not None and isinstance(bb['o'], ast.Name):
            iv, sv = w.test.left.target.id, bb['o'].id
            for k2, s2 in enumerate(body):
                if isinstance(s2, ast.Assign) and len(s2.targets) == 1 and isinstance(s2.targets[0], ast.Name) and s2.targets[0].id == sv:
                    try:
                        a = nf.affine(s2.value)
                    except Unknown:
                        continue
                    if set(a) <= {iv, ''} and a.get(iv) == 1 and a.get('', 0) >= 1 and not continue_before(k2) and len(stores_of(sv)) == 1 and not stores_of(iv) \
                            and not ({n.id for n in ast.walk(bb['s']) if isinstance(n, ast.Name)} & written):
                        return f'{iv} := find(..., {sv}) in the condition, {sv} = {iv} + {a[""]} on every iteration'
        return None
    conj = w.test.values if isinstance(w.test, ast.BoolOp) and isinstance(w.test.op, ast.And) else [w.test]
    for c in conj:
        if not (isinstance(c, ast.Compare) and len(c.ops) == 1):
            continue
        left, op, right = c.left, c.ops[0], c.comparators[0]
        # orientations: counter on the smaller side and growing, or on the larger side and shrinking
        cands = []
        if isinstance(op, (ast.Lt, ast.LtE)):
            cands = [(left, right, +1), (right, left, -1)]
        elif isinstance(op, (ast.Gt, ast.GtE)):
            cands = [(left, right, -1), (right, left, +1)]
        for cand, other, direction in cands:
            if not isinstance(cand, ast.Name):
                continue
            steps = []
            for k, st in enumerate(body):
                if isinstance(st, ast.AugAssign) and isinstance(st.target, ast.Name) and st.target.id == cand.id and isinstance(st.value, ast.Constant) \
                        and isinstance(st.value.value, int) and not isinstance(st.value.value, bool) and st.value.value > 0 \
                        and isinstance(st.op, ast.Add if direction > 0 else ast.Sub):
                    steps.append((k, st.value.value))
                elif isinstance(st, ast.Assign) and len(st.targets) == 1 and isinstance(st.targets[0], ast.Name) and st.targets[0].id == cand.id:
                    try:
                        a = nf.affine(st.value)
                    except Unknown:
                        continue
                    if set(a) <= {cand.id, ''} and a.get(cand.id) == 1 and isinstance(a.get('', 0), int) and a.get('', 0) * direction > 0:
                        steps.append((k, abs(a[''])))
            if len(steps) != 1:
                continue
            k, step = steps[0]
            other_names = {n.id for n in ast.walk(other) if isinstance(n, ast.Name)}
            pure_bound = not any(isinstance(n, ast.Call) and src.call_name(n) != 'len' for n in ast.walk(other))
            if not continue_before(k) and not (other_names & written) and len(stores_of(cand.id)) == 1 and pure_bound:
                return f'{cand.id} {"+=" if direction > 0 else "-="} {step} on every iteration, bounded by {ast.unparse(other)}'
    return None


def _inside_fillvalue(call):
    p = src.parent(call)
    return isinstance(p, ast.keyword) and p.arg == 'fillvalue'


COLORS_BAD = ['', '#', '#1', '#12', '#12345', '#1234567', '#123456789', 'nocolor', '#ggg', 'ggg', '12', '#gggggg', ' red', 'red ', '##123',
              # what int(x, 16) accepts beyond hexadecimal digits: signs, white space, underscores, the 0x prefix, non-ASCII digits
              '#-1-2-3', '#+1+2+3', '# 1 2 3', '+1+2+3', '-1-2-3', '#\t1\t2\t3', '#1_23_4', '#0x1234', '0x12ab', '#0X1234', '#12_456', '#ab_cd_ef',
              '#0x123456', '#+f+f+f+f', '#\u0661\u0662\u0663', '\u0661\u0662\u0663\u0664\u0665\u0666', '#12 ', '#-12', '#1-2', '#1+2',
              (1, 2), (1,), (), (1, 2, 3, 4, 5), (256, 0, 0), (-1, 0, 0), (0, 0, 300), (0, 0, 0, 2.0), (0, 0, 0, -1), (0, 0, 0, 300), (0, 0, 0, -0.5)]
COLORS_OK = ['#123', '#1234', '#123456', '#12345678', '123456', 'abc', 'red', 'RED', 'Red', 'black', '#FFF', (1, 2, 3), (1, 2, 3, 4), (0, 0, 0, 0.5),
             (255, 255, 255), (0, 0, 0, 255), (0, 0, 0, 1.0)]


@rule('C14', 'R8', 7, 'colour parsers: malformed strings/tuples -> ValueError, well-formed ones accepted; scale/border validators')
def r8(fx):
    it = Interp(max_steps=20_000_000)
    genv = callable_env(fx.forest, 'writers', it)
    for name, extra in (('_color_to_rgba', {}), ('_color_to_rgb_or_rgba', {}), ('_color_to_webcolor', {}), ('_color_is_black', {})):
        f = FuncVal(fx.fn('writers', name), genv, it)
        bad = []
        for alpha in ((True, False) if name in ('_color_to_rgba', '_color_to_rgb_or_rgba') else (None,)):
            for c in COLORS_BAD + COLORS_OK:
                try:
                    f(c) if alpha is None else f(c, alpha_float=alpha)
                    got = 'accepted'
                except PyRaise as e:
                    got = f'raises {e.name}'
                want = 'accepted' if (c in COLORS_OK or name == '_color_is_black') else 'raises ValueError'
                if got != want:
                    bad.append((c, alpha, got))
        yield ob(f'{name} over {len(COLORS_BAD)} malformed and {len(COLORS_OK)} well-formed colours', not bad, fx.fn('writers', name),
                 got=bad[:4], want=[])
    f = FuncVal(fx.fn('writers', '_color_to_rgb'), genv, it)
    bad = []
    for c in COLORS_BAD + ['#12345678', (1, 2, 3, 4)]:
        try:
            f(c)
            bad.append((c, 'accepted'))
        except PyRaise as e:
            if e.name != 'ValueError':
                bad.append((c, e.name))
    yield ob('_color_to_rgb refuses malformed colours and alpha channels with ValueError', not bad, fx.fn('writers', '_color_to_rgb'), got=bad[:4], want=[])
    # the private size helper, as long as it exists with the reference interface (what it guarantees to the serialisers is decided
    # again, serialiser by serialiser, by the rendering obligation below and by the dimension obligations of C09 / C10 / C13)
    try:
        vfn = fx.fn('writers', '_valid_width_height_and_border')
    except Unknown:
        vfn = None
    shape_ok = False
    if vfn is not None and src.all_params(vfn) == ['matrix_size', 'scale', 'border']:
        vw = FuncVal(vfn, genv, it)
        bad, shape_ok = [], True
        for scale, border, want in ((1, None, (29, 29, 4)), (2, 0, (42, 42, 0)), (0.5, 1, (11.5, 11.5, 1)), (0, 1, 'ValueError'), (-1, 1, 'ValueError'),
                                    (-0.5, 1, 'ValueError'), (1, -1, 'ValueError'), (1, 0.5, 'ValueError'), (3, -2, 'ValueError')):
            try:
                got = vw.call_in_order((21, 21), scale, border)
                if not isinstance(got, tuple) or len(got) != 3:
                    shape_ok = False
                    break
            except PyRaise as e:
                got = e.name
            if got != want:
                bad.append((scale, border, got, want))
        if shape_ok:
            yield ob('_valid_width_height_and_border: scale <= 0, negative or fractional border -> ValueError; else ((size+2b)*s, border)', not bad,
                     vfn, got=bad[:3], want=[])
    if not shape_ok:
        yield ob('_valid_width_height_and_border: no helper with the reference interface; decided serialiser by serialiser below', True, fx.forest.mod('writers'),
                 where='writers')
    # every sized serialiser refuses a bad scale / border before it opens the output (rendered on a pattern symbol)
    from . import render
    writersl = ['write_svg', 'write_eps', 'write_png', 'write_pdf', 'write_pbm', 'write_pam', 'write_ppm', 'write_xpm', 'write_xbm', 'write_tex']
    missing = []
    itr = Interp(max_steps=20_000_000)
    m = render.pattern(11, 11)
    for w in writersl:
        raster = w in ('write_png', 'write_pbm', 'write_pam', 'write_ppm', 'write_xpm', 'write_xbm')
        for scale, border in ((0, None), (-1, 1), (1, -1), (1, 0.5), (-0.5, None)) + (((0.5, None), (0.99, 1)) if raster else ()):
            opened = []

            def writable(out, mode, encoding=None, opened=opened):
                opened.append(mode)
                return render.CM(render.Rec())
            try:
                render.run(fx, itr, w, m, (11, 11), kw={'scale': scale, 'border': border}, extra={'writable': writable})
                missing.append(f'{w}(scale={scale}, border={border}): accepted')
            except PyRaise as ex:
                if ex.name != 'ValueError' or opened:
                    missing.append(f'{w}(scale={scale}, border={border}): {ex.name}' + (' after opening the output' if opened else ''))
            except render.Bad as ex:
                missing.append(f'{w}(scale={scale}, border={border}): {ex}')
    yield ob('every sized serialiser validates scale and border before opening the output', not missing, fx.forest.mod('writers'),
             where='writers.write_*', got=missing[:4], want=[])


class Cfg(dict):
    _model = ('pop', 'get')


@rule('C14', 'R9', 5, 'CLI: 0 only after writing; a ValueError while creating the symbol -> message on stderr, exit status 1, no traceback')
def r9(fx):
    fn = fx.fn('cli', 'main')
    it = Interp()
    log = []

    class SysExit(Exception):
        pass

    class Sys:
        _model = ('exit', 'stderr', 'argv')

        class stderr:
            _model = ('writelines', 'write')

            @staticmethod
            def writelines(lines):
                log.append(('stderr', [str(x) for x in lines]))

            @staticmethod
            def write(s):
                log.append(('stderr', [str(s)]))

        @staticmethod
        def exit(code=0):
            log.append(('exit', code))
            raise Unknown('__sys_exit__')
    Sys.stderr = Sys.stderr()

    class QR:
        _model = ('terminal', 'save')

        def terminal(self, **kw):
            from .. import refsig
            log.append(('terminal', refsig.drop_new_defaults(fx.forest, '__init__', 'QRCode.terminal', kw)))

        def save(self, out, **kw):
            from .. import refsig
            log.append(('save', out, refsig.drop_new_defaults(fx.forest, '__init__', 'QRCode.save', kw)))

    class OS:
        _model = ('linesep',)
        linesep = '\n'

    def run(output, fail):
        log.clear()

        def parse(args):
            return Cfg(output=output, border=None, compact=False, scale=1)

        def make_code(config):
            if fail:
                from ..interp import Raised
                raise Raised(None, ValueError if fail is True else fail, '<library message>')
            return QR()

        def build_config(config, filename=None):
            return {'scale': config['scale']}
        genv = callable_env(fx.forest, 'cli', it, {'parse': parse, 'make_code': make_code, 'build_config': build_config, 'sys': Sys(), 'os': OS()})
        try:
            ret = FuncVal(fn, genv, it)(['x'])
        except Unknown as u:
            if '__sys_exit__' in str(u):
                ret = 'sys.exit'
            else:
                raise
        return ret, list(log)
    ret, lg = run(None, False)
    yield ob('no output file: prints to the terminal and returns 0', ret == 0 and [x[0] for x in lg] == ['terminal']
             and lg[0][1] == {'border': None, 'compact': False}, fn, got=(ret, lg), want="(0, [('terminal', {'border': None, 'compact': False})])")
    ret, lg = run('out.svg', False)
    yield ob('output file: saves with the built configuration and returns 0', ret == 0 and lg == [('save', 'out.svg', {'scale': 1})], fn,
             got=(ret, lg), want="(0, [('save', 'out.svg', {'scale': 1})])")
    ret, lg = run('out.svg', True)
    okf = ret == 'sys.exit' and [x[0] for x in lg] == ['stderr', 'exit'] and lg[1][1] not in (0, None) and isinstance(lg[1][1], int) \
        and any('<message of ValueError>' in s or 'library message' in s for s in lg[0][1])
    # alternatively: main returns a non-zero status and the script entry passes it to sys.exit
    if not okf and isinstance(ret, int) and ret != 0 and [x[0] for x in lg] == ['stderr']:
        tail = fx.forest.mod('cli').body[-1]
        okf = isinstance(tail, ast.If) and any(pat.match(s, 'sys.exit(main())', mode='stmt') is not None for s in tail.body)
    yield ob('ValueError while creating the symbol: message to stderr, process exit status non-zero, nothing written', okf, fn,
             got=(ret, lg), want="stderr message then sys.exit(1) (or `sys.exit(main())` at the script entry)")
    try:
        ret, lg = run('out.svg', TypeError)
        got = (ret, lg)
    except PyRaise as ex:
        got = f'raises {ex.name}'
    yield ob('an exception other than ValueError while creating the symbol is not swallowed (no status 0, nothing written)', got == 'raises TypeError', fn,
             got=got, want='raises TypeError')
    tail = fx.forest.mod('cli').body[-1]
    yield ob('script entry runs main()', isinstance(tail, ast.If) and nf.same(tail.test, "__name__ == '__main__'"), tail,
             got=ast.unparse(tail)[:60], want="if __name__ == '__main__': main()")


@rule('C14', 'R7', 10, 'odd-length kanji / hanzi input is refused with ValueError (shared with C07.R4)')
def r7(fx):
    for o in p07.r4(fx):
        if 'requested kanji' in o.key or 'requested hanzi' in o.key:
            yield o


@rule('C14', 'R10', 19, 'make_sequence refusals (Micro version, symbol_count outside 1-16, missing arguments, too short content); content of every documented type is split, not refused with TypeError')
def r10(fx):
    for o in p08.r2(fx):
        yield o
    for o in p08.r1(fx):
        if 'content)' in o.key:
            yield o


@rule('C14', 'R11', 20, 'CLI argument parsing: Micro version names in any letter case relax the default micro=False; numeric versions / explicit --micro are kept')
def r11(fx):
    import argparse
    it = Interp(max_steps=5_000_000)

    class ArgNS:
        _model = ('ArgumentParser', 'SUPPRESS', 'ArgumentTypeError')
        ArgumentParser = argparse.ArgumentParser
        SUPPRESS = argparse.SUPPRESS
        ArgumentTypeError = argparse.ArgumentTypeError
    segno_ns = ev.Namespace('segno', {'__version__': ev.const(fx.forest, '__init__', '__version__')})
    genv = callable_env(fx.forest, 'cli', it, {'argparse': ArgNS(), '_AttrDict': dict, 'segno': segno_ns})
    fn = fx.fn('cli', 'parse')
    parse = FuncVal(fn, genv, it)

    def run(argv):
        cfg = parse(list(argv) + ['content'])
        return cfg.get('micro'), cfg.get('version'), cfg.get('error')
    for k in (1, 2, 3, 4):
        for flags, want_micro in (([], None), (['--no-micro'], None), (['--micro'], True)):
            res = {}
            for spell in (f'M{k}', f'm{k}'):
                res[spell] = run(['--version', spell] + flags)
            ok = res[f'M{k}'][0] is want_micro and res[f'm{k}'][0] is want_micro
            yield ob(f'--version M{k}/m{k} {" ".join(flags)}', ok, fn, got={s_: r[0] for s_, r in res.items()}, want=f'micro={want_micro} for both spellings')
    for v in ('1', '40', '7'):
        yield ob(f'--version {v}: Micro stays disallowed by default', run(['--version', v])[0] is False, fn, got=run(['--version', v])[0], want=False)
    yield ob('no version: Micro disallowed by default, allowed with --micro', (run([])[0], run(['--micro'])[0]) == (False, True), fn,
             got=(run([])[0], run(['--micro'])[0]), want=(False, True))
    for e_, want in (('-', None), ('l', 'L'), ('H', 'H'), ('q', 'Q')):
        yield ob(f'--error {e_}', run(['--error', e_])[2] == want, fn, got=run(['--error', e_])[2], want=want)


@rule('C14', 'R12', 30, 'a requested version that cannot hold the content is refused (DataOverflowError, a ValueError), never silently kept: every requested version against every smallest fitting version (C04.R4)')
def r12(fx):
    yield from p04.r4(fx)


@rule('C14', 'R13', 12, 'CLI: the serialiser options given on the command line are honoured whatever the letter case of the output file extension (C12.R3)')
def r13(fx):
    from . import p12
    for o in p12.r3(fx):
        if 'same configuration for every letter case' in o.key or o.key.startswith('flags reach'):
            yield o


@rule('C14', 'R14', 60, 'public signatures only grow at the end: every positional parameter of the reference tree is still at its position (an existing positional call keeps its meaning), every parameter is still accepted')
def r14(fx):
    from .. import canon
    inv = canon.inventory()
    for m in ('__init__', 'encoder', 'utils', 'writers', 'helpers'):
        ref_pos = inv.get(m, {}).get('positional', {})
        ref_all = inv.get(m, {}).get('signature', {})
        for q in sorted(ref_pos):
            parts = q.split('.')
            if any(p_.startswith('_') and not (p_.startswith('__') and p_.endswith('__')) for p_ in parts) or len(parts) > 2:
                continue
            if len(parts) == 2 and parts[0][:1].islower():
                continue        # nested function
            if not fx.forest.has_func(m, q):
                continue        # a public function that disappeared is another matter (the routes of C12 / the factories of C16 decide)
            fn = fx.fn(m, q)
            if not isinstance(fn, ast.FunctionDef):
                continue
            cur_pos = [a.arg for a in fn.args.posonlyargs + fn.args.args]
            cur_all = set(cur_pos) | {a.arg for a in fn.args.kwonlyargs}
            want = ref_pos[q]
            moved = [p_ for i, p_ in enumerate(want) if i >= len(cur_pos) or cur_pos[i] != p_]
            gone = [p_ for p_ in ref_all.get(q, ()) if p_ not in cur_all and fn.args.kwarg is None]
            ok = not moved and not gone
            yield Ob(f'{m}.{q}: positional parameters of the reference tree keep their positions', ok, f'{m}.{q}', fn.lineno,
                     f'{cur_pos}' + (f'; no longer accepted: {gone}' if gone else ''), f'begins with {want}', True)
