"""Rules for C14 (see DESIGN.md section 5)."""
