"""Rules for C04 (see DESIGN.md section 5)."""
