"""C04 -- smallest fitting symbol; overflow reported, never truncated."""
import ast

from .. import ev, iso, nf, pat, src
from ..core import rule, ob, explain, Ob
from ..ev import PyRaise
from ..interp import Interp, make_callable, FuncVal
from ..src import Unknown
from .common import C, levels, micro_versions, modes, table_ob, need, single
from .models import SAModel, BufModel, SegModel, SegmentsModel, encoder_env, method

explain('C04', '''Decided (structural): SYMBOL_CAPACITY equals 8*sum(data codewords) (-4 for M1/M3) for all 168
cells and has exactly the level keys each version defines; mode availability and count-indicator widths match ISO
Table 2/3; find_version - whose control flow depends only on (needed bits per version, mode set, level, eci, micro) -
is interpreted abstractly over that finite domain (every admissible-range combination, every target version, both
sides of the capacity boundary) and returns the first admissible version in M1<..<M4<1<..<40 or raises
DataOverflowError; encode returns exactly a requested version iff the smallest fitting one is not larger, and
refuses otherwise with DataOverflowError; every call of _encode is dominated by a witness that its segments fit the
version it is given (the version= path of encode_sequence has none: known finding); the number of bits budgeted
equals the number of bits written for every version, mode, ECI/SA/Hanzi combination (shared with C01.R3).
NOT decided: the payload bit count of a concrete content (its per-mode formula is C01.R2).''')

BIG = 10 ** 9


@rule('C04', 'R1', 212, 'SYMBOL_CAPACITY = 8 * data codewords (-4 for M1/M3); level keys = levels the version defines')
def r1(fx):
    cap = C(fx, 'SYMBOL_CAPACITY')
    lv, mv = levels(fx), micro_versions(fx)
    yield table_ob(fx, 'SYMBOL_CAPACITY', 'versions', sorted(cap.keys()), sorted(set(range(1, 41)) | set(mv.values())))
    for v in iso.ALL_VERSIONS:
        row = cap.get(mv[v] if v < 1 else v, {})
        want_keys = sorted(((None if l is None else lv[l]) for l in iso.levels_of(v)), key=repr)
        yield table_ob(fx, 'SYMBOL_CAPACITY', f'{v} levels', sorted(row.keys(), key=repr), want_keys)
        for l in iso.levels_of(v):
            yield table_ob(fx, 'SYMBOL_CAPACITY', f'{v}-{l}', row.get(None if l is None else lv[l]), iso.capacity_bits(v, l))


@rule('C04', 'R2', 32, 'SUPPORTED_MODES = ISO Table 2; a character-count width exists iff the mode is available')
def r2(fx):
    sm = C(fx, 'SUPPORTED_MODES')
    md, mv = modes(fx), micro_versions(fx)
    cci = C(fx, 'CHAR_COUNT_INDICATOR_LENGTH')
    ranges = {1: C(fx, 'VERSION_RANGE_01_09'), 2: C(fx, 'VERSION_RANGE_10_26'), 3: C(fx, 'VERSION_RANGE_27_40')}
    for name, allowed in iso.SUPPORTED.items():
        want = sorted(((None if a is None else mv[a]) for a in allowed), key=repr)
        got = sm.get(md[name])
        yield table_ob(fx, 'SUPPORTED_MODES', name, sorted(got, key=repr) if got is not None else None, want)
    for name, widths in iso.CCI.items():
        row = cci.get(md[name], {})
        want = {(ranges[k] if k >= 1 else mv[k]): w for k, w in widths.items()}
        for k in sorted(set(row) | set(want), key=repr):
            yield table_ob(fx, 'CHAR_COUNT_INDICATOR_LENGTH', f'{name}/{k}', row.get(k), want.get(k))
    # version_range maps 1..40 onto the three classes
    it = Interp()
    vr = make_callable(fx.forest, 'encoder', 'version_range', it)
    bad = [(v, vr(v)) for v in range(1, 41) if vr(v) != ranges[iso.version_range(v)]]
    yield ob('version_range boundaries 9/10 and 26/27', not bad, fx.fn('encoder', 'version_range'), got=bad, want=[])


def _oracle_first_fit(fx, mode_names, error, eci, micro, needf):
    """First admissible version per the property, or None (overflow).  error: level letter or None."""
    for v in iso.ALL_VERSIONS:
        if v < 1:
            if micro is False or eci:
                continue
            if any(v not in iso.SUPPORTED[m] for m in mode_names):
                continue
            if v == -3 and error is not None:
                continue
            lvl = None if v == -3 else (error or 'L')
            if lvl not in iso.levels_of(v):
                continue
        else:
            if micro is True:
                continue
            lvl = error or 'L'
        if needf(v) <= iso.capacity_bits(v, lvl):
            return v
    return None


MODE_SETS = (('numeric',), ('alphanumeric',), ('byte',), ('kanji',), ('hanzi',), ('numeric', 'byte'),
             ('alphanumeric', 'kanji'), ('numeric', 'alphanumeric'))


@rule('C04', 'R3', 200, 'find_version: first admissible version whose capacity >= needed bits, else DataOverflowError (abstract decision table)')
def r3(fx):
    fn = fx.fn('encoder', 'find_version')
    lv, mv, md = levels(fx), micro_versions(fx), modes(fx)
    inv_v = {val: k for k, val in mv.items()}
    it = Interp(max_steps=50_000_000)
    genv = encoder_env(fx.forest, it)
    fv = FuncVal(fn, genv, it)
    real_sizer = FuncVal(fx.fn('encoder', 'Segments.bit_length_with_overhead'), genv, it)
    sizer_cache = {}
    thorough = fx.tier == 'thorough'
    targets = list(iso.ALL_VERSIONS) if thorough else [-3, -2, -1, 0, 1, 2, 9, 10, 26, 27, 39, 40]
    n_cases = 0
    for micro in (None, True, False):
        for error in (None, 'L', 'M', 'Q', 'H'):
            for eci in (False, True):
                if eci and micro:
                    continue    # excluded by encode before find_version is reached (C14.R4); asserted here
                for mset in MODE_SETS:
                    bad = None
                    cnt = 0
                    for tgt in targets:
                        for kind in ('from', 'exact', 'over'):
                            def lvl_of(v):
                                return None if v == -3 else (error or 'L')

                            # a content whose bit count is what a real one's is: payload + the headers of its segments in the
                            # version asked about (the same within a character-count class, growing from class to class)
                            def header(v, mset=mset):
                                if v >= 1:
                                    return sum(4 + iso.CCI[m][iso.version_range(v)] + (4 if m == 'hanzi' else 0) for m in mset)
                                if any(v not in iso.SUPPORTED[m] for m in mset):
                                    return 0
                                return sum({-3: 0, -2: 1, -1: 2, 0: 3}[v] + iso.CCI[m][v] for m in mset)
                            l_t = lvl_of(tgt)
                            if kind == 'from':
                                payload = 1
                            else:
                                if l_t not in iso.levels_of(tgt) or (tgt < 1 and any(tgt not in iso.SUPPORTED[m] for m in mset)):
                                    continue
                                payload = iso.capacity_bits(tgt, l_t) - header(tgt) + (1 if kind == 'over' else 0)
                                if payload < 1:
                                    continue

                            def needf(v, payload=payload):
                                return payload + header(v)
                            segs = SegmentsModel([SegModel(md[m], None) for m in mset])

                            def blwo(version, e, sa=False, nf_=needf, segs=segs, mset=mset):
                                # the repository's own sizer decides whether (mode, version) has a width at all
                                # (it raises KeyError otherwise); the amount is the one this case prescribes
                                ck = (mset, version, e, sa)
                                if ck not in sizer_cache:
                                    try:
                                        real_sizer(segs, version, e, sa)
                                        sizer_cache[ck] = None
                                    except PyRaise as ex:
                                        sizer_cache[ck] = ex
                                if sizer_cache[ck] is not None:
                                    raise sizer_cache[ck]
                                return nf_(inv_v.get(version, version))
                            segs._blwo = blwo
                            want = _oracle_first_fit(fx, mset, error, eci, micro, needf)
                            try:
                                got = fv(segs, None if error is None else lv[error], eci, micro)
                                got = inv_v.get(got, got)
                                gtxt = got
                            except PyRaise as e:
                                got = None if e.name == 'DataOverflowError' else f'raises {e.name}'
                                gtxt = f'raises {e.name}'
                            cnt += 1
                            if got != want and bad is None:
                                bad = (tgt, kind, gtxt, want)
                    n_cases += cnt
                    key = f'micro={micro} error={error} eci={eci} modes={"+".join(mset)}'
                    yield ob(key, bad is None, fn,
                             got=(f'smallest fitting v{bad[0]} ({bad[1]}): returns {bad[2]}' if bad else f'{cnt} cases agree'),
                             want=(f'{"DataOverflowError" if bad[3] is None else "v" + str(bad[3])}' if bad else 'first admissible fitting version'))
    fx.info['C04.R3 find_version runs'] = n_cases


def _encode_stub_env(fx, it, guessed, seg=None, level=None):
    """Environment for interpreting encode() with content abstracted away.  seg: (mode name, encoding) of the content.
    The content 'needs version `guessed` at level `level`': the version search stand-in returns `guessed`, and the content's
    bit count (asked for by code that tests one version directly) is one more than the capacity of the version below it."""
    md = modes(fx)
    rec = {}
    cap = C(fx, 'SYMBOL_CAPACITY')
    lvs = levels(fx)
    mvs = micro_versions(fx)
    order = [mvs[v] if v < 1 else v for v in iso.ALL_VERSIONS]

    def blwo(version, eci='<not passed>', is_sa=False):
        if isinstance(guessed, str):
            return 10 ** 9
        lv_ = None if level is None else lvs[level]
        i = order.index(guessed)
        below = None
        for v in reversed(order[:i]):
            row = cap.get(v, {})
            # the level asked for; without one, the default level of that version (L, none for M1)
            key = lv_ if level is not None else (lvs['L'] if lvs['L'] in row else None)
            if key in row:
                below = row[key]
                break
        return 1 if below is None else below + 1

    def prepare_data(content, mode, encoding):
        rec['prepare'] = (mode, encoding)
        if seg is not None:
            return SegmentsModel([SegModel(md[seg[0]], seg[1])], blwo=blwo)
        return SegmentsModel([SegModel(mode if mode is not None else md['byte'], None)], blwo=blwo)

    def find_version(segments, error, eci, micro, is_sa=False):
        rec['find_version'] = (error, eci, micro, is_sa)
        rec['find_version_segments'] = segments
        if isinstance(guessed, str):
            from ..interp import Raised
            raise Raised(None, it.exc_class(ast.parse('DataOverflowError', mode='eval').body, genv), 'overflow')
        return guessed

    ref = ['segments', 'error', 'version', 'mask', 'eci', 'boost_error', 'sa_info']

    def _encode(*a, **k):
        vals = dict(zip(ref, a))
        vals.update(k)
        missing = [n_ for n_ in ref[:6] if n_ not in vals]
        if missing or set(vals) - set(ref):
            # encode talks to _encode through another interface than the reference one: these rules cannot read the call
            raise Unknown(f'encode calls _encode without {missing or sorted(set(vals) - set(ref))}: the internal interface changed, the decision table cannot be read off the call')
        rec['_encode'] = {n_: vals[n_] for n_ in ref[1:6]}
        rec['_encode_segments'] = vals['segments']
        return ('CODE', vals['version'], vals['error'], vals['mask'])
    try:
        have = src.all_params(fx.fn('encoder', '_encode'))
    except Unknown:
        have = None
    if have == ref:
        genv = encoder_env(fx.forest, it, prepare_data=prepare_data, find_version=find_version, _encode=_encode)
        return genv, rec
    # The private entry point was reorganised: what `encode` asks for is read off the leaf stages of symbol creation instead
    # (level given to the booster or, without boosting, to the final message; version of the final message; mask requested
    # from the mask stage; ECI flag of the segment writer).
    from .models import SymbolTrace

    def code_result(n_, sym):
        if sym['problems']:
            raise Unknown('symbol creation could not be traced from stage to stage: ' + '; '.join(sym['problems']))
        boost = sym['boost']
        eci = sym['eci'][0] if len(sym['eci']) == 1 else tuple(sym['eci'])
        rec['_encode'] = dict(error=boost['error'] if boost is not None else sym['final']['error'], version=sym['final']['version'],
                              mask=sym['mask_requested'], eci=eci, boost_error=boost is not None)
        rec['_encode_segments'] = sym['code']['segments']
        return ('CODE', rec['_encode']['version'], rec['_encode']['error'], rec['_encode']['mask'])
    trace = SymbolTrace(fx, code_result=code_result)
    genv = trace.bind(encoder_env(fx.forest, it, prepare_data=prepare_data, find_version=find_version, **trace.env), it)
    return genv, rec


@rule('C04', 'R4', 30, 'encode: a requested version is returned iff the smallest fitting version is not larger; else DataOverflowError')
def r4(fx):
    fn = fx.fn('encoder', 'encode')
    mv = micro_versions(fx)
    it = Interp()
    for req, level in [(r, None) for r in (-3, -2, -1, 0, 1, 2, 10, 39, 40)] + [(-2, 'M'), (0, 'Q'), (1, 'M'), (1, 'H'), (2, 'Q'), (10, 'M'), (40, 'H'), (7, 'L')]:
        bad = None
        n = 0
        for guessed in list(iso.ALL_VERSIONS):
            if level is not None and level not in iso.levels_of(guessed):
                continue
            genv, rec = _encode_stub_env(fx, it, mv[guessed] if guessed < 1 else guessed, level=level)
            f = FuncVal(fn, genv, it)
            micro = None
            try:
                res = f('<content>', level, f'M{req + 4}' if req < 1 else req, None, None, None, False, micro, False)
                got = ('version', res[1])
            except PyRaise as e:
                got = ('raises', e.name)
            want = ('version', mv[req] if req < 1 else req) if guessed <= req else ('raises', 'DataOverflowError')
            n += 1
            if got != want and bad is None:
                bad = (guessed, got, want)
        yield ob(f'requested v{req}{" level " + level if level else ""} vs every smallest-fitting version ({n})', bad is None, fn,
                 got=f'smallest fitting v{bad[0]}: {bad[1]}' if bad else 'exactly the requested version, or DataOverflowError',
                 want=f'{bad[2]}' if bad else 'exactly the requested version, or DataOverflowError')
    # no version requested: the guessed one is passed on; overflow propagates
    for guessed in (-3, 0, 1, 40):
        genv, rec = _encode_stub_env(fx, it, mv[guessed] if guessed < 1 else guessed)
        res = FuncVal(fn, genv, it)('<content>', None, None, None, None, None, False, None, True)
        yield ob(f'no version requested: smallest fitting v{guessed} is used', res[1] == (mv[guessed] if guessed < 1 else guessed),
                 fn, got=res[1], want=guessed)
    genv, rec = _encode_stub_env(fx, it, 'overflow')
    try:
        FuncVal(fn, genv, it)('<content>', None, None, None, None, None, False, None, True)
        got = 'returned'
    except PyRaise as e:
        got = e.name
    yield ob('overflow of the search propagates', got == 'DataOverflowError', fn, got=got, want='DataOverflowError')
    # DataOverflowError is a ValueError
    cls = fx.forest.cls('encoder', 'DataOverflowError')
    yield ob('DataOverflowError subclasses ValueError', [ast.unparse(b) for b in cls.bases] == ['ValueError'], cls,
             got=[ast.unparse(b) for b in cls.bases], want=['ValueError'])
    # the same eci / micro reach the search
    for eci in (False, True):
        for micro in (None, False):
            for seg in (('byte', 'iso-8859-1'), ('byte', 'utf-8'), ('numeric', None), ('kanji', None)):
                genv, rec = _encode_stub_env(fx, it, 1, seg=seg)
                FuncVal(fn, genv, it)('<content>', 'm', None, None, None, None, eci, micro, True)
                e = rec.get('find_version')
                yield ob(f'search sees eci={eci} micro={micro} and the requested level ({seg[0]}/{seg[1]} content)', e is not None and e[1] is eci
                         and e[2] is micro and e[0] == levels(fx)['M'] and rec['_encode']['eci'] is eci, fn, got=e, want=('M', eci, micro))


@rule('C04', 'R5', 5, 'every _encode call is preceded by a version search over the very segments it is given, with a result not above the version it is given')
def r5(fx):
    # encode(): the segments searched are the segments encoded (that the version is not below the result is R4)
    fn = fx.fn('encoder', 'encode')
    it = Interp()
    for req, guessed in ((None, 7), (10, 7), ('M4', -1)):
        genv, rec = _encode_stub_env(fx, it, guessed)
        FuncVal(fn, genv, it)('<content>', None, req, None, None, None, False, None, True)
        v = rec.get('_encode', {}).get('version')
        segs_ = rec.get('_encode_segments')
        # the fit is established by a version search over the same segments, or by asking the same segments for their bit
        # count in the very version that is encoded (that the comparison is the right one is R4)
        same = segs_ is not None and (segs_ is rec.get('find_version_segments') or any(c[0] == v for c in getattr(segs_, 'blwo_calls', ())))
        yield ob(f'encode(version={req}), smallest fitting {guessed}: the segments searched are the segments encoded, version >= result',
                 same and v is not None and v >= guessed, fn, got=f'same segments: {same}, version passed {v}', want=f'same segments, version >= {guessed}')
    from . import p08
    yield from p08.fit_witness(fx)


@rule('C04', 'R7', 32, 'Segments bookkeeping (bit_length, modes) stays equal to the segments it describes, also when parts are merged (C01.R5)')
def r7(fx):
    from . import p01
    yield from p01.r5(fx)


@rule('C04', 'R6', 300, 'bits budgeted by bit_length_with_overhead = bits written by write_segment/_encode for every version, mode, ECI, SA combination')
def r6(fx):
    yield from sized_equals_written(fx)


def sized_equals_written(fx):
    """For every version / segment list / eci / Structured Append combination: the number of bits `_encode` has written when it
    reaches the terminator (real write_segment on a recording buffer, later stages replaced by stand-ins) equals the number the
    real Segments object - filled through its own add_segment - budgets with bit_length_with_overhead."""
    from ..interp import Instance
    from .models import trace_encode
    fn_s = fx.fn('encoder', 'Segments.bit_length_with_overhead')
    lv, mv, md = levels(fx), micro_versions(fx), modes(fx)
    default_enc = C(fx, 'DEFAULT_BYTE_ENCODING')
    seglists = [
        [('numeric', None)], [('alphanumeric', None)], [('byte', default_enc)], [('byte', 'utf-8')], [('kanji', None)],
        [('hanzi', None)],
        [('hanzi', None), ('numeric', None), ('hanzi', None)],
        [('byte', 'utf-8'), ('byte', default_enc), ('kanji', None)],
        [('numeric', None), ('byte', 'shift_jis'), ('alphanumeric', None), ('byte', 'utf-8')],
        [('byte', 'utf-8'), ('numeric', None), ('byte', 'utf-8'), ('kanji', None), ('byte', 'utf-8')],
        # adjacent parts that add_segment merges into one segment: their headers are budgeted once
        [('hanzi', None), ('hanzi', None)], [('byte', 'utf-8'), ('byte', 'utf-8'), ('byte', 'utf-8')], [('kanji', None), ('kanji', None)],
        [('alphanumeric', None), ('alphanumeric', None)], [('byte', default_enc), ('byte', default_enc)],
        # other spellings of the default encoding: whatever the writer decides about the ECI header, the budget decides the same
        [('byte', 'latin1')], [('byte', 'ISO-8859-1')], [('byte', 'L1'), ('numeric', None)],
    ]
    it0 = Interp(max_steps=50_000_000)
    genv0 = encoder_env(fx.forest, it0, get_eci_assignment_number=lambda enc_: 26)
    try:
        ref_iface = src.all_params(fx.fn('encoder', '_encode')) == ['segments', 'error', 'version', 'mask', 'eci', 'boost_error', 'sa_info']
    except Unknown:
        ref_iface = False
    for v in iso.ALL_VERSIONS:
        rv = mv[v] if v < 1 else v
        level = iso.levels_of(v)[0]
        for sl in seglists:
            if any((None if v >= 1 else v) not in iso.SUPPORTED[m] for m, e in sl):
                continue
            for eci in (False, True):
                if eci and v < 1:
                    continue
                for sa in ((False, True) if v >= 1 else (False,)):
                    segs = [SegModel(md[m], e, nbits=13 + 3 * i, char_count=2) for i, (m, e) in enumerate(sl)]
                    inst = Instance.new(fx.forest, 'encoder', 'Segments', genv0, it0)
                    for sg in segs:
                        inst.add_segment(sg)
                    if sa and not ref_iface and len(inst.segments) != 1:
                        continue        # _encode was reorganised: the public sequence entry point builds one segment per symbol
                    rec, res, info = trace_encode(fx, rv, level, level, eci=eci, sa_info=SAModel((3, 1, 2, 99)) if sa else None, segments=inst,
                                                  real_write_segment=True, extra={'get_eci_assignment_number': lambda enc_: 26})
                    term = [r for r in rec if r[0] == 'write_terminator']
                    need(len(term) == 1, '_encode: one write_terminator call expected')
                    written = term[0][3]
                    sized = inst.bit_length_with_overhead(rv, eci, sa)
                    key = f'v{v} {"+".join(m + ("" if e in (None, default_enc) else "/" + e) for m, e in sl)} eci={eci} sa={sa}'
                    yield Ob(key, written == sized, 'encoder.Segments.bit_length_with_overhead', fn_s.lineno,
                             f'budgeted {sized} bits, written {written} bits', 'equal', True)


def _caller_convention(fx, enc):
    """What _encode tells write_segment about the version: (version) -> the (ver, ver_range) arguments of the call, read from
    a stage trace of _encode (every stage but the call itself replaced by a recorder)."""
    from .models import trace_encode
    mv = micro_versions(fx)
    inv = {rv: v for v, rv in mv.items()}
    wsf = fx.fn('encoder', 'write_segment')
    pnames = src.all_params(wsf)
    need(len(pnames) >= 4, 'write_segment(buff, segment, ver, ver_range, ...)')
    cache = {}

    def conv(rv, vr):
        if rv in cache:
            return cache[rv]
        v = inv.get(rv, rv)
        level = iso.levels_of(v)[0]
        rec, _, _ = trace_encode(fx, rv, level, level)
        calls = [r for r in rec if r[0] == 'write_segment']
        need(calls, '_encode does not call write_segment')
        a, k = calls[0][1], calls[0][2]
        vals = dict(zip(pnames, a))
        vals.update(k)
        need(pnames[2] in vals and pnames[3] in vals, '_encode: write_segment is called without its version arguments')
        cache[rv] = (vals[pnames[2]], vals[pnames[3]])
        return cache[rv]
    return conv


def _caller_convention_named(fx, enc, names):
    """How _encode derives (ver, ver_range) for write_segment from version: the statements of _encode that define the two
    arguments (backward slice from the call, `version` being the input) are interpreted."""
    from .common import defining_statements
    it = Interp()
    calls = [c for c in src.calls_in(enc, 'write_segment')]
    need(len(calls) == 1 and len(calls[0].args) >= 4 and all(isinstance(a, ast.Name) for a in calls[0].args[2:4]),
         '_encode: one write_segment(buff, segment, <ver>, <ver_range>, ...) call expected')
    vnames = [a.id for a in calls[0].args[2:4]]
    params = set(src.params(enc))
    pre = defining_statements(enc, set(vnames), provided=params)
    need(pre, '_encode: derivation of ver / ver_range not found')
    genv = encoder_env(fx.forest, it)

    def conv(rv, vr):
        e = dict(genv, version=rv)
        it.block(pre, e)
        return e[vnames[0]], e[vnames[1]]
    return conv
