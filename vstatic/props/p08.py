"""Rules for C08 (see DESIGN.md section 5)."""
