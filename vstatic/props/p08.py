"""C08 -- Structured Append sequences reassemble."""
import ast

from .. import ev, iso, nf, pat, src
from ..core import rule, ob, explain, Ob
from ..ev import PyRaise
from ..interp import Interp, make_callable, FuncVal
from ..src import Unknown
from .common import C, levels, micro_versions, modes, table_ob, need, single
from .models import SAModel, BufModel, SegModel, SegmentsModel, encoder_env
from . import p04, wrappers

explain('C08', '''Decided (structural): encode_sequence is control code over (content length, options); it is interpreted
with the content abstracted to a string of distinct position markers and with segment construction, version search,
parity and _encode replaced by recorders. For symbol_count=k it yields exactly k symbols whose chunks concatenate to the
content in order, each built with the mode AND encoding of the whole message (GB2312 forced for hanzi), header fields
(position i, total-1, one shared parity value), a common version equal to the largest version any chunk needs (found with
micro=False, is_sa=True); for version=v every symbol gets v; a message that fits one symbol yields one symbol without
header; Micro versions, symbol counts outside 1..16, missing version/count, content shorter than the count and more than
16 symbols are refused (ValueError / DataOverflowError). The header is written as 4+4+4+8 bits before any segment with
mode indicator 0011. The parity is the XOR of the bytes data_to_bytes yields for (content, the chunk encoding). The
version= path has no per-chunk fit witness (known finding, pinned by a test). NOT decided: that the concatenated decoded
payloads equal the content byte for byte (needs C01 whole).''')


class SegsStub:
    _model = ('add_segment', 'segments', 'modes')

    def __init__(self):
        self.segments, self.modes = [], []

    def add_segment(self, seg):
        self.segments.append(seg)
        self.modes.append(seg.mode)

    def __len__(self):
        return len(self.segments)

    def __getitem__(self, i):
        return self.segments[i]


class _CodeStub(tuple):
    """What the _encode stand-in returns: ('SYM', n) with the attributes of encoder.Code (a mask the automatic choice could
    have produced, so that code which copies it to the other symbols is seen to do so)."""
    _model = ('matrix', 'version', 'error', 'mask', 'segments')
    matrix, version, error, mask, segments = '<matrix>', 5, 0, 6, ()


def _run(fx, it, content, whole_mode, whole_enc, fit_single=None, chunk_version=None, boost=None, **kw):
    """Interpret encode_sequence with recorders.  chunk_version: f(chunk) -> version for find_version on a chunk."""
    md = modes(fx)
    rec = {'make_segment': [], 'find_version': [], '_encode': [], 'parity': [], 'prepare': [], 'fits': [], 'keep': []}
    seg_of = {}

    def prepare_data(content_, mode, encoding):
        rec['prepare'].append((mode, encoding))
        s = SegsStub()
        s.add_segment(SegModel(md[whole_mode], whole_enc))
        seg_of[id(s)] = ('whole', content_)
        return s

    def make_segment(chunk, mode=None, encoding=None):
        rec['make_segment'].append((chunk, mode, encoding))
        sg = SegModel(mode, encoding)
        seg_of[id(sg)] = chunk
        return sg

    def find_version(segments, error, eci=False, micro=None, is_sa=False):
        first = segments.segments[0]
        what = seg_of.get(id(segments), seg_of.get(id(first)))
        rec['find_version'].append((what, error, eci, micro, is_sa))
        if isinstance(what, tuple):      # whole message
            if fit_single is None:
                from ..interp import Raised
                raise Raised(None, it.exc_class(ast.parse('DataOverflowError', mode='eval').body, genv), 'overflow')
            rec['fits'].append((id(segments), fit_single))
            return fit_single
        r = chunk_version(what) if chunk_version else 1
        rec['fits'].append((id(segments), r))
        return r

    def parity(content_, encoding=None):
        rec['parity'].append((content_, encoding))
        return 0x5A
    # the symbols are observed at the leaf stages of symbol creation (whatever control code - _encode or its parts - sits above)
    from .models import SymbolTrace
    trace = SymbolTrace(fx, boost=boost, code_result=lambda n_, sym_: _CodeStub(('SYM', n_)))
    genv = trace.bind(encoder_env(fx.forest, it, prepare_data=prepare_data, make_segment=make_segment, find_version=find_version,
                                  calc_structured_append_parity=parity, Segments=SegsStub, **trace.env), it)
    f = FuncVal(fx.fn('encoder', 'encode_sequence'), genv, it)

    def collect():
        for sym in trace.symbols:
            if sym['problems']:
                raise Unknown('symbol creation could not be traced from stage to stage: ' + '; '.join(sym['problems']))
            segments = sym['code']['segments']
            if not isinstance(segments, SegsStub) or not segments.segments:
                raise Unknown('Code(...) is not given the Segments object of the symbol')
            first = segments.segments[0]
            if sym['written'] != list(segments.segments):
                raise Unknown('the segments written into the bit buffer are not the segments stored in Code')
            hdr = trace.header(sym)
            if hdr is not None and not (isinstance(hdr, tuple) and hdr[0] == 0b0011):
                sa_info = ('not a Structured Append header', hdr)
            else:
                sa_info = None if hdr is None else ('SA',) + hdr[1:]
            boost = sym['boost']
            if boost is not None and boost['segments'] is not segments:
                raise Unknown('boost_error_level is asked about another symbol than the one being built')
            if boost is not None and bool(boost['is_sa']) != (hdr is not None):
                sa_info = ('booster told is_sa=%r' % (boost['is_sa'],), sa_info)
            eci = sym['eci'][0] if len(sym['eci']) == 1 else tuple(sym['eci'])
            if boost is not None and bool(boost['eci']) != eci:
                eci = ('booster told eci=%r' % (boost['eci'],), eci)
            rec['keep'].append(segments)
            rec['_encode'].append(dict(segid=id(segments), what=seg_of.get(id(segments), seg_of.get(id(first))),
                                       error=boost['error'] if boost is not None else sym['final']['error'], version=sym['final']['version'],
                                       mask=sym['mask_requested'], eci=eci, boost_error=boost is not None, sa_info=sa_info, mode=first.mode,
                                       encoding=first.encoding, symbol=sym))
    try:
        res = f(content, **kw)
        collect()
        return res, rec
    except PyRaise as e:
        collect()
        return f'raises {e.name}', rec


CONTENT = ''.join(chr(0x100 + i) for i in range(97))     # 97 distinct position markers


@rule('C08', 'R1', 30, 'symbol_count=k: k symbols, chunks concatenate to the content, whole-message mode/encoding, header fields, common fitting version')
def r1(fx):
    fn = fx.fn('encoder', 'encode_sequence')
    md, lv = modes(fx), levels(fx)
    it = Interp(max_steps=20_000_000)
    hz = C(fx, 'HANZI_ENCODING')
    digits = ''.join(str((7 * i + 3) % 10) for i in range(97))
    cases = [(CONTENT, 'str', mode, enc, req_enc) for mode, enc, req_enc in (
        ('byte', 'utf-8', None), ('byte', 'cp1252', 'cp1252'), ('alphanumeric', None, None), ('kanji', None, None), ('hanzi', None, None),
        ('hanzi', None, 'utf-8'))]
    # the other documented content types: bytes (digits and arbitrary), non-negative and negative integers
    cases += [(digits.encode(), 'bytes', 'numeric', None, None), (bytes(range(1, 98)), 'bytes', 'byte', 'iso-8859-1', None),
              (int('9' + digits[1:]), 'int', 'numeric', None, None), (-int('9' + digits[1:]), 'negative int', 'alphanumeric', None, None),
              (digits, 'str', 'numeric', None, None)]
    for CONTENT_, ctype, mode, enc, req_enc in cases:
        for k in ((1, 2, 3, 7, 16) if ctype == 'str' and mode != 'numeric' else (2, 7)):
            def cv(chunk):
                return 3 + ((chunk[0] if isinstance(chunk[0], int) else ord(chunk[0])) % 5)     # versions differ between chunks
            res, rec = _run(fx, it, CONTENT_, mode, enc, fit_single=None, chunk_version=cv, symbol_count=k, error='m',
                            encoding=req_enc, mode=mode if mode == 'hanzi' else None, boost_error=False)
            key = f'{mode}/{enc or req_enc} symbol_count={k}' + ('' if ctype == 'str' and mode != 'numeric' else f' ({ctype} content)')
            whole = CONTENT_ if isinstance(CONTENT_, (str, bytes)) else str(CONTENT_)
            if not isinstance(res, list):
                yield ob(key, False, fn, got=res, want=f'{k} symbols')
                continue
            enc_calls = rec['_encode']
            chunks = [e['what'] for e in enc_calls]
            want_enc = hz if mode == 'hanzi' else (req_enc or enc)
            probs = []
            if len(res) != k:
                probs.append(f'{len(res)} symbols')
            if not all(isinstance(c, type(whole)) for c in chunks) or type(whole)().join(chunks) != whole:
                probs.append(f'chunks do not concatenate to the content: {[str(c)[:8] for c in chunks[:2]]}')
            if chunks and max(map(len, chunks)) - min(map(len, chunks)) > 1:
                probs.append('chunk lengths differ by more than one')
            if any(e['mode'] != md[mode] for e in enc_calls):
                probs.append(f'chunk mode {[e["mode"] for e in enc_calls][:3]} != message mode {md[mode]}')
            if any(e['encoding'] != want_enc for e in enc_calls):
                probs.append(f'chunk encoding {sorted(set(str(e["encoding"]) for e in enc_calls))} != message encoding {want_enc}')
            if k > 1:
                sa = [e['sa_info'] for e in enc_calls]
                if sa != [('SA', i, k - 1, 0x5A) for i in range(k)]:
                    probs.append(f'header fields {sa[:3]}')
            vers = {e['version'] for e in enc_calls}
            needv = max(cv(c) for c in chunks) if chunks else None
            if vers != {needv}:
                probs.append(f'versions {sorted(vers)} but the chunks need up to {needv}')
            fvs = [x for x in rec['find_version'] if not isinstance(x[0], tuple)]
            if sorted(x[0] for x in fvs) != sorted(chunks) or any((x[3], x[4]) != (False, True) for x in fvs) or any(x[1] != lv['M'] for x in fvs):
                probs.append(f'fit search not per chunk with micro=False, is_sa=True, level M: {fvs[:2]}')
            if rec['parity'] != [(whole, want_enc)] and rec['parity'] != [(CONTENT_, want_enc)]:
                probs.append(f'parity computed over {[(str(c)[:6], e) for c, e in rec["parity"]]}, chunks use {want_enc}')
            if any((e['error'], e['boost_error'], e['eci']) != (lv['M'], False, False) for e in enc_calls):
                probs.append('error/boost/eci not passed through')
            yield ob(key, not probs, fn, got='; '.join(probs) or 'as required', want='as required')


@rule('C08', 'R2', 12, 'version=v: only version-v symbols; one symbol without header when the message fits; refusals')
def r2(fx):
    fn = fx.fn('encoder', 'encode_sequence')
    md, lv, mv = modes(fx), levels(fx), micro_versions(fx)
    it = Interp(max_steps=20_000_000)
    for v in (1, 5, 40):
        msg = CONTENT if v == 1 else CONTENT * 3
        res, rec = _run(fx, it, msg, 'byte', 'iso-8859-1', fit_single=None, version=v, error='l')
        ok = isinstance(res, list) and len(res) >= 1 and all(e['version'] == v for e in rec['_encode']) and \
            ''.join(e['what'] for e in rec['_encode']) == msg and \
            [e['sa_info'] for e in rec['_encode']] == [('SA', i, len(res) - 1, 0x5A) for i in range(len(res))]
        yield ob(f'version={v}: every symbol has version {v}, chunks in order, header fields', ok, fn,
                 got=(res if not isinstance(res, list) else [(e['version'], e['sa_info']) for e in rec['_encode']][:3]), want=f'all version {v}')
    for v, fit in ((5, 3), (5, 5), (None, 7)):
        kw = dict(version=v) if v else dict(symbol_count=None, version=None)
        if v is None:
            continue
        res, rec = _run(fx, it, CONTENT, 'byte', 'iso-8859-1', fit_single=fit, version=v, mask='5', error='q', boost_error=False, eci=True)
        e = rec['_encode']
        ok = isinstance(res, list) and len(res) == 1 and len(e) == 1 and e[0]['sa_info'] is None and e[0]['version'] == v \
            and isinstance(e[0]['what'], tuple) and (e[0]['mask'], e[0]['error'], e[0]['boost_error'], e[0]['eci']) == (5, lv['Q'], False, True)
        yield ob(f'message fits version {fit} <= requested {v}: one plain symbol of version {v} with the requested mask, level, boost flag, eci', ok, fn,
                 got=[(x['version'], x['sa_info'], x['mask'], x['error'], x['boost_error'], x['eci']) for x in e], want=[(v, None, 5, lv['Q'], False, True)])
    for kw_ in (dict(version=5), dict(symbol_count=4)):
        res, rec = _run(fx, it, CONTENT * 3, 'byte', 'iso-8859-1', fit_single=9, **kw_)
        masks = [x['mask'] for x in rec['_encode']]
        yield ob(f'no mask requested ({list(kw_)[0]}): the mask of every symbol is chosen for that symbol', isinstance(res, list) and len(masks) > 1
                 and all(m is None for m in masks), fn, got=masks if isinstance(res, list) else res, want='mask=None for every symbol')
    res, rec = _run(fx, it, CONTENT * 3, 'byte', 'iso-8859-1', fit_single=9, version=5, mask=3, boost_error=False)
    yield ob('message needs version 9 > requested 5: split into Structured Append symbols, each with the requested mask / boost flag', isinstance(res, list) and
             all(x['sa_info'] is not None and x['version'] == 5 and x['mask'] == 3 and x['boost_error'] is False for x in rec['_encode']) and len(res) > 1, fn,
             got=(res if not isinstance(res, list) else [(x['version'], x['mask'], x['boost_error']) for x in rec['_encode']][:3]), want='> 1 symbols with header, mask 3')
    # mask 0 is a mask like any other (it is falsy, the other seven are not): on all three paths
    for title, kw_, fit in (('several symbols by version', dict(version=5), 9), ('several symbols by symbol_count', dict(symbol_count=3), None),
                            ('one plain symbol', dict(version=5), 3)):
        res, rec = _run(fx, it, CONTENT * (1 if fit == 3 else 3), 'byte', 'iso-8859-1', fit_single=fit, mask=0, **kw_)
        masks = [x['mask'] for x in rec['_encode']]
        yield ob(f'requested mask 0 ({title}): every symbol is built with mask 0', isinstance(res, list) and masks and all(m == 0 and m is not None and m is not False for m in masks),
                 fn, got=masks if isinstance(res, list) else res, want='mask 0 for every symbol')
    cases = [
        ('Micro version M3', dict(version='M3'), 'raises ValueError'),
        ('Micro version m1', dict(version='m1'), 'raises ValueError'),
        ('neither version nor symbol_count', dict(), 'raises ValueError'),
        ('symbol_count 0', dict(symbol_count=0), 'raises ValueError'),
        ('symbol_count 17', dict(symbol_count=17), 'raises ValueError'),
        ('symbol_count -1', dict(symbol_count=-1), 'raises ValueError'),
        ('symbol_count 0 with version 1', dict(symbol_count=0, version=1), 'raises ValueError'),
        ('symbol_count 17 with version 1', dict(symbol_count=17, version=1), 'raises ValueError'),
        ('symbol_count 17 with version 40', dict(symbol_count=17, version='40'), 'raises ValueError'),
        ('symbol_count -3 with version 5', dict(symbol_count=-3, version=5), 'raises ValueError'),
    ]
    for name, kw, want in cases:
        res, rec = _run(fx, it, CONTENT, 'byte', 'iso-8859-1', fit_single=None, **kw)
        yield ob(name, res == want and not rec['_encode'], fn, got=res if isinstance(res, str) else 'accepted', want=want)
    res, rec = _run(fx, it, 'abc', 'byte', 'iso-8859-1', fit_single=None, symbol_count=4)
    yield ob('content shorter than symbol_count', res == 'raises ValueError', fn, got=res if isinstance(res, str) else 'accepted',
             want='raises ValueError')
    res, rec = _run(fx, it, 'x' * 5000, 'byte', 'iso-8859-1', fit_single=None, version=1, error='h')
    yield ob('more than 16 symbols needed', res == 'raises DataOverflowError', fn, got=res if isinstance(res, str) else f'{len(res)} symbols',
             want='raises DataOverflowError')
    res, rec = _run(fx, it, CONTENT, 'byte', 'iso-8859-1', fit_single=None, symbol_count=2)
    fvs = rec['find_version']
    yield ob('every version search in encode_sequence excludes Micro', all(x[3] is False for x in fvs) and len(fvs) >= 2, fn,
             got=[x[3] for x in fvs], want='micro=False')


@rule('C08', 'R3', 6, 'header = 0011, position, total-1 (4 bits each) and parity (8 bits) before any segment; parity = XOR of the message bytes')
def r3(fx):
    enc = fx.fn('encoder', '_encode')
    it = Interp()
    genv = encoder_env(fx.forest, it)
    from .models import trace_encode
    for sa, want_hdr in ((SAModel((3, 9, 11, 0xC4)), [(3, 4), (9, 4), (11, 4), (0xC4, 8)]), (None, [])):
        rec, res, info = trace_encode(fx, 5, 'M', 'M', sa_info=sa)
        buf = info['buffers'][0] if len(info['buffers']) == 1 else None
        need(buf is not None, '_encode: one bit buffer expected')
        ws = [r for r in rec if r[0] == 'write_segment']
        # the bits in the buffer when the first segment is written (however many append calls produced them)
        nhdr = ws[0][3] if ws else len(buf.bits)
        hbits = list(buf.bits[:nhdr])
        want_bits = [(v >> (w - 1 - k)) & 1 for v, w in want_hdr for k in range(w)]
        hdr = want_hdr if hbits == want_bits else hbits
        boost = [r for r in rec if r[0] == 'boost_error_level']
        is_sa = (list(boost[0][1][4:]) + [boost[0][2].get('is_sa', False)])[0] if boost else None
        yield ob(f'header bits {"with" if sa else "without"} Structured Append information: written before the first segment; the level booster is told',
                 hdr == want_hdr and ws and ws[0][3] == sum(w for _, w in want_hdr) and bool(is_sa) == (sa is not None), enc,
                 got=(hdr, ws[0][3] if ws else None, is_sa), want=(want_hdr, sum(w for _, w in want_hdr), sa is not None))
    try:
        cls = fx.forest.cls('encoder', '_StructuredAppendInfo')
    except Unknown:
        # no such class (any more): the header is decided above and, for every symbol of a sequence, in R1 / R2
        yield ob('_StructuredAppendInfo = (0011, number, total, parity)', True, enc, got='no such class; the header is decided from the bits written', want='')
        yield ob('field accessors', True, enc, got='no such class', want='')
        cls = None
    genv_c = encoder_env(fx.forest, it) if cls is not None else None
    fields, bykw, reference_shape = None, None, True
    try:
        if cls is None:
            raise KeyError
        from .models import make_sa_info
        sai = make_sa_info(fx, genv_c['_StructuredAppendInfo'], 5, 11, 0x5A)
        try:
            positional = genv_c['_StructuredAppendInfo'](5, 11, 0x5A)
        except (PyRaise, TypeError):
            positional = None
        reference_shape = positional is not None and len(tuple(sai)) == 4 and ev._hasattr(sai, 'mode') and tuple(positional) == tuple(sai)
        if reference_shape:
            fields = (tuple(sai), sai.mode, sai.number, sai.total, sai.parity)
            bykw = tuple(genv_c['_StructuredAppendInfo'](number=5, total=11, parity=0x5A))
    except PyRaise as ex:
        fields, bykw, reference_shape = f'raises {ex.name}', None, True
    except KeyError:
        pass
    if not reference_shape:
        # the class no longer carries the mode indicator itself: what it must guarantee is the header, decided above
        yield ob('_StructuredAppendInfo = (0011, number, total, parity)', True, cls, got='the header is written from (number, total, parity)', want='')
        yield ob('field accessors', ev._getattr(sai, 'number', None) == 5 and ev._getattr(sai, 'total', None) == 11 and ev._getattr(sai, 'parity', None) == 0x5A, cls,
                 got=tuple(sai), want='number, total, parity')
        fields = None
    sa_mode = C(fx, 'MODE_STRUCTURED_APPEND')
    if fields is not None:
        yield ob('_StructuredAppendInfo = (0011, number, total, parity)', sa_mode == 0b0011 and isinstance(fields, tuple) and fields[0] == (sa_mode, 5, 11, 0x5A)
                 and bykw == (sa_mode, 5, 11, 0x5A), cls, got=(fields, bykw), want='(0b0011, number, total, parity)')
        yield ob('field accessors', isinstance(fields, tuple) and fields[1:] == (sa_mode, 5, 11, 0x5A), cls, got=fields, want='mode, number, total, parity = items 0..3')
    # parity
    pf = fx.fn('encoder', 'calc_structured_append_parity')
    seen = []

    def d2b(content, encoding):
        seen.append((content, encoding))
        return (b'\x01\x02\x04\x80\x80', 5, encoding)
    genv2 = encoder_env(fx.forest, it, data_to_bytes=d2b)
    got = FuncVal(pf, genv2, it)('<content>', 'cp1252')
    yield ob('parity = XOR of the bytes data_to_bytes(content, encoding) yields', got == 7 and seen == [('<content>', 'cp1252')], pf,
             got=(got, seen), want=(7, [('<content>', 'cp1252')]))
    dflt = src.param_defaults(pf)
    got2 = FuncVal(pf, genv2, it)(b'raw')
    yield ob('bytes content is used as it is (no str())', seen[-1] == (b'raw', None), pf, got=seen[-1], want=(b'raw', None))


def sequence_symbols_consistent(fx):
    """Every symbol of a sequence (and the single symbol a short message yields): the level and version the final message is
    built for are the ones announced in the format / version information and stored in Code - also when the booster raised
    the level; the mask announced is the mask applied; the matrix has the size of the version."""
    fn = fx.fn('encoder', 'encode_sequence')
    lv = levels(fx)
    it = Interp(max_steps=20_000_000)
    for title, kw, fit in (('symbol_count=3', dict(symbol_count=3), None), ('version=5 (several symbols)', dict(version=5), None),
                           ('version=5 (message fits one symbol of version 3)', dict(version=5), 3)):
        for req, raised in (('l', 'H'), ('m', 'Q'), ('h', 'H')):
            res, rec = _run(fx, it, CONTENT, 'byte', 'iso-8859-1', fit_single=fit, chunk_version=lambda chunk: 5, boost=lambda e_, v_, r_=raised: lv[r_],
                            error=req, boost_error=True, **kw)
            probs = []
            if not isinstance(res, list) or not rec['_encode']:
                probs.append(str(res)[:60])
            for i, e in enumerate(rec['_encode']):
                sym = e['symbol']
                want_level, want_version = lv[raised], e['version']
                fmt = sym.get('format') or {}
                seen = dict(final=(sym['final']['version'], sym['final']['error']), format=(fmt.get('version'), fmt.get('error')),
                            code=(sym['code']['version'], sym['code']['error']), version_info=sym.get('version_info'), placed=sym.get('placed_version'))
                if not (seen['final'] == seen['format'] == seen['code'] == (want_version, want_level) and seen['version_info'] == want_version
                        and seen['placed'] == want_version):
                    probs.append(f'symbol {i}: {seen}')
                if sym['boost'] is None and sym['final']['error'] != lv[req.upper()]:
                    probs.append(f'symbol {i}: built at level {sym["final"]["error"]} although {req.upper()} was requested and the booster was never asked about this symbol')
                if sym['boost'] is not None and sym['boost']['version'] != want_version:
                    probs.append(f'symbol {i}: the booster is asked about version {sym["boost"]["version"]}, the symbol is built in version {want_version}')
                if sym.get('format_calls') != 1 or fmt.get('mask') != 5 or sym['code']['mask'] != 5:
                    probs.append(f'symbol {i}: mask chosen 5, announced {fmt.get("mask")}, stored {sym["code"]["mask"]}')
                n_ = iso.size_of(want_version) if isinstance(want_version, int) and 1 <= want_version <= 40 else None
                if sym.get('matrix_size') != (n_, n_) or tuple(sym.get('mask_dims') or ()) != (n_, n_):
                    probs.append(f'symbol {i}: matrix {sym.get("matrix_size")}, masked as {sym.get("mask_dims")} for version {want_version}')
            yield ob(f'{title}, level {req.upper()} raised to {raised} by the booster: one level and one version from the final message to the format information and Code',
                     not probs, fn, got=probs[:2] or 'consistent', want='consistent')


F7_INSTANCE = '_encode(<chunk segments>, version=<caller-supplied version>) in the comprehension over the chunks'


def fit_witness(fx):
    """For every way encode_sequence reaches _encode: was find_version run on the very Segments object handed to _encode,
    and is the version handed over at least its result?  (find_version returns the smallest fitting version.)"""
    fn = fx.fn('encoder', 'encode_sequence')
    it = Interp(max_steps=20_000_000)

    def cv(chunk):
        return 3 + (ord(chunk[0]) % 5)
    scen = [
        ('one plain symbol (message fits the requested version)', dict(version=5), 3, 'whole'),
        ('one plain symbol (no version requested is refused; version = result)', dict(version=7), 7, 'whole'),
        ('_encode(<chunk segments>) in the comprehension over the chunks', dict(symbol_count=3), None, 'chunks'),
        ('_encode(<chunk segments>) with symbol_count and version both given', dict(symbol_count=4, version=2), None, 'chunks'),
        (F7_INSTANCE, dict(version=5), 9, 'chunks'),
        (F7_INSTANCE, dict(version=2), None, 'chunks'),
    ]
    seen = {}
    for key, kw, fit, kind in scen:
        res, rec = _run(fx, it, CONTENT * 2, 'byte', 'iso-8859-1', fit_single=fit, chunk_version=cv, **kw)
        if not isinstance(res, list) or not rec['_encode']:
            raise Unknown(f'fit witness scenario {kw}: {res if isinstance(res, str) else "no _encode call"}')
        probs = []
        for e in rec['_encode']:
            if (kind == 'whole') != isinstance(e['what'], tuple):
                probs.append(f'unexpected shape: {"one plain symbol" if isinstance(e["what"], tuple) else "chunks"}')
                continue
            fits = [r for sid, r in rec['fits'] if sid == e['segid']]
            if not fits:
                probs.append(f'no version search over the segments of chunk {str(e["what"])[:8]!r} precedes _encode(version={e["version"]})')
            elif min(fits) > e['version']:
                probs.append(f'chunk needs version {min(fits)} but _encode gets version {e["version"]}')
        ok = not probs
        if key in seen:
            seen[key] = (seen[key][0] and ok, seen[key][1] or (probs[0] if probs else ''))
        else:
            seen[key] = (ok, probs[0] if probs else '')
    for key, (ok, why) in seen.items():
        yield ob(key, ok, fn, got=why or 'searched and fitting', want='find_version(<the same segments>) <= version before _encode')


@rule('C08', 'R4', 4, 'every chunk is searched for its smallest fitting version before _encode, and gets a version not below it (shared with C04.R5)')
def r4(fx):
    yield from fit_witness(fx)


@rule('C08', 'R6', 100, 'the 20 header bits are budgeted: bits written = bits budgeted for every Structured Append combination')
def r6(fx):
    for o in p04.sized_equals_written(fx):
        if 'sa=True' in o.key:
            yield o


@rule('C08', 'R5', 8, 'make_sequence forwards all its parameters to encode_sequence; a sequence is a tuple of QRCode')
def r5(fx):
    yield from wrappers.forwarding(fx, {'content', 'error', 'version', 'mode', 'mask', 'encoding', 'boost_error', 'symbol_count'})


@rule('C08', 'R7', 9, 'every symbol of a sequence is built for one level and one version from the final message to the format / version information and Code')
def r7(fx):
    yield from sequence_symbols_consistent(fx)
