"""C11 -- module iteration and per-type colouring."""
import ast

from .. import ev, iso, nf, pat, src, reg
from ..core import rule, ob, explain, Ob
from ..ev import PyRaise
from ..interp import Interp, make_callable, FuncVal, callable_env
from ..src import Unknown
from .common import C, levels, micro_versions, modes, table_ob, need, single

explain('C11', '''Decided (structural): the TYPE_* constants (dark = light << 8, distinct light codes < 256, dark module
non-zero >> 8, separator and quiet zone zero >> 8); matrix_iter and matrix_iter_verbose are interpreted on a matrix of
position markers for several (size, scale, border) and yield (size+2b)*s rows of (size+2b)*s values with value(y, x) =
module(y div s - b, x div s - b), 0 / quiet zone outside, and refuse negative or fractional borders and scales < 1 after
truncation with ValueError; the classifier get_bit of matrix_iter_verbose is interpreted for the cells of a compressed
coordinate grid (all coordinates within 13 of an edge, all alignment neighbourhoods, generic interior points; every cell
in the thorough tier) of the examined sizes and for both module values and returns exactly the type ISO assigns to the
position in the dark/light variant of the value (one cell differs on every QR size: known finding, pinned by tests);
_make_colormap maps each type to its own keyword with the fallback of its own polarity and drops exactly the types a
size cannot contain, the decorator forwards all 17 keywords, and the types the classifier can emit for a size are keys
of the map of that size; the two-colour shortcuts of write_png/write_svg are taken only under a guard that implies one
colour per polarity; the colourful renderers look every module up by its type. NOT decided: the bytes of the outputs.''')

TYPES = ('FINDER_PATTERN', 'DATA', 'VERSION', 'ALIGNMENT_PATTERN', 'TIMING', 'FORMAT')


@rule('C11', 'R1', 12, 'TYPE constants: dark = light << 8, light codes distinct and < 256, polarity of the single-valued types')
def r1(fx):
    lights = {}
    for t in TYPES:
        li, da = C(fx, f'TYPE_{t}_LIGHT'), C(fx, f'TYPE_{t}_DARK')
        lights[t] = li
        yield table_ob(fx, f'TYPE_{t}_DARK', 'light<<8', (da, 0 < li < 256), (li << 8, True))
    sep, qz, dm = C(fx, 'TYPE_SEPARATOR'), C(fx, 'TYPE_QUIET_ZONE'), C(fx, 'TYPE_DARKMODULE')
    allv = list(lights.values()) + [sep, qz]
    yield table_ob(fx, 'TYPE_*', 'light codes pairwise distinct', len(set(allv)) == len(allv), True)
    yield table_ob(fx, 'TYPE_SEPARATOR', '>>8 == 0', (sep >> 8 == 0, 0 < sep < 256), (True, True))
    yield table_ob(fx, 'TYPE_QUIET_ZONE', '>>8 == 0', (qz >> 8 == 0, 0 < qz < 256), (True, True))
    yield table_ob(fx, 'TYPE_DARKMODULE', '>>8 != 0 and distinct', (dm >> 8 != 0, dm not in [v << 8 for v in allv] + allv), (True, True))
    yield table_ob(fx, 'TYPE_*', 'dark codes pairwise distinct', len({C(fx, f'TYPE_{t}_DARK') for t in TYPES} | {dm}) == 7, True)
    yield table_ob(fx, 'TYPE_*', 'count', len(allv) + 7, 15)


def _utils_env(fx, it):
    genv = callable_env(fx.forest, 'utils', it)
    enc = callable_env(fx.forest, 'encoder', it, reg.model_env())
    genv['encoder'] = ev.Namespace('encoder', enc)
    return genv


def _marker_matrix(n):
    return [[1000 + i * 200 + j for j in range(n)] for i in range(n)]


@rule('C11', 'R6', 40, 'matrix_iter / matrix_iter_verbose: grid size, (y div s - b, x div s - b) mapping, validation of scale and border')
def r6(fx):
    it = Interp(max_steps=50_000_000)
    genv = _utils_env(fx, it)
    mi = FuncVal(fx.fn('utils', 'matrix_iter'), genv, it)
    fn = fx.fn('utils', 'matrix_iter')
    for n in (11, 21):
        m = _marker_matrix(n)
        dflt = 2 if n < 21 else 4
        for scale, s_eff in ((1, 1), (2, 2), (3, 3), (2.9, 2), (1.5, 1)):
            for border in (None, 0, 1, 3):
                b = dflt if border is None else border
                rows = mi(m, (n, n), scale, border)
                size = (n + 2 * b) * s_eff
                want = [[(m[y // s_eff - b][x // s_eff - b] if 0 <= y // s_eff - b < n and 0 <= x // s_eff - b < n else 0)
                         for x in range(size)] for y in range(size)]
                yield ob(f'matrix_iter size {n} scale {scale} border {border}', [list(r) for r in rows] == want, fn,
                         got=f'{len(rows)} rows x {len(rows[0]) if rows else 0}', want=f'{size} x {size} with value(y, x) = module(y//s - b, x//s - b)')
    # the verbose iterator applies the same scale / border geometry to the module types
    mvb = FuncVal(fx.fn('utils', 'matrix_iter_verbose'), genv, it)
    qz = C(fx, 'TYPE_QUIET_ZONE')
    for n in (11, 21):
        m = reg.Matrix([reg.Row([(x * 7 + y * 3) % 2 for x in range(n)]) for y in range(n)])
        dflt = 2 if n < 21 else 4
        raw = list(mvb(m, (n, n), 1, 0))
        base = [list(r) for r in raw]
        # every row handed out is a row of its own: an immutable one, or a mutable one that is not handed out again (a caller
        # may keep the rows: list(matrix_iter(...)), zip(it, it))
        mutable = [r for r in raw if not isinstance(r, (tuple, bytes, str))]
        yield ob(f'matrix_iter_verbose size {n}: no mutable row object is handed out twice', len({id(r) for r in mutable}) == len(mutable),
                 fx.fn('utils', 'matrix_iter_verbose'), got=f'{len(mutable)} mutable rows, {len({id(r) for r in mutable})} distinct objects', want='distinct objects (or tuples)')
        raw2 = list(mi(_marker_matrix(n), (n, n), 2, 1))
        mutable2 = [r for r in raw2 if not isinstance(r, (tuple, bytes, str))]
        yield ob(f'matrix_iter size {n}: no mutable row object is handed out twice', len({id(r) for r in mutable2}) == len(mutable2),
                 fn, got=f'{len(mutable2)} mutable rows, {len({id(r) for r in mutable2})} distinct objects', want='distinct objects (or tuples)')
        # the unscaled, borderless grid is the classification decided cell by cell in R3
        vals = [[(x * 7 + y * 3) % 2 for x in range(n)] for y in range(n)]
        gb0, gb1 = _classifier(fx, it, genv, n, 0), _classifier(fx, it, genv, n, 1)
        diff = [(y, x) for y in range(n) for x in range(n) if len(base) != n or len(base[y]) != n or base[y][x] != (gb1 if vals[y][x] else gb0)(y, x)]
        yield ob(f'matrix_iter_verbose size {n} scale 1 border 0 = the cell-by-cell classification', not diff, fx.fn('utils', 'matrix_iter_verbose'),
                 got=diff[:4] or 'equal', want='equal')
        for scale, s_eff in ((1, 1), (2, 2), (3, 3), (2.9, 2)):
            for border in (None, 0, 1, 3):
                if (scale, border) == (1, 0):
                    continue
                b = dflt if border is None else border
                rows = [list(r) for r in mvb(m, (n, n), scale, border)]
                size = (n + 2 * b) * s_eff
                want = [[(base[y // s_eff - b][x // s_eff - b] if 0 <= y // s_eff - b < n and 0 <= x // s_eff - b < n else qz)
                         for x in range(size)] for y in range(size)]
                yield ob(f'matrix_iter_verbose size {n} scale {scale} border {border}', rows == want, fx.fn('utils', 'matrix_iter_verbose'),
                         got=f'{len(rows)} rows x {len(rows[0]) if rows else 0}', want=f'{size} x {size} with type(y, x) = type of module (y//s - b, x//s - b), quiet zone outside')
    for name in ('matrix_iter', 'matrix_iter_verbose'):
        f = FuncVal(fx.fn('utils', name), genv, it)
        m = reg.Matrix([reg.Row([0] * 11) for _ in range(11)])
        for scale, border, want in ((0, 1, 'raises ValueError'), (-1, 1, 'raises ValueError'), (0.5, 1, 'raises ValueError'),
                                    (1, -1, 'raises ValueError'), (1, 1.5, 'raises ValueError'), (2, 0.5, 'raises ValueError'),
                                    (1, 0, 'ok'), (1.9, None, 'ok'), (3, 2, 'ok')):
            try:
                f(m, (11, 11), scale, border)
                got = 'ok'
            except PyRaise as e:
                got = f'raises {e.name}'
            yield ob(f'{name}: scale={scale} border={border}', got == want, fx.fn('utils', name), got=got, want=want)
    # QRCode.matrix_iter dispatch
    q = fx.fn('__init__', 'QRCode.matrix_iter')
    from ..interp import Instance
    calls = []

    def rec(name):
        def f(*a, **k):
            calls.append((name, a, k))
            return f'<{name} rows>'
        return f
    uns = ev.Namespace('utils', {n_: rec(n_) for n_ in ('matrix_iter', 'matrix_iter_verbose')})
    itq = Interp()
    qenv = callable_env(fx.forest, '__init__', itq, {'utils': uns})
    bad = []
    for verbose in (False, True, 0, 1):
        del calls[:]
        qo = Instance(fx.forest, '__init__', 'QRCode', qenv, itq)
        qo.matrix, qo._matrix_size = '<m>', (21, 21)
        res = qo.matrix_iter(scale='<s>', border='<b>', verbose=verbose)
        name = 'matrix_iter_verbose' if verbose else 'matrix_iter'
        got = [(c[0], dict(zip(('matrix', 'matrix_size', 'scale', 'border'), c[1]), **c[2])) for c in calls]
        if got != [(name, {'matrix': '<m>', 'matrix_size': (21, 21), 'scale': '<s>', 'border': '<b>'})] or res != f'<{name} rows>':
            bad.append((verbose, got, res))
    yield ob('QRCode.matrix_iter dispatches on verbose with (matrix, size, scale, border)', not bad, q, got=bad or 'as required',
             want='utils.matrix_iter_verbose if verbose else utils.matrix_iter, with (self.matrix, self._matrix_size, scale, border)')


def _classifier(fx, it, genv, n, val):
    """(i, j) -> module type, as matrix_iter_verbose classifies an n x n symbol whose modules all have value `val`.
    If the classifier is the two-parameter function `get_bit` nested in matrix_iter_verbose it is called cell
    by cell (so that large symbols can be examined on a compressed grid); otherwise matrix_iter_verbose itself is interpreted
    once with a border of 2 and the answers are read from the grid it yields."""
    fn = fx.fn('utils', 'matrix_iter_verbose')
    m = reg.Matrix([reg.Row([val] * n) for _ in range(n)])
    k = [i for i, s in enumerate(fn.body) if isinstance(s, ast.FunctionDef) and len(s.args.args) == 2 and not s.args.vararg and not s.args.kwonlyargs]
    if len(k) == 1 and fn.body[k[0]].name == 'get_bit':       # the reference name (canon restores it after a mere renaming)
        e = dict(genv, **{p: v for p, v in zip(src.params(fn), (m, (n, n), 1, 0))})
        # does get_bit answer for positions outside the matrix itself (the reference does), or does its caller?
        inside_only = not any(isinstance(x, ast.Attribute) and x.attr == 'TYPE_QUIET_ZONE' for x in ast.walk(fn.body[k[0]]))
        try:
            it.block(fn.body[:k[0] + 1], e)
            gb = e[fn.body[k[0]].name]
            if not inside_only:
                return gb
            if n > 45:
                # the quiet zone of the large sizes is not probed (the whole iterator is interpreted for the sizes up to 45)
                return lambda i, j: gb(i, j) if 0 <= i < n and 0 <= j < n else None
            rows_ = [list(r) for r in FuncVal(fn, genv, it)(m, (n, n), 1, 2)]
            if len(rows_) != n + 4 or any(len(r) != n + 4 for r in rows_):
                raise Unknown(f'matrix_iter_verbose yields {len(rows_)} rows for size {n} with border 2')
            return lambda i, j: gb(i, j) if 0 <= i < n and 0 <= j < n else rows_[i + 2][j + 2]
        except Unknown:
            pass
    rows = [list(r) for r in FuncVal(fn, genv, it)(m, (n, n), 1, 2)]
    if len(rows) != n + 4 or any(len(r) != n + 4 for r in rows):
        raise Unknown(f'matrix_iter_verbose yields {len(rows)} rows for size {n} with border 2')
    return lambda i, j: rows[i + 2][j + 2]


def _coords(v, full):
    n = iso.size_of(v)
    if full or n <= 29:
        return list(range(n))
    cs = set(range(0, 14)) | set(range(n - 14, n)) | {n // 2, n // 2 + 1, 20, 21}
    for c in iso.alignment_centres(v):
        cs |= set(range(c - 3, c + 4))
    return sorted(x for x in cs if 0 <= x < n)


@rule('C11', 'R3', 16, 'classifier: every examined cell gets the type ISO assigns to its position, in the variant of its value')
def r3(fx):
    it = Interp(max_steps=2_000_000_000)
    genv = _utils_env(fx, it)
    fn = fx.fn('utils', 'matrix_iter_verbose.get_bit') if fx.forest.has_func('utils', 'matrix_iter_verbose.get_bit') else fx.fn('utils', 'matrix_iter_verbose')
    full = fx.tier == 'thorough'
    sizes = list(iso.ALL_VERSIONS)     # all 44 sizes in both tiers (the alignment centres are irregular: version 32)
    T = {t: (C(fx, f'TYPE_{t}_LIGHT'), C(fx, f'TYPE_{t}_DARK')) for t in TYPES}
    kind_type = {'finder': 'FINDER_PATTERN', 'timing': 'TIMING', 'alignment': 'ALIGNMENT_PATTERN', 'format': 'FORMAT',
                 'version': 'VERSION'}
    sep, qz, dm = C(fx, 'TYPE_SEPARATOR'), C(fx, 'TYPE_QUIET_ZONE'), C(fx, 'TYPE_DARKMODULE')
    emitted = {}
    cells = 0
    for v in sizes:
        n = iso.size_of(v)
        lay = iso.layout(v)
        co = _coords(v, full)
        for val in (1, 0):
            if val == 0 and not full and n > 29:
                continue
            gb = _classifier(fx, it, genv, n, val)
            bad = {}
            for i in co:
                for j in co:
                    got = gb(i, j)
                    cells += 1
                    emitted.setdefault(v, set()).add(got)
                    kind = lay.get((i, j), ('data', None))[0]
                    if kind == 'alignment':
                        want = T['ALIGNMENT_PATTERN'][lay[(i, j)][1]]     # the pattern's own value
                    elif kind == 'separator':
                        want = sep
                    elif kind == 'darkmodule':
                        want = dm
                    elif kind == 'data':
                        want = T['DATA'][val]
                    else:
                        want = T[kind_type[kind]][val]
                    if got != want:
                        bad.setdefault((kind, got), []).append((i, j))
            for out_i, out_j in ((-1, 0), (0, -1), (n, 0), (0, n), (-2, n + 1)):
                if gb(out_i, out_j) is not None and gb(out_i, out_j) != qz:
                    bad.setdefault(('quiet zone', gb(out_i, out_j)), []).append((out_i, out_j))

            def anch(rc):
                return tuple((x if x < n // 2 else f'N-{n - x}') for x in rc)
            if not bad:
                yield Ob(f'v{v} value {val}: all examined cells', True, 'utils.matrix_iter_verbose.get_bit', fn.lineno,
                         f'{len(co) ** 2} cells as required', 'ISO layout', True)
            for (kind, got), lst in sorted(bad.items(), key=repr):
                # one obligation per (anchored cell set, kind): stable across sizes so that a known finding can name it
                key = f'{"QR" if v >= 1 else "Micro"} value {val}: {kind} cells {sorted(set(map(anch, lst)), key=repr)[:4]} typed {got}'
                yield Ob(key, False, 'utils.matrix_iter_verbose.get_bit', fn.lineno,
                         f'v{v}: {len(lst)} cell(s) {[anch(x) for x in lst[:4]]} classified {got}', f'type of a {kind} module', True,
                         note=f'size {n}')
    fx.forest._cache['C11.emitted'] = emitted
    fx.info['C11.R3 cells classified'] = cells
    fx.info['C11.R3 emitted'] = {str(k): sorted(v_) for k, v_ in emitted.items()}


def _type_names(fx):
    out = {}
    for t in TYPES:
        out[C(fx, f'TYPE_{t}_LIGHT')] = (t, 'light')
        out[C(fx, f'TYPE_{t}_DARK')] = (t, 'dark')
    out[C(fx, 'TYPE_SEPARATOR')] = ('SEPARATOR', 'light')
    out[C(fx, 'TYPE_QUIET_ZONE')] = ('QUIET_ZONE', 'light')
    out[C(fx, 'TYPE_DARKMODULE')] = ('DARKMODULE', 'dark')
    return out


KEYWORD = {('FINDER_PATTERN', 'dark'): 'finder_dark', ('FINDER_PATTERN', 'light'): 'finder_light', ('DATA', 'dark'): 'data_dark',
           ('DATA', 'light'): 'data_light', ('VERSION', 'dark'): 'version_dark', ('VERSION', 'light'): 'version_light',
           ('FORMAT', 'dark'): 'format_dark', ('FORMAT', 'light'): 'format_light',
           ('ALIGNMENT_PATTERN', 'dark'): 'alignment_dark', ('ALIGNMENT_PATTERN', 'light'): 'alignment_light',
           ('TIMING', 'dark'): 'timing_dark', ('TIMING', 'light'): 'timing_light', ('SEPARATOR', 'light'): 'separator',
           ('DARKMODULE', 'dark'): 'dark_module', ('QUIET_ZONE', 'light'): 'quiet_zone'}


@rule('C11', 'R4', 48, 'colour map: each type <- its own keyword, fallback of its own polarity, types dropped exactly where a size cannot contain them; decorator forwards all keywords')
def r4(fx):
    it = Interp(max_steps=20_000_000)
    genv = callable_env(fx.forest, 'writers', it)
    fn = fx.fn('writers', '_make_colormap')
    mk = FuncVal(fn, genv, it)
    names = _type_names(fx)
    for n, absent in ((11, {'DARKMODULE', 'ALIGNMENT_PATTERN', 'VERSION'}), (17, {'DARKMODULE', 'ALIGNMENT_PATTERN', 'VERSION'}),
                      (21, {'VERSION'}), (41, {'VERSION'}), (45, set()), (177, set())):
        cm = mk(n, n, dark='<D>', light='<L>')
        want_keys = {code for code, (t, pol) in names.items() if t not in absent}
        yield ob(f'size {n}: key set', set(cm) == want_keys, fn, got=sorted(set(cm) ^ want_keys), want='no difference')
        okf = all(cm[c] == ('<D>' if names[c][1] == 'dark' else '<L>') for c in cm if c in names)
        yield ob(f'size {n}: fallback colours follow polarity', okf, fn, got={c: cm[c] for c in cm if c in names and cm[c] != ('<D>' if names[c][1] == 'dark' else '<L>')}, want={})
    for code, (t, pol) in sorted(names.items()):
        kw = KEYWORD[(t, pol)]
        cm = mk(177, 177, dark='<D>', light='<L>', **{kw: '<X>'})
        others = {c: v for c, v in cm.items() if c != code and v == '<X>'}
        yield ob(f'{kw} colours exactly {t}/{pol}', cm.get(code) == '<X>' and not others, fn, got=(cm.get(code), others), want=('<X>', {}))
        cm2 = mk(177, 177, dark='<D>', light='<L>', **{kw: None})
        yield ob(f'{kw}=None (transparent) is kept, not replaced by the fallback', cm2.get(code, 'missing') is None, fn,
                 got=cm2.get(code, 'missing'), want=None)
    # the decorator
    col = FuncVal(fx.fn('writers', 'colorful'), genv, it)
    seen = {}

    def f_stub(matrix, matrix_size, out, cm, **kw):
        seen['f'] = (matrix, matrix_size, out, cm, kw)
        return '<ret>'

    def mk_stub(*a, **kw):
        seen['mk'] = (a, kw)
        return '<cm>'
    genv2 = dict(genv, _make_colormap=mk_stub)
    col2 = FuncVal(fx.fn('writers', 'colorful'), genv2, it)
    wrapper = col2('<dflt-dark>', '<dflt-light>')(f_stub)
    allkw = sorted(set(KEYWORD.values()) | {'dark', 'light'})
    args = {k: f'<{k}>' for k in allkw}
    ret = wrapper('<m>', (21, 25), '<out>', scale=3, **args)
    a, kw = seen['mk']
    yield ob('decorator: every colour keyword reaches the same-named parameter of _make_colormap', kw == args and a == (21, 25), fx.fn('writers', 'colorful'),
             got={k: v for k, v in kw.items() if args.get(k) != v}, want={})
    yield ob('decorator: calls the writer with (matrix, matrix_size, out, colormap) and the remaining options', seen['f'] == ('<m>', (21, 25), '<out>', '<cm>', {'scale': 3}) and ret == '<ret>',
             fx.fn('writers', 'colorful'), got=seen.get('f'), want="('<m>', (21, 25), '<out>', '<cm>', {'scale': 3})")
    wrapper('<m>', (21, 21), '<out>')
    a, kw = seen['mk']
    okd = kw.get('dark') == '<dflt-dark>' and kw.get('light') == '<dflt-light>' and all(v is False for k, v in kw.items() if k not in ('dark', 'light'))
    yield ob('decorator: defaults are the decorator arguments for dark/light and False (= not set) for the per-type colours', okd,
             fx.fn('writers', 'colorful'), got=kw, want='dark/light defaults, False elsewhere')
    # which writers are decorated, and with which defaults
    for w, want in (('write_svg', ("'#000'", 'None')), ('write_png', ("'#000'", "'#fff'")), ('write_ppm', ("'#000'", "'#fff'"))):
        wf = fx.fn('writers', w)
        decs = [d for d in wf.decorator_list if isinstance(d, ast.Call) and src.call_name(d) == 'colorful']
        d = single(decs, f'@colorful on {w}')
        kwd = src.kwargs_of(d)
        got = (ast.unparse(kwd.get('dark', d.args[0] if d.args else ast.Constant(None))), ast.unparse(kwd.get('light', d.args[1] if len(d.args) > 1 else ast.Constant(None))))
        yield ob(f'{w} is colourful with defaults dark={want[0]} light={want[1]}', got == want, wf, got=got, want=want)


@rule('C11', 'R5', 6, 'types the classifier can emit for a size are keys of the colour map of that size')
def r5(fx):
    it = Interp(max_steps=2_000_000_000)
    genv = _utils_env(fx, it)
    wenv = callable_env(fx.forest, 'writers', it)
    mk = FuncVal(fx.fn('writers', '_make_colormap'), wenv, it)
    qz = C(fx, 'TYPE_QUIET_ZONE')
    cache = fx.forest._cache.get('C11.emitted')
    if cache is None:
        list(r3(fx))
        cache = fx.forest._cache['C11.emitted']
    for v in (-3, 0, 1, 6, 7, 40):
        n = iso.size_of(v)
        emitted = {qz} | cache[v]
        keys = set(mk(n, n, dark='<D>', light='<L>'))
        # a key that is never emitted is an unused colour (harmless); an emitted type without key is a KeyError
        yield ob(f'v{v}: every emitted type has a colour', emitted <= keys, fx.fn('writers', '_make_colormap'),
                 got=f'emitted but no key: {sorted(emitted - keys)}', want='emitted types are keys')


@rule('C11', 'R8', 40, 'SVG and PPM: every module is painted with the colour configured for its type (two-colour shortcut included); transparent modules are left out')
def r8(fx):
    from . import p09, render
    from ..interp import Interp
    it = Interp(max_steps=80_000_000)
    fn = fx.fn('writers', 'write_svg')
    names = dict(C(fx, '_NAME2RGB', 'writers'))
    qz = C(fx, 'TYPE_QUIET_ZONE')
    combos = [{}, {'light': '#fff'}, {'dark': 'red', 'light': 'yellow'}, {'dark': '#fff', 'light': '#000'}, {'dark': None, 'light': 'blue'},
              {'finder_dark': 'blue'}, {'data_light': '#eee'}, {'finder_dark': 'blue', 'data_light': None, 'light': '#fff'},
              {'timing_dark': (10, 20, 30), 'format_light': 'yellow', 'quiet_zone': 'aliceblue', 'light': '#fff'},
              {'dark': (255, 0, 0, 128), 'light': '#fff'}, {'separator': 'red', 'light': '#fff'}, {'dark_module': 'blue'},
              {'alignment_dark': 'red', 'alignment_light': 'yellow', 'version_dark': 'blue', 'version_light': '#eee', 'light': '#fff'}]
    combos += [dict(kw, light=kw.get('light', '#fff')) for kw in p09.CROSSED]
    # alpha channels, including the two ends of the range (fully transparent = not painted, fully opaque)
    combos += [{'dark': (255, 0, 0, 0), 'light': '#fff'}, {'dark': '#000', 'light': '#ffffff00'}, {'dark': (0, 0, 255, 0.0), 'light': (255, 255, 255, 1.0)},
               {'dark': '#0000ff80', 'light': '#fff'}, {'dark': (0, 0, 0, 255), 'light': (255, 255, 0, 1.0)}, {'finder_dark': '#ff000000', 'light': '#fff'}]
    # serialiser options that change how the paths are written (not what they paint): no line class, background drawn / not drawn;
    # and module types left transparent beside a coloured quiet zone / light colour
    combos += [{'dark_module': 'red', 'light': '#fff', '_opts': {'lineclass': None, '_sparse': True}}, {'dark_module': 'red', 'light': 'white', '_opts': {'lineclass': '', '_sparse': True}},
               {'dark_module': 'red', 'light': 'white', '_opts': {'_sparse': True}},
               {'dark_module': 'red', 'light': '#fff', '_opts': {'lineclass': None}}, {'dark_module': 'red', 'finder_dark': 'blue', 'light': 'yellow', '_opts': {'lineclass': ''}},
               {'finder_dark': 'blue', 'light': '#fff', '_opts': {'svgclass': None, 'lineclass': None}},
               {'light': 'white', 'quiet_zone': 'yellow', 'finder_dark': None}, {'light': 'white', 'quiet_zone': 'yellow', 'dark_module': None, 'timing_dark': None},
               {'light': '#eee', 'quiet_zone': 'yellow'}, {'quiet_zone': 'yellow', 'dark': None, 'light': '#fff'}]
    for size, border in (((21, 21), None), ((11, 11), 1), ((45, 45), 0)):
        for kw in combos:
            if size[0] == 45 and not ({'alignment_dark', 'finder_dark'} & set(kw) or not kw):
                continue
            kw = dict(kw)
            opts = dict(kw.pop('_opts', {}))
            sparse = opts.pop('_sparse', False)
            if sparse and size[0] != 21:
                continue
            for scale in ((1, 2.5) if size[0] == 21 else (1,)):
                ty = p09._typed(fx, size, kw)
                if sparse:
                    # as in a real symbol: one module type (the dark module) occurs exactly once, its path is the shortest of all
                    dm_, dd_, dl_ = C(fx, 'TYPE_DARKMODULE'), C(fx, 'TYPE_DATA_DARK'), C(fx, 'TYPE_DATA_LIGHT')
                    pm_ = render.pattern(*size)
                    first_dark = next((r_, c_) for r_ in range(size[1]) for c_ in range(size[0]) if pm_[r_][c_])

                    def ty(r, c, v, _fd=first_dark):
                        return dm_ if (r, c) == _fd else (dd_ if v else dl_)
                m = render.pattern(*size)
                calls = []
                try:
                    rec, rs, _ = render.run(fx, it, 'write_svg', m, size, kw=dict(kw, scale=scale, border=border, **opts), typed=ty,
                                            extra={'matrix_to_lines': render.lines_source(m, calls)})
                    cm = p09._colormap(fx, it, size, kw, 'write_svg')
                    b = render.default_border(size) if border is None else border
                    n = size[0] + 2 * b
                    attrs, transforms, paths = render.decode_svg(rec.text(), names)
                    grid = render.paint_svg(paths, n, n, names)
                    want = render.picture(m, size, 1, border, value=lambda r, c, v: p09.rgba(cm[ty(r, c, v)]), outside=p09.rgba(cm[qz]))
                    want = [[(0, 0, 0, 0) if p[3] == 0 else p for p in r_] for r_ in want]
                    got = [[(0, 0, 0, 0) if (p is None or p[3] == 0) else p for p in r_] for r_ in grid]
                    why = render.first_diff(got, want)
                    if not why and calls and calls != [('matrix_to_lines', b, b + .5, 1, True)]:
                        why = f'run extractor called with {calls}'
                    if not why and any(c[1] != 1 or (c[2] is not None and c[2] != b) or (c[2] is None and border is not None) or not c[3] for c in rs.calls):
                        why = f'per-type row source called with {rs.calls}'
                except PyRaise as ex:
                    why = f'raises {ex.name}'
                except render.Bad as ex:
                    why = str(ex)
                yield ob(f'SVG {kw}{" " + str(opts) if opts else ""}{" (one module of the type)" if sparse else ""} size={size[0]} scale={scale} border={border}', not why, fn, got=why or 'the symbol in its colours', want='the symbol in its colours')
    for o in p09.r8(fx):
        if o.key.startswith('PPM'):
            yield o


@rule('C11', 'R9', 30, 'PNG: every module type is painted with exactly its configured colour (palette invariants, shared with C09.R9)')
def r9(fx):
    from . import p09
    yield from p09.r9(fx)
