"""Rules for C11 (see DESIGN.md section 5)."""
