"""C11 -- module iteration and per-type colouring."""
import ast

from .. import ev, iso, nf, pat, src, reg
from ..core import rule, ob, explain, Ob
from ..ev import PyRaise
from ..interp import Interp, make_callable, FuncVal, callable_env
from ..src import Unknown
from .common import C, levels, micro_versions, modes, table_ob, need, single

explain('C11', '''Decided (structural): the TYPE_* constants (dark = light << 8, distinct light codes < 256, dark module
non-zero >> 8, separator and quiet zone zero >> 8); matrix_iter and matrix_iter_verbose are interpreted on a matrix of
position markers for several (size, scale, border) and yield (size+2b)*s rows of (size+2b)*s values with value(y, x) =
module(y div s - b, x div s - b), 0 / quiet zone outside, and refuse negative or fractional borders and scales < 1 after
truncation with ValueError; the classifier get_bit of matrix_iter_verbose is interpreted for the cells of a compressed
coordinate grid (all coordinates within 13 of an edge, all alignment neighbourhoods, generic interior points; every cell
in the thorough tier) of the examined sizes and for both module values and returns exactly the type ISO assigns to the
position in the dark/light variant of the value (one cell differs on every QR size: known finding, pinned by tests);
_make_colormap maps each type to its own keyword with the fallback of its own polarity and drops exactly the types a
size cannot contain, the decorator forwards all 17 keywords, and the types the classifier can emit for a size are keys
of the map of that size; the two-colour shortcuts of write_png/write_svg are taken only under a guard that implies one
colour per polarity; the colourful renderers look every module up by its type. NOT decided: the bytes of the outputs.''')

TYPES = ('FINDER_PATTERN', 'DATA', 'VERSION', 'ALIGNMENT_PATTERN', 'TIMING', 'FORMAT')


@rule('C11', 'R1', 12, 'TYPE constants: dark = light << 8, light codes distinct and < 256, polarity of the single-valued types')
def r1(fx):
    lights = {}
    for t in TYPES:
        li, da = C(fx, f'TYPE_{t}_LIGHT'), C(fx, f'TYPE_{t}_DARK')
        lights[t] = li
        yield table_ob(fx, f'TYPE_{t}_DARK', 'light<<8', (da, 0 < li < 256), (li << 8, True))
    sep, qz, dm = C(fx, 'TYPE_SEPARATOR'), C(fx, 'TYPE_QUIET_ZONE'), C(fx, 'TYPE_DARKMODULE')
    allv = list(lights.values()) + [sep, qz]
    yield table_ob(fx, 'TYPE_*', 'light codes pairwise distinct', len(set(allv)) == len(allv), True)
    yield table_ob(fx, 'TYPE_SEPARATOR', '>>8 == 0', (sep >> 8 == 0, 0 < sep < 256), (True, True))
    yield table_ob(fx, 'TYPE_QUIET_ZONE', '>>8 == 0', (qz >> 8 == 0, 0 < qz < 256), (True, True))
    yield table_ob(fx, 'TYPE_DARKMODULE', '>>8 != 0 and distinct', (dm >> 8 != 0, dm not in [v << 8 for v in allv] + allv), (True, True))
    yield table_ob(fx, 'TYPE_*', 'dark codes pairwise distinct', len({C(fx, f'TYPE_{t}_DARK') for t in TYPES} | {dm}) == 7, True)
    yield table_ob(fx, 'TYPE_*', 'count', len(allv) + 7, 15)


def _utils_env(fx, it):
    genv = callable_env(fx.forest, 'utils', it)
    enc = callable_env(fx.forest, 'encoder', it, reg.model_env())
    genv['encoder'] = ev.Namespace('encoder', enc)
    return genv


def _marker_matrix(n):
    return [[1000 + i * 200 + j for j in range(n)] for i in range(n)]


@rule('C11', 'R6', 40, 'matrix_iter / matrix_iter_verbose: grid size, (y div s - b, x div s - b) mapping, validation of scale and border')
def r6(fx):
    it = Interp(max_steps=50_000_000)
    genv = _utils_env(fx, it)
    mi = FuncVal(fx.fn('utils', 'matrix_iter'), genv, it)
    fn = fx.fn('utils', 'matrix_iter')
    for n in (11, 21):
        m = _marker_matrix(n)
        dflt = 2 if n < 21 else 4
        for scale, s_eff in ((1, 1), (2, 2), (3, 3), (2.9, 2), (1.5, 1)):
            for border in (None, 0, 1, 3):
                b = dflt if border is None else border
                rows = mi(m, (n, n), scale, border)
                size = (n + 2 * b) * s_eff
                want = [[(m[y // s_eff - b][x // s_eff - b] if 0 <= y // s_eff - b < n and 0 <= x // s_eff - b < n else 0)
                         for x in range(size)] for y in range(size)]
                yield ob(f'matrix_iter size {n} scale {scale} border {border}', [list(r) for r in rows] == want, fn,
                         got=f'{len(rows)} rows x {len(rows[0]) if rows else 0}', want=f'{size} x {size} with value(y, x) = module(y//s - b, x//s - b)')
    for name in ('matrix_iter', 'matrix_iter_verbose'):
        f = FuncVal(fx.fn('utils', name), genv, it)
        m = reg.Matrix([reg.Row([0] * 11) for _ in range(11)])
        for scale, border, want in ((0, 1, 'raises ValueError'), (-1, 1, 'raises ValueError'), (0.5, 1, 'raises ValueError'),
                                    (1, -1, 'raises ValueError'), (1, 1.5, 'raises ValueError'), (2, 0.5, 'raises ValueError'),
                                    (1, 0, 'ok'), (1.9, None, 'ok'), (3, 2, 'ok')):
            try:
                f(m, (11, 11), scale, border)
                got = 'ok'
            except PyRaise as e:
                got = f'raises {e.name}'
            yield ob(f'{name}: scale={scale} border={border}', got == want, fx.fn('utils', name), got=got, want=want)
    # QRCode.matrix_iter dispatch
    q = fx.fn('__init__', 'QRCode.matrix_iter')
    r = single([s for s in q.body if isinstance(s, ast.Return)], 'return of QRCode.matrix_iter')
    a = single([s for s in q.body if isinstance(s, ast.Assign)], 'iterfn selection')
    okq = nf.same(a.value, 'utils.matrix_iter_verbose if verbose else utils.matrix_iter') and \
        pat.match(r.value, 'iterfn(self.matrix, self._matrix_size, scale, border)') is not None
    yield ob('QRCode.matrix_iter dispatches on verbose with (matrix, size, scale, border)', okq, q, got=f'{ast.unparse(a)}; {ast.unparse(r.value)}',
             want='utils.matrix_iter_verbose if verbose else utils.matrix_iter')


def _classifier(fx, it, genv, n, val):
    """get_bit closure of matrix_iter_verbose for an n x n symbol whose modules all have value `val`."""
    fn = fx.fn('utils', 'matrix_iter_verbose')
    k = [i for i, s in enumerate(fn.body) if isinstance(s, ast.FunctionDef) and s.name == 'get_bit']
    need(len(k) == 1, 'get_bit not found in matrix_iter_verbose')
    m = reg.Matrix([reg.Row([val] * n) for _ in range(n)])
    e = dict(genv, matrix=m, matrix_size=(n, n), scale=1, border=0)
    it.block(fn.body[:k[0] + 1], e)
    return e['get_bit']


def _coords(v, full):
    n = iso.size_of(v)
    if full or n <= 29:
        return list(range(n))
    cs = set(range(0, 14)) | set(range(n - 14, n)) | {n // 2, n // 2 + 1, 20, 21}
    for c in iso.alignment_centres(v):
        cs |= set(range(c - 3, c + 4))
    return sorted(x for x in cs if 0 <= x < n)


@rule('C11', 'R3', 16, 'classifier: every examined cell gets the type ISO assigns to its position, in the variant of its value')
def r3(fx):
    it = Interp(max_steps=2_000_000_000)
    genv = _utils_env(fx, it)
    fn = fx.fn('utils', 'matrix_iter_verbose.get_bit')
    full = fx.tier == 'thorough'
    sizes = list(iso.ALL_VERSIONS) if full else [-3, -2, -1, 0, 1, 2, 6, 7, 14, 40]
    T = {t: (C(fx, f'TYPE_{t}_LIGHT'), C(fx, f'TYPE_{t}_DARK')) for t in TYPES}
    kind_type = {'finder': 'FINDER_PATTERN', 'timing': 'TIMING', 'alignment': 'ALIGNMENT_PATTERN', 'format': 'FORMAT',
                 'version': 'VERSION'}
    sep, qz, dm = C(fx, 'TYPE_SEPARATOR'), C(fx, 'TYPE_QUIET_ZONE'), C(fx, 'TYPE_DARKMODULE')
    emitted = {}
    cells = 0
    for v in sizes:
        n = iso.size_of(v)
        lay = iso.layout(v)
        co = _coords(v, full)
        for val in (1, 0):
            if val == 0 and not full and n > 29:
                continue
            gb = _classifier(fx, it, genv, n, val)
            bad = {}
            for i in co:
                for j in co:
                    got = gb(i, j)
                    cells += 1
                    emitted.setdefault(v, set()).add(got)
                    kind = lay.get((i, j), ('data', None))[0]
                    if kind == 'alignment':
                        want = T['ALIGNMENT_PATTERN'][lay[(i, j)][1]]     # the pattern's own value
                    elif kind == 'separator':
                        want = sep
                    elif kind == 'darkmodule':
                        want = dm
                    elif kind == 'data':
                        want = T['DATA'][val]
                    else:
                        want = T[kind_type[kind]][val]
                    if got != want:
                        bad.setdefault((kind, got), []).append((i, j))
            for out_i, out_j in ((-1, 0), (0, -1), (n, 0), (0, n), (-2, n + 1)):
                if gb(out_i, out_j) != qz:
                    bad.setdefault(('quiet zone', gb(out_i, out_j)), []).append((out_i, out_j))

            def anch(rc):
                return tuple((x if x < n // 2 else f'N-{n - x}') for x in rc)
            if not bad:
                yield Ob(f'v{v} value {val}: all examined cells', True, 'utils.matrix_iter_verbose.get_bit', fn.lineno,
                         f'{len(co) ** 2} cells as required', 'ISO layout', True)
            for (kind, got), lst in sorted(bad.items(), key=repr):
                # one obligation per (anchored cell set, kind): stable across sizes so that a known finding can name it
                key = f'{"QR" if v >= 1 else "Micro"} value {val}: {kind} cells {sorted(set(map(anch, lst)), key=repr)[:4]} typed {got}'
                yield Ob(key, False, 'utils.matrix_iter_verbose.get_bit', fn.lineno,
                         f'v{v}: {len(lst)} cell(s) {[anch(x) for x in lst[:4]]} classified {got}', f'type of a {kind} module', True,
                         note=f'size {n}')
    fx.forest._cache['C11.emitted'] = emitted
    fx.info['C11.R3 cells classified'] = cells
    fx.info['C11.R3 emitted'] = {str(k): sorted(v_) for k, v_ in emitted.items()}


def _type_names(fx):
    out = {}
    for t in TYPES:
        out[C(fx, f'TYPE_{t}_LIGHT')] = (t, 'light')
        out[C(fx, f'TYPE_{t}_DARK')] = (t, 'dark')
    out[C(fx, 'TYPE_SEPARATOR')] = ('SEPARATOR', 'light')
    out[C(fx, 'TYPE_QUIET_ZONE')] = ('QUIET_ZONE', 'light')
    out[C(fx, 'TYPE_DARKMODULE')] = ('DARKMODULE', 'dark')
    return out


KEYWORD = {('FINDER_PATTERN', 'dark'): 'finder_dark', ('FINDER_PATTERN', 'light'): 'finder_light', ('DATA', 'dark'): 'data_dark',
           ('DATA', 'light'): 'data_light', ('VERSION', 'dark'): 'version_dark', ('VERSION', 'light'): 'version_light',
           ('FORMAT', 'dark'): 'format_dark', ('FORMAT', 'light'): 'format_light',
           ('ALIGNMENT_PATTERN', 'dark'): 'alignment_dark', ('ALIGNMENT_PATTERN', 'light'): 'alignment_light',
           ('TIMING', 'dark'): 'timing_dark', ('TIMING', 'light'): 'timing_light', ('SEPARATOR', 'light'): 'separator',
           ('DARKMODULE', 'dark'): 'dark_module', ('QUIET_ZONE', 'light'): 'quiet_zone'}


@rule('C11', 'R4', 48, 'colour map: each type <- its own keyword, fallback of its own polarity, types dropped exactly where a size cannot contain them; decorator forwards all keywords')
def r4(fx):
    it = Interp(max_steps=20_000_000)
    genv = callable_env(fx.forest, 'writers', it)
    fn = fx.fn('writers', '_make_colormap')
    mk = FuncVal(fn, genv, it)
    names = _type_names(fx)
    for n, absent in ((11, {'DARKMODULE', 'ALIGNMENT_PATTERN', 'VERSION'}), (17, {'DARKMODULE', 'ALIGNMENT_PATTERN', 'VERSION'}),
                      (21, {'VERSION'}), (41, {'VERSION'}), (45, set()), (177, set())):
        cm = mk(n, n, dark='<D>', light='<L>')
        want_keys = {code for code, (t, pol) in names.items() if t not in absent}
        yield ob(f'size {n}: key set', set(cm) == want_keys, fn, got=sorted(set(cm) ^ want_keys), want='no difference')
        okf = all(cm[c] == ('<D>' if names[c][1] == 'dark' else '<L>') for c in cm if c in names)
        yield ob(f'size {n}: fallback colours follow polarity', okf, fn, got={c: cm[c] for c in cm if c in names and cm[c] != ('<D>' if names[c][1] == 'dark' else '<L>')}, want={})
    for code, (t, pol) in sorted(names.items()):
        kw = KEYWORD[(t, pol)]
        cm = mk(177, 177, dark='<D>', light='<L>', **{kw: '<X>'})
        others = {c: v for c, v in cm.items() if c != code and v == '<X>'}
        yield ob(f'{kw} colours exactly {t}/{pol}', cm.get(code) == '<X>' and not others, fn, got=(cm.get(code), others), want=('<X>', {}))
        cm2 = mk(177, 177, dark='<D>', light='<L>', **{kw: None})
        yield ob(f'{kw}=None (transparent) is kept, not replaced by the fallback', cm2.get(code, 'missing') is None, fn,
                 got=cm2.get(code, 'missing'), want=None)
    # the decorator
    col = FuncVal(fx.fn('writers', 'colorful'), genv, it)
    seen = {}

    def f_stub(matrix, matrix_size, out, cm, **kw):
        seen['f'] = (matrix, matrix_size, out, cm, kw)
        return '<ret>'

    def mk_stub(*a, **kw):
        seen['mk'] = (a, kw)
        return '<cm>'
    genv2 = dict(genv, _make_colormap=mk_stub)
    col2 = FuncVal(fx.fn('writers', 'colorful'), genv2, it)
    wrapper = col2('<dflt-dark>', '<dflt-light>')(f_stub)
    allkw = sorted(set(KEYWORD.values()) | {'dark', 'light'})
    args = {k: f'<{k}>' for k in allkw}
    ret = wrapper('<m>', (21, 25), '<out>', scale=3, **args)
    a, kw = seen['mk']
    yield ob('decorator: every colour keyword reaches the same-named parameter of _make_colormap', kw == args and a == (21, 25), fx.fn('writers', 'colorful'),
             got={k: v for k, v in kw.items() if args.get(k) != v}, want={})
    yield ob('decorator: calls the writer with (matrix, matrix_size, out, colormap) and the remaining options', seen['f'] == ('<m>', (21, 25), '<out>', '<cm>', {'scale': 3}) and ret == '<ret>',
             fx.fn('writers', 'colorful'), got=seen.get('f'), want="('<m>', (21, 25), '<out>', '<cm>', {'scale': 3})")
    wrapper('<m>', (21, 21), '<out>')
    a, kw = seen['mk']
    okd = kw.get('dark') == '<dflt-dark>' and kw.get('light') == '<dflt-light>' and all(v is False for k, v in kw.items() if k not in ('dark', 'light'))
    yield ob('decorator: defaults are the decorator arguments for dark/light and False (= not set) for the per-type colours', okd,
             fx.fn('writers', 'colorful'), got=kw, want='dark/light defaults, False elsewhere')
    # which writers are decorated, and with which defaults
    for w, want in (('write_svg', ("'#000'", 'None')), ('write_png', ("'#000'", "'#fff'")), ('write_ppm', ("'#000'", "'#fff'"))):
        wf = fx.fn('writers', w)
        decs = [d for d in wf.decorator_list if isinstance(d, ast.Call) and src.call_name(d) == 'colorful']
        d = single(decs, f'@colorful on {w}')
        kwd = src.kwargs_of(d)
        got = (ast.unparse(kwd.get('dark', d.args[0] if d.args else ast.Constant(None))), ast.unparse(kwd.get('light', d.args[1] if len(d.args) > 1 else ast.Constant(None))))
        yield ob(f'{w} is colourful with defaults dark={want[0]} light={want[1]}', got == want, wf, got=got, want=want)


@rule('C11', 'R5', 6, 'types the classifier can emit for a size are keys of the colour map of that size')
def r5(fx):
    it = Interp(max_steps=2_000_000_000)
    genv = _utils_env(fx, it)
    wenv = callable_env(fx.forest, 'writers', it)
    mk = FuncVal(fx.fn('writers', '_make_colormap'), wenv, it)
    qz = C(fx, 'TYPE_QUIET_ZONE')
    cache = fx.forest._cache.get('C11.emitted')
    if cache is None:
        list(r3(fx))
        cache = fx.forest._cache['C11.emitted']
    for v in (-3, 0, 1, 6, 7, 40):
        n = iso.size_of(v)
        emitted = {qz} | cache[v]
        keys = set(mk(n, n, dark='<D>', light='<L>'))
        # a key that is never emitted is an unused colour (harmless); an emitted type without key is a KeyError
        yield ob(f'v{v}: every emitted type has a colour', emitted <= keys, fx.fn('writers', '_make_colormap'),
                 got=f'emitted but no key: {sorted(emitted - keys)}', want='emitted types are keys')


def _guard_sufficient(test, fn, mapname):
    """Classify the two-colour shortcut guard (DESIGN A.8).  Returns (verdict, text): 'sufficient' if the
    multi-colour branch is taken whenever the dark types or the light types carry more than one colour."""
    al = {}
    for s in src.statements(fn.body):
        if isinstance(s, ast.Assign) and len(s.targets) == 1 and isinstance(s.targets[0], ast.Name):
            al[s.targets[0].id] = s.value
    seen = set()

    def inline(e):
        while isinstance(e, ast.Name) and e.id in al and e.id not in seen:
            seen.add(e.id)
            e = al[e.id]
        return e
    t = inline(test)
    disj = t.values if isinstance(t, ast.BoolOp) and isinstance(t.op, ast.Or) else [t]
    has_dark = has_light = has_count = False
    for d in disj:
        d = inline(d)
        txt = nf.norm(d)
        b = pat.match(d, f'len({{H_c for H_k, H_c2 in {mapname}.items() if H_p}}) > 1')
        if b is not None and nf.norm(b['c']) == nf.norm(b['c2']):
            ptxt = nf.norm(b['p'])
            ktxt = nf.norm(b['k'])
            if ptxt == f'({ktxt}>>8)':   # truthiness of type >> 8
                has_dark = True
                continue
            if ptxt == f'(not ({ktxt}>>8))':
                has_light = True
                continue
        if pat.match(d, f'len(set({mapname}.values())) > 2') is not None or pat.match(d, 'number_of_colors > 2') is not None \
                or pat.match(d, 'H_n > 2') is not None:
            has_count = True
            continue
        return 'unknown', ast.unparse(t)
    if has_dark and has_light:
        return 'sufficient', ast.unparse(t)
    if has_count:
        return 'insufficient', ast.unparse(t)
    return 'unknown', ast.unparse(t)


@rule('C11', 'R8', 6, 'two-colour shortcuts (PNG, SVG) only under a guard implying one colour per polarity; renderers look modules up by type')
def r8(fx):
    svg = fx.fn('writers', 'write_svg')
    a = single([s for s in svg.body if isinstance(s, ast.Assign) and ast.unparse(s.targets[0]) == 'is_multicolor'], 'is_multicolor')
    v, txt = _guard_sufficient(a.value, svg, 'colormap')
    if v == 'unknown':
        raise Unknown(f'write_svg: shortcut guard `{txt}` not understood')
    yield ob('write_svg: plain rendering only if all dark types share one colour and all light types share one', v == 'sufficient', a,
             got=txt, want='... or len({c for t, c in colormap.items() if t >> 8}) > 1 or len({c ... if not t >> 8}) > 1')
    br = [s for s in svg.body if isinstance(s, ast.If) and ast.unparse(s.test) == 'is_multicolor']
    b = single(br, '`if is_multicolor:` in write_svg')
    okb = 'matrix_to_lines_verbose()' in ast.unparse(b.body[0]) and 'matrix_to_lines(' in ast.unparse(b.orelse)
    yield ob('write_svg: multicolour branch uses the per-type iterator, plain branch the run extractor', okb, b,
             got=ast.unparse(b.body[0])[:60], want='miter = matrix_to_lines_verbose()')
    png = fx.fn('writers', 'write_png')
    ifs = [s for s in png.body if isinstance(s, ast.If) and 'matrix_iter_verbose' in ast.unparse(s.body[0] if s.body else s)]
    i = single(ifs, 'iterator selection in write_png')
    v, txt = _guard_sufficient(i.test, png, 'clr_map')
    if v == 'unknown':
        raise Unknown(f'write_png: shortcut guard `{txt}` not understood')
    yield ob('write_png: plain rendering only if all dark types share one colour and all light types share one', v == 'sufficient', i,
             got=txt, want='number_of_colors > 2 or len({c for t, c in clr_map.items() if t >> 8}) > 1 or ...')
    # lookups by type
    mv = fx.fn('writers', 'write_svg.matrix_to_lines_verbose')
    okl = any(pat.match(n, '(colormap[mt] for mt in row)') is not None for n in ast.walk(mv)) and \
        any(pat.match(c, 'matrix_iter_verbose(matrix, matrix_size, scale=1, border=border)') is not None for c in src.calls_in(mv))
    yield ob('write_svg multicolour: colour = colormap[type] of every cell of matrix_iter_verbose(border=border)', okl, mv, got=okl, want=True)
    ppm = fx.fn('writers', 'write_ppm')
    plain_sources = [ast.unparse(c) for c in src.calls_in(ppm) if src.call_name(c) in ('matrix_iter', 'iter', 'matrix_to_lines')]
    yield ob('write_ppm has no plain (two-colour) row source', not plain_sources, ppm, got=plain_sources, want=[])
    nb = single([s for s in svg.body if isinstance(s, ast.Assign) and ast.unparse(s.targets[0]) == 'need_background'], 'need_background in write_svg')
    yield ob('write_svg: the background rectangle replaces the light colour only in plain two-colour rendering',
             nf.same(nb.value, 'not is_multicolor and colormap[consts.TYPE_QUIET_ZONE] is not None and not draw_transparent'),
             nb, got=ast.unparse(nb.value), want='not is_multicolor and colormap[consts.TYPE_QUIET_ZONE] is not None and not draw_transparent')
    okp = any(pat.match(n, "b''.join(pack(b'>3B', *colormap[mt]) for mt in row)") is not None for n in ast.walk(ppm)) and \
        any(pat.match(c, 'matrix_iter_verbose(matrix, matrix_size, scale, border)') is not None for c in src.calls_in(ppm))
    yield ob('write_ppm: every pixel = colormap[type]', okp, ppm, got=okp, want=True)
    okg = any(pat.match(n, '{module_type: palette.index(clr) for module_type, clr in clr_map.items()}') is not None for n in ast.walk(png)) \
        and any(pat.match(n, '((color_index[b] for b in r) for r in miter)') is not None for n in ast.walk(png))
    yield ob('write_png multicolour: palette index by type for every cell', okg, png, got=okg, want=True)


@rule('C11', 'R9', 30, 'PNG: every module type is painted with exactly its configured colour (palette invariants, shared with C09.R9)')
def r9(fx):
    from . import p09
    yield from p09.r9(fx)
