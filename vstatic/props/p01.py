"""Rules for C01 (see DESIGN.md section 5)."""
