"""C01 -- every symbol decodes back to exactly the content: tables, packing, bit budget, ECI gating,
merge legality, pair predicates, text->bytes policy, emission order."""
import ast

from .. import ev, iso, nf, pat, src
from ..core import rule, ob, explain, Ob
from ..ev import PyRaise
from ..interp import Interp, make_callable, FuncVal
from ..src import Unknown
from .common import value_at_exit, C, levels, micro_versions, modes, table_ob, need, single
from .models import BufModel, SegModel, SegmentsModel, encoder_env
from . import p04, wrappers

explain('C01', '''Decided (structural necessary conditions of decodability): mode indicators, Micro mode indicators,
character-count widths, the alphanumeric table and the ECI assignment numbers equal the ISO tables; for each mode the
loop body of make_segment is evaluated as a finite truth table over the complete domain of one packing group (every 1-3
digit group, every alphanumeric pair/single, every byte value, every 16-bit pair code on the partition its constants
induce) and equals the ISO 7.4.3-7.4.6 formula, with the loop stride equal to the group size; the byte-pair predicates
(is_kanji, the kanji/hanzi range tests) accept exactly valid characters, i.e. stay inside the domain on which the 13-bit
packing is injective; the bits budgeted equal the bits written for every version/mode/ECI/SA combination; the ECI header
is written exactly for byte segments with a non-default encoding when eci is set, carries the assignment number of the
segment's own encoding, and eci never coexists with a Micro version; same-mode parts are merged only at a packing-group
boundary and the Segments bookkeeping stays consistent; data_to_bytes leaves bytes alone, uses exactly a requested codec,
else tries ISO-8859-1, Shift JIS, UTF-8 in this order and reports the codec that succeeded; header fields are emitted in
ISO order; the public factories forward content/encoding/eci unchanged. NOT decided: that zig-zag placement, masking
and format placement are mutually inverse for every content (C02/C03 decide their data-independent parts), the Python
codecs, and therefore the round trip itself.''')


@rule('C01', 'R1', 70, 'mode indicators, count-indicator widths, alphanumeric table, ECI numbers, encodings = ISO tables')
def r1(fx):
    md = modes(fx)
    for name, want in iso.MODE_INDICATOR.items():
        yield table_ob(fx, 'MODE_' + name.upper(), 'value', md[name], want)
    mm = C(fx, 'MODE_TO_MICRO_MODE_MAPPING')
    yield table_ob(fx, 'MODE_TO_MICRO_MODE_MAPPING', 'all', mm, {md[k]: v for k, v in iso.MICRO_MODE_INDICATOR.items()})
    mv = micro_versions(fx)
    cci = C(fx, 'CHAR_COUNT_INDICATOR_LENGTH')
    ranges = {1: C(fx, 'VERSION_RANGE_01_09'), 2: C(fx, 'VERSION_RANGE_10_26'), 3: C(fx, 'VERSION_RANGE_27_40')}
    yield table_ob(fx, 'VERSION_RANGE_*', 'distinct', len(set(ranges.values())) == 3 and not set(ranges.values()) & set(mv.values()), True)
    yield table_ob(fx, 'CHAR_COUNT_INDICATOR_LENGTH', 'modes', sorted(cci.keys()), sorted(md[m] for m in iso.CCI))
    for name, widths in iso.CCI.items():
        row = cci.get(md[name], {})
        want = {(ranges[k] if k >= 1 else mv[k]): w for k, w in widths.items()}
        for k in sorted(set(row) | set(want), key=repr):
            yield table_ob(fx, 'CHAR_COUNT_INDICATOR_LENGTH', f'{name}/{k}', row.get(k), want.get(k))
    yield table_ob(fx, 'ALPHANUMERIC_CHARS', 'all', C(fx, 'ALPHANUMERIC_CHARS'), iso.ALPHANUMERIC)
    eci = C(fx, 'ECI_ASSIGNMENT_NUM')
    for k in sorted(set(eci) | set(iso.ECI)):
        yield table_ob(fx, 'ECI_ASSIGNMENT_NUM', k, eci.get(k), iso.ECI.get(k))
    yield table_ob(fx, 'ECI_ASSIGNMENT_NUM', 'one-byte designators', all(0 <= v < 128 for v in eci.values()), True)
    for n, want in (('DEFAULT_BYTE_ENCODING', 'iso-8859-1'), ('KANJI_ENCODING', 'shift_jis'), ('HANZI_ENCODING', 'gb2312')):
        yield table_ob(fx, n, 'value', C(fx, n), want)
    mp = C(fx, 'MODE_MAPPING')
    yield table_ob(fx, 'MODE_MAPPING', 'all', mp, {k: md[k] for k in ('numeric', 'alphanumeric', 'byte', 'kanji', 'hanzi')})


# ---- R2: packing ---------------------------------------------------------------------------

def _mode_chain(fx, fn):
    """The if/elif chain of make_segment that dispatches on segment_mode: [(set of modes, body)]."""
    md = modes(fx)
    env = ev.base_env(fx.forest, 'encoder')
    chain = [s for s in fn.body if isinstance(s, ast.If) and any(isinstance(n, ast.Name) and n.id == 'segment_mode' for n in ast.walk(s.test))
             and any(isinstance(x, ast.For) for x in s.body)]
    top = single(chain, 'mode dispatch chain in make_segment')
    branches = []
    remaining = {md[k]: k for k in ('numeric', 'alphanumeric', 'byte', 'kanji', 'hanzi')}
    node = top
    while True:
        sel = [k for val, k in remaining.items() if ev.ev(node.test, dict(env, segment_mode=val))]
        for k in sel:
            del remaining[md[k]]
        branches.append((sel, node.body, node))
        if len(node.orelse) == 1 and isinstance(node.orelse[0], ast.If):
            node = node.orelse[0]
        else:
            if node.orelse:
                branches.append((sorted(remaining.values()), node.orelse, node))
            break
    return branches


def _pair_lows(body):
    """Representative low bytes: fixed boundaries plus the low bytes (+-1) of every constant in the body."""
    lows = {0x00, 0x01, 0x3F, 0x40, 0x41, 0x7E, 0x7F, 0x80, 0x81, 0x9F, 0xA0, 0xA1, 0xA2, 0xBF, 0xC0, 0xC1,
            0xFB, 0xFC, 0xFD, 0xFE, 0xFF}
    for st in body:
        for n in ast.walk(st):
            if isinstance(n, ast.Constant) and isinstance(n.value, int) and not isinstance(n.value, bool):
                for d in (-1, 0, 1):
                    lows.add((n.value + d) & 0xFF)
    return sorted(lows)


def kanji_ref(code):
    lo = code & 0xFF
    if not (0x40 <= lo <= 0xFC and lo != 0x7F):
        return None
    if 0x8140 <= code <= 0x9FFC:
        d = code - 0x8140
    elif 0xE040 <= code <= 0xEBBF:
        d = code - 0xC140
    else:
        return None
    return (d >> 8) * 0xC0 + (d & 0xFF)


def hanzi_ref(code):
    lo = code & 0xFF
    if not 0xA1 <= lo <= 0xFE:
        return None
    if 0xA1A1 <= code <= 0xAAFE:
        d = code - 0xA1A1
    elif 0xB0A1 <= code <= 0xFAFE:
        d = code - 0xA6A1
    else:
        return None
    return (d >> 8) * 0x60 + (d & 0xFF)


def _new_code_constants(fx, fn):
    """Integer constants of `fn` and of every function / module-level statement of the encoder module (cheap upper bound of
    what the packing can depend on); used to choose representative low bytes."""
    out = set()
    for n in ast.walk(fn):
        if isinstance(n, ast.Constant) and isinstance(n.value, int) and not isinstance(n.value, bool):
            out.add(n.value)
    inv = __import__('vstatic.canon', fromlist=['inventory']).inventory().get('encoder', {})
    known = set(inv.get('functions', ())) | set(inv.get('names', ())) | set(inv.get('classes', ()))
    for st in fx.forest.mod('encoder').body:
        name = getattr(st, 'name', None)
        if isinstance(st, ast.Assign) and len(st.targets) == 1 and isinstance(st.targets[0], ast.Name):
            name = st.targets[0].id
        if name is not None and name in known:
            continue
        if isinstance(st, (ast.FunctionDef, ast.ClassDef, ast.Assign)):
            for n in ast.walk(st):
                if isinstance(n, ast.Constant) and isinstance(n.value, int) and not isinstance(n.value, bool):
                    out.add(n.value)
    return out


def _bits(val, width):
    return [(val >> (width - 1 - k)) & 1 for k in range(width)]


@rule('C01', 'R2', 9, 'per-mode packing = ISO 7.4.3-7.4.6: make_segment, interpreted as a whole, writes for every value of a packing group the ISO bits')
def r2(fx):
    fn = fx.fn('encoder', 'make_segment')
    it = Interp(max_steps=2_000_000_000)
    genv = encoder_env(fx.forest, it)
    ms = FuncVal(fn, genv, it)
    md = modes(fx)
    full = fx.tier == 'thorough'
    counts = {}

    def call(data, mode, enc=None):
        try:
            seg = ms(data, md[mode], enc)
        except PyRaise as ex:
            return ('raises', ex.name)
        return seg

    def seg_bits(seg):
        return [int(x) for x in seg.bits]

    def check(mode, groups, tails, prefix, value_of, width_of):
        """`groups`: full groups, all packed in one call; `tails`: incomplete last groups, one call each behind `prefix`."""
        bad = None
        n = 0
        data = b''.join(groups)
        seg = call(data, mode)
        want = []
        for g in groups:
            want += _bits(value_of(g), width_of(g))
        n += len(groups)
        if isinstance(seg, tuple) and seg and seg[0] == 'raises':
            bad = ('all complete groups', seg, 'ISO bits')
        else:
            got = seg_bits(seg)
            counts[mode] = (seg.char_count, len(data), seg.mode, seg.encoding)
            if got != want:
                k = next((i for i in range(min(len(got), len(want))) if got[i] != want[i]), min(len(got), len(want)))
                off, gi = 0, 0
                for gi, g in enumerate(groups):
                    if off + width_of(g) > k:
                        break
                    off += width_of(g)
                g = groups[gi]
                bad = (bytes(g), f'{len(got)} bits, bits of this group {got[off:off + width_of(g)]}', f'{len(want)} bits, {(value_of(g), width_of(g))}')
        pre = _bits(value_of(prefix), width_of(prefix)) if prefix else []
        for t in tails:
            n += 1
            seg = call(prefix + t, mode)
            want = pre + _bits(value_of(t), width_of(t))
            got = seg if isinstance(seg, tuple) and seg and seg[0] == 'raises' else seg_bits(seg)
            if got != want and bad is None:
                bad = (bytes(t), got if isinstance(got, tuple) else got[len(pre):], (value_of(t), width_of(t)))
        return n, bad

    al = iso.ALPHANUMERIC
    plans = {
        'numeric': ([str(x).zfill(3).encode() for x in range(1000)], [str(x).zfill(w).encode() for w in (1, 2) for x in range(10 ** w)], b'999',
                    lambda g: int(g), lambda g: 3 * len(g) + 1),
        'alphanumeric': ([bytes([a, b_]) for a in al for b_ in al], [bytes([a]) for a in al], b'AB',
                         lambda g: 45 * al.index(g[0]) + al.index(g[1]) if len(g) == 2 else al.index(g[0]), lambda g: 11 if len(g) == 2 else 6),
        'byte': ([bytes([x]) for x in range(256)], [], b'', lambda g: g[0], lambda g: 8),
    }
    for mode, (groups, tails, prefix, value_of, width_of) in plans.items():
        n, bad = check(mode, groups, tails, prefix, value_of, width_of)
        yield ob(f'{mode}: group -> (value, width) over {n} group values', bad is None, fn,
                 got=f'group {bad[0]}: {bad[1]}' if bad else 'ISO formula', want=f'{bad[2]}' if bad else 'ISO formula')
    lows_q = None
    for mode, ref in (('kanji', kanji_ref), ('hanzi', hanzi_ref)):
        if full:
            lows = his = list(range(256))
        else:
            # the partition of the 16-bit codes induced by the constants of the code: every boundary byte and its neighbours
            if lows_q is None:
                lows_q = {0x00, 0x01, 0x3F, 0x40, 0x41, 0x7E, 0x7F, 0x80, 0x81, 0x9F, 0xA0, 0xA1, 0xA2, 0xBF, 0xC0, 0xC1, 0xFB, 0xFC, 0xFD, 0xFE, 0xFF}
                his_q = {0x00, 0x01, 0x7F, 0x80, 0x81, 0x82, 0x9E, 0x9F, 0xA0, 0xA1, 0xA2, 0xA9, 0xAA, 0xAB, 0xAF, 0xB0, 0xB1, 0xDF, 0xE0, 0xE1, 0xEA, 0xEB, 0xEC,
                         0xF9, 0xFA, 0xFB, 0xFE, 0xFF}
                for c in _new_code_constants(fx, fn):
                    if 0 <= c <= 0xFFFF:
                        for d in (-1, 0, 1):
                            lows_q.add((c + d) & 0xFF)
                            his_q.add(((c >> 8) + d) & 0xFF)
                lows_q, his_q = sorted(lows_q), sorted(his_q)
            lows, his = lows_q, his_q
        valid = [bytes([hi, lo]) for hi in range(256) for lo in range(256) if ref((hi << 8) | lo) is not None]
        if not full:
            kl, kh = set(lows), set(his)
            valid = [g for g in valid if g[1] in kl or g[0] in kh]
        n, bad = check(mode, valid, [], b'', lambda g: ref((g[0] << 8) | g[1]), lambda g: 13)
        first = valid[0]
        for hi in his:
            for lo in lows:
                code = (hi << 8) | lo
                if ref(code) is not None:
                    continue
                n += 1
                got = call(first + bytes([hi, lo]), mode)
                if got != ('raises', 'ValueError') and bad is None:
                    bad = (hex(code), got if isinstance(got, tuple) and got[0] == 'raises' else f'accepted ({len(seg_bits(got))} bits)', ('raises', 'ValueError'))
        yield ob(f'{mode}: group -> (value, width) over {n} group values', bad is None, fn,
                 got=f'group {bad[0]}: {bad[1]}' if bad else 'ISO formula', want=f'{bad[2]}' if bad else 'ISO formula')
    # what the segment records beside the bits
    okc = all(m in counts for m in ('numeric', 'alphanumeric', 'byte', 'kanji', 'hanzi'))
    vals = {}
    if okc:
        for m, (cc, nbytes, smode, senc) in counts.items():
            vals[m] = (cc, nbytes)
            okc = okc and cc == (nbytes // 2 if m in ('kanji', 'hanzi') else nbytes) and smode == md[m] and senc == ('iso-8859-1' if m == 'byte' else None)
    yield ob('char_count = bytes (numeric, alphanumeric, byte) / byte pairs (kanji, hanzi)', okc, fn, got=counts,
             want='(char_count, bytes): n bytes -> n, n, n, n/2, n/2; the mode asked for; no encoding given -> None (byte: iso-8859-1)')
    seg = call(b'\xe4\xf6', 'byte', 'iso-8859-15')
    oke = not (isinstance(seg, tuple) and seg and seg[0] == 'raises') and seg.encoding == 'iso-8859-15' and seg.mode == md['byte'] and seg.char_count == 2
    yield ob('segment = (bits written, char_count, mode, encoding): a byte segment keeps the encoding it was given', oke, fn,
             got=seg if isinstance(seg, tuple) and seg and seg[0] == 'raises' else (seg.char_count, seg.mode, seg.encoding), want=(2, md['byte'], 'iso-8859-15'))
    # Buffer (the real class, interpreted): append_bits writes MSB first, toints groups 8 bits MSB first with zero fill
    from ..interp import Instance
    ab = fx.fn('encoder', 'Buffer.append_bits')
    bad = []
    for v, ln in ((0b1011, 4), (5, 8), (0x1ABC, 13), (1, 1), (0, 3), (0xFF, 8)):
        bf = Instance.new(fx.forest, 'encoder', 'Buffer', genv, it)
        bf.extend([1, 0])
        bf.append_bits(v, ln)
        got_bits = [int(x) for x in bf.getbits()]
        if got_bits != [1, 0] + [(v >> (ln - 1 - k)) & 1 for k in range(ln)] or len(bf) != ln + 2:
            bad.append((v, ln, got_bits))
    yield ob('Buffer.append_bits writes `length` bits MSB first', not bad, ab, got=bad[:2] or 'MSB first', want='((val >> i) & 1 for i in reversed(range(length)))')
    ti = fx.fn('encoder', 'Buffer.toints')
    bf = Instance.new(fx.forest, 'encoder', 'Buffer', genv, it, [1, 0, 1, 0, 0, 1, 0, 1, 1, 1])
    vals = [int(x) for x in bf.toints()]
    bf2 = Instance.new(fx.forest, 'encoder', 'Buffer', genv, it, [0, 0, 0, 0, 1, 1, 1, 1] * 3)
    vals2 = [int(x) for x in bf2.toints()]
    yield ob('Buffer.toints groups 8 bits MSB first, zero fill', vals == [0xA5, 0xC0] and vals2 == [0x0F] * 3, ti, got=(vals, vals2), want=([0xA5, 0xC0], [0x0F] * 3))


@rule('C01', 'R11', 2, 'what is detected as alphanumeric is packable as alphanumeric: the detection pattern accepts exactly the 45 ISO characters (C07.R2)')
def r11(fx):
    from . import p07
    for o in p07.r2(fx):
        if 'character class' in o.key or 'consulted on the whole string' in o.key or 'whole string' in o.key:
            yield o


@rule('C01', 'R12', 120, 'the reader finds the data modules where ISO puts them: alignment centres = Annex E, every function-pattern cell of every symbol size (C02.R2, C02.R5)')
def r12(fx):
    from . import p02
    yield from p02.r2(fx)
    for o in p02.r5(fx):
        if any(k in o.key for k in ('alignment cells', 'data cells', 'finder cells', 'timing cells', 'data cells = ISO data modules')):
            yield o


@rule('C01', 'R13', 32, 'the count indicator is as wide as the reader expects: version_range puts every version into its ISO class; a requested version that cannot hold the content is refused, never kept with content cut off (C04.R2, C04.R4)')
def r13(fx):
    for o in p04.r2(fx):
        if 'version_range' in o.key:
            yield o
    yield from p04.r4(fx)


@rule('C01', 'R3', 300, 'bits written = bits budgeted (write_segment + SA header vs bit_length_with_overhead), all versions/modes/ECI/SA')
def r3(fx):
    yield from p04.sized_equals_written(fx)


@rule('C01', 'R4', 40, 'ECI header exactly for byte segments with non-default encoding under eci; designator of the segment encoding; field order')
def r4(fx):
    fn = fx.fn('encoder', 'write_segment')
    md, mv = modes(fx), micro_versions(fx)
    it = Interp()
    genv = encoder_env(fx.forest, it, get_eci_assignment_number=lambda enc_: ('ECI#', enc_))
    ws = FuncVal(fn, genv, it)
    default = C(fx, 'DEFAULT_BYTE_ENCODING')
    vr = genv['version_range']
    conv = p04._caller_convention(fx, fx.fn('encoder', '_encode'))
    for v in (-3, -2, -1, 0, 1, 10, 27):
        rv = mv[v] if v < 1 else v
        ver, ver_range = conv(rv, vr)
        for m in ('numeric', 'alphanumeric', 'byte', 'kanji', 'hanzi'):
            if (None if v >= 1 else v) not in iso.SUPPORTED[m]:
                continue
            for enc in ((default, 'utf-8', 'shift_jis') if m == 'byte' else (None,)):
                for eci in ((False, True) if v >= 1 else (False,)):
                    buf = BufModel()
                    ws(buf, SegModel(md[m], enc, nbits=5, char_count=3), ver, ver_range, eci)
                    want = []
                    if eci and m == 'byte' and enc != default:
                        want += [(iso.MODE_INDICATOR['eci'], 4), (('ECI#', enc), 8)]
                    if v >= 1:
                        want.append((iso.MODE_INDICATOR[m], 4))
                        if m == 'hanzi':
                            want.append((1, 4))
                        want.append((3, iso.CCI[m][iso.version_range(v)]))
                    else:
                        if v > -3:
                            want.append((iso.MICRO_MODE_INDICATOR[m], v + 5 - 0 if False else {-2: 1, -1: 2, 0: 3}[v]))
                        want.append((3, iso.CCI[m][v]))
                    want.append(('extend', 5))
                    yield ob(f'v{v} {m} enc={enc} eci={eci}: header fields', buf.appends == want, fn, got=buf.appends, want=want)
    # get_eci_assignment_number: the ISO number of the codec the name denotes (aliases included), ValueError for a codec without number
    import codecs as _codecs
    ge = fx.fn('encoder', 'get_eci_assignment_number')
    gf = FuncVal(ge, encoder_env(fx.forest, it), it)
    bad = []
    for name in ('utf-8', 'UTF8', 'utf_8', 'latin1', 'iso-8859-1', 'ISO8859-15', 'iso8859_13', 'shift_jis', 'Shift-JIS', 'sjis', 'cp437', 'cp1252', 'windows-1256',
                 'ascii', 'us-ascii', 'utf-16-be', 'gb2312', 'big5', 'euc_kr', 'utf-7', 'cp850', 'koi8-r'):
        canon = _codecs.lookup(name).name
        want = iso.ECI.get(canon, 'raises ValueError')
        try:
            got = gf(name)
        except PyRaise as ex:
            got = f'raises {ex.name}'
        if got != want:
            bad.append((name, got, want))
    yield ob('ECI number = ECI_ASSIGNMENT_NUM[canonical codec name of the encoding]', not bad, ge, got=bad[:4] or 'ISO numbers, ValueError otherwise',
             want='the ECI assignment number of the codec the name denotes; ValueError if it has none')
    # segment.encoding is the encoding data_to_bytes used; hanzi forces GB 2312 before the conversion
    ms = fx.fn('encoder', 'make_segment')
    hz = C(fx, 'HANZI_ENCODING')
    seen = []

    class _B(bytes):
        pass

    def d2b(data, encoding):
        seen.append((data, encoding))
        return _B(b'\xb0\xa1\xb0\xa2' if encoding == hz else b'\x93\x5f\xe4\xaa'), 4, encoding or '<detected>'
    genv2 = encoder_env(fx.forest, it, data_to_bytes=d2b)
    out = []
    for mode, enc in (('byte', None), ('byte', 'cp1252'), ('hanzi', None), ('hanzi', 'utf-8'), ('kanji', None)):
        del seen[:]
        try:
            seg = FuncVal(ms, genv2, it)('<text>', md[mode], enc)
            out.append((mode, enc, list(seen), seg.encoding))
        except PyRaise as ex:
            out.append((mode, enc, list(seen), f'raises {ex.name}'))
    want = [('byte', None, [('<text>', None)], '<detected>'), ('byte', 'cp1252', [('<text>', 'cp1252')], 'cp1252'), ('hanzi', None, [('<text>', hz)], None),
            ('hanzi', 'utf-8', [('<text>', hz)], None), ('kanji', None, [('<text>', None)], None)]
    yield ob('make_segment takes (bytes, length, encoding) from data_to_bytes(data, encoding)', [o[:3] for o in out if o[0] != 'hanzi'] == [w[:3] for w in want if w[0] != 'hanzi']
             and [o[3] for o in out] == [w[3] for w in want], ms, got=out, want=want)
    yield ob('hanzi forces the GB2312 codec before conversion', [o[2] for o in out if o[0] == 'hanzi'] == [w[2] for w in want if w[0] == 'hanzi'], ms,
             got=[o for o in out if o[0] == 'hanzi'], want=[w for w in want if w[0] == 'hanzi'])


@rule('C01', 'R5', 32, 'same-mode parts are merged only at a packing-group boundary; Segments bookkeeping stays consistent')
def r5(fx):
    fn = fx.fn('encoder', 'Segments.add_segment')
    md = modes(fx)
    it = Interp()

    def seg_ctor(bits, char_count, mode, encoding=None):
        s = SegModel(mode, encoding, nbits=0, char_count=char_count)
        return tuple.__new__(SegModel, (list(bits), char_count, mode, encoding))
    genv = encoder_env(fx.forest, it, _Segment=seg_ctor)
    add = FuncVal(fn, genv, it)

    class Self:
        _model = ('segments', 'bit_length', 'modes')

        def __init__(self):
            self.segments, self.bit_length, self.modes = [], 0, []
    group = {'numeric': 3, 'alphanumeric': 2, 'byte': 1, 'kanji': 1, 'hanzi': 1}
    bits_of = {'numeric': lambda c: (c // 3) * 10 + (0, 4, 7)[c % 3], 'alphanumeric': lambda c: (c // 2) * 11 + 6 * (c % 2),
               'byte': lambda c: 8 * c, 'kanji': lambda c: 13 * c, 'hanzi': lambda c: 13 * c}
    for m in group:
        for c1 in range(1, 7):
            bad = None
            for m2 in group:
                for c2 in (1, 2, 3):
                    for e1, e2 in ((None, None),) if m != 'byte' or m2 != 'byte' else (('iso-8859-1', 'iso-8859-1'), ('iso-8859-1', 'utf-8')):
                        me = Self()
                        s1 = tuple.__new__(SegModel, ([1] * bits_of[m](c1), c1, md[m], e1))
                        s2 = tuple.__new__(SegModel, ([0] * bits_of[m2](c2), c2, md[m2], e2))
                        add(me, s1)
                        add(me, s2)
                        merged = len(me.segments) == 1
                        legal = m == m2 and e1 == e2 and c1 % group[m] == 0
                        inv = (me.modes == [s.mode for s in me.segments] and me.bit_length == sum(len(s.bits) for s in me.segments)
                               and sum(s.char_count for s in me.segments) == c1 + c2
                               and [b for s in me.segments for b in s.bits] == list(s1.bits) + list(s2.bits))
                        if (merged and not legal or not inv) and bad is None:
                            bad = (m2, c2, e1, e2, 'merged' if merged else 'kept apart', inv)
            yield ob(f'{m} part of {c1} character(s) followed by another part', bad is None, fn,
                     got=(f'+ {bad[0]} x{bad[1]} (encodings {bad[2]}/{bad[3]}): {bad[4]}, bookkeeping consistent={bad[5]}' if bad
                          else 'merged only when the first part ends on a group boundary'),
                     want='merge only if same mode, same encoding and char_count % group == 0; modes/bit_length consistent')
    # prepare_data feeds every part through make_segment -> add_segment in order (interpreted with recording stand-ins)
    pd = fx.fn('encoder', 'prepare_data')
    log = []

    class SegsRec:
        _model = ('add_segment',)

        def add_segment(self, seg):
            log.append(('add', seg))

    def make_segment(content, mode, encoding=None):
        log.append(('make', content, mode, encoding))
        return ('SEG', content)
    genv2 = encoder_env(fx.forest, it, Segments=SegsRec, make_segment=make_segment)
    pdf = FuncVal(pd, genv2, it)
    N, B = md['numeric'], md['byte']
    cases = [('a string', 'ABC', None, None, [('ABC', None, None)]), ('an integer', 123, N, None, [(123, N, None)]), ('bytes', b'xy', B, 'utf-8', [(b'xy', B, 'utf-8')]),
             ('a list of parts with own modes / encodings', ['A', ('B', N), ('C', None, 'utf-8'), ('D', B, 'latin-1'), ('E',), 7], md['alphanumeric'], 'cp1252',
              [('A', md['alphanumeric'], 'cp1252'), ('B', N, 'cp1252'), ('C', md['alphanumeric'], 'utf-8'), ('D', B, 'latin-1'), ('E', md['alphanumeric'], 'cp1252'),
               (7, md['alphanumeric'], 'cp1252')]),
             ('a tuple of strings', ('x', 'y', 'z'), None, None, [('x', None, None), ('y', None, None), ('z', None, None)]),
             ('plain parts after parts with their own mode / encoding (nothing carries over)', [('A', None, 'utf-8'), 'B', ('C', N), 'D', ('E', B, 'latin-1'), 'F'], None, None,
              [('A', None, 'utf-8'), ('B', None, None), ('C', N, None), ('D', None, None), ('E', B, 'latin-1'), ('F', None, None)]),
             ('the same with global mode and encoding', [('A', N, 'utf-8'), 'B', ('C', None, None), 8], B, 'cp1252',
              [('A', N, 'utf-8'), ('B', B, 'cp1252'), ('C', B, 'cp1252'), (8, B, 'cp1252')]),
             ('falsy parts (the integer 0, empty text, empty bytes), plain or in a tuple: parts like any other', [0, 'a', '', b'', (0,), ('', N), (0, None, 'utf-8'), (b'', B, None)], None, 'cp1252',
              [(0, None, 'cp1252'), ('a', None, 'cp1252'), ('', None, 'cp1252'), (b'', None, 'cp1252'), (0, None, 'cp1252'), ('', N, 'cp1252'), (0, None, 'utf-8'), (b'', B, 'cp1252')])]
    for title, content, mode, enc, want in cases:
        log.clear()
        res = pdf(content, mode, enc)
        makes = [x[1:] for x in log if x[0] == 'make']
        adds = [x[1] for x in log if x[0] == 'add']
        ok = makes == want and adds == [('SEG', w[0]) for w in want] and isinstance(res, SegsRec) and \
            [x[0] for x in log] == ['make', 'add'] * len(want)
        yield ob(f'prepare_data of {title}: every part goes through make_segment(part, its mode or the global one, its encoding or the global one) and add_segment, in order',
                 ok, pd, got=(makes if makes != want else 'as required'), want=want)



@rule('C01', 'R6', 2, 'is_kanji accepts exactly sequences of valid Shift JIS double-byte characters in the two ISO ranges')
def r6(fx):
    fn = fx.fn('encoder', 'is_kanji')
    it = Interp(max_steps=30_000_000)
    f = make_callable(fx.forest, 'encoder', 'is_kanji', it)
    full = fx.tier == 'thorough'
    lows = range(256) if full else _pair_lows(fn.body)
    bad = None
    n = 0
    for hi in range(256):
        for lo in lows:
            code = (hi << 8) | lo
            n += 1
            got = bool(f(bytes([hi, lo])))
            want = kanji_ref(code) is not None
            if got != want and bad is None:
                bad = (hex(code), got, want)
            # as second character after a valid one
            if lo in (0x40, 0x7F, 0xFC) or hi in (0x81, 0x9F, 0xE0, 0xEB):
                got2 = bool(f(bytes([0x88, 0x9F, hi, lo])))
                if got2 != want and bad is None:
                    bad = ('889f' + hex(code)[2:], got2, want)
    yield ob(f'is_kanji on {n} byte pairs (partition of [0, 65535])', bad is None, fn,
             got=f'{bad[0]}: {bad[1]}' if bad else 'valid characters only', want=f'{bad[2]}' if bad else 'valid characters only')
    odd = [bool(f(b)) for b in (b'', b'\x88', b'\x88\x9f\x88')]
    yield ob('is_kanji rejects empty and odd-length input', odd == [False, False, False], fn, got=odd, want=[False] * 3)


class StrModel:
    """A text whose encodability is a parameter (no characters involved).  What a text can be asked beside that (isascii, isdigit,
    ...) is answered as for a text that is neither ASCII nor digits - the case in which the codec order matters."""
    _model = ('encode', 'isascii', 'isdigit', 'isdecimal', 'isnumeric', 'isalnum', 'isalpha', 'isupper', 'islower', 'isspace')

    def isascii(self):
        return self.ascii_text

    def __len__(self):
        return 7

    def isdigit(self):
        return False
    isdecimal = isnumeric = isalnum = isalpha = isupper = islower = isspace = isdigit

    def __init__(self, fails, ascii_text=False):
        self.fails, self.tried, self.ascii_text = set(fails), [], ascii_text

    def encode(self, encoding):
        self.tried.append(encoding)
        if encoding in self.fails:
            raise UnicodeEncodeError(encoding, '', 0, 1, 'model')
        return EncBytes(encoding)


class EncBytes:
    def __init__(self, encoding):
        self.encoding = encoding

    def __len__(self):
        return 7

    def __eq__(self, o):
        return isinstance(o, EncBytes) and o.encoding == self.encoding


@rule('C01', 'R7', 10, 'data_to_bytes: bytes unchanged; requested codec only; else ISO-8859-1, Shift JIS, UTF-8; reports the codec used')
def r7(fx):
    fn = fx.fn('encoder', 'data_to_bytes')
    it = Interp()
    genv = encoder_env(fx.forest, it, str=lambda x: x if isinstance(x, StrModel) else str(x))
    f = FuncVal(fn, genv, it)
    d, k = C(fx, 'DEFAULT_BYTE_ENCODING'), C(fx, 'KANJI_ENCODING')
    for fails, want_enc, want_tried in (((), d, [d]), ((d,), k, [d, k]), ((d, k), 'utf-8', [d, k, 'utf-8'])):
        s = StrModel(fails)
        data, ln, enc = f(s, None)
        yield ob(f'no encoding requested, not encodable in {list(fails)}', (enc, s.tried) == (want_enc, want_tried)
                 and data == EncBytes(want_enc) and ln == 7, fn, got=(enc, s.tried), want=(want_enc, want_tried))
    for req in ('utf-8', 'cp1252', 'shift_jis'):
        s = StrModel(())
        data, ln, enc = f(s, req)
        yield ob(f'requested {req}: exactly that codec', (enc, s.tried) == (req, [req]) and data == EncBytes(req), fn,
                 got=(enc, s.tried), want=(req, [req]))
    # an ASCII-only text is no exception: utf-16 / utf-32 / EBCDIC codecs do not contain ASCII
    s = StrModel((), ascii_text=True)
    data, ln, enc = f(s, 'utf-16-be')
    yield ob('requested utf-16-be for an ASCII-only text: exactly that codec', (enc, s.tried) == ('utf-16-be', ['utf-16-be']) and data == EncBytes('utf-16-be'), fn,
             got=(enc, s.tried, getattr(data, 'encoding', data)), want=('utf-16-be', ['utf-16-be']))
    s = StrModel(('ascii',))
    try:
        f(s, 'ascii')
        got = 'returned'
    except PyRaise as e:
        got = e.name
    yield ob('requested codec that cannot represent the text: error propagates (no fallback)', got in ('UnicodeEncodeError', 'UnicodeError')
             and s.tried == ['ascii'], fn, got=(got, s.tried), want=('UnicodeEncodeError', ['ascii']))
    for req, want_enc in ((None, d), ('utf-8', 'utf-8')):
        raw = b'\x00\xff raw'
        data, ln, enc = f(raw, req)
        yield ob(f'bytes content (encoding={req}) is left unchanged', data is raw and ln == len(raw) and enc == want_enc, fn,
                 got=(data, ln, enc), want=(raw, len(raw), want_enc))
    # hanzi: the text is encoded with GB2312 and nothing else, whatever other codec could also represent it (make_segment and
    # the repository's data_to_bytes together, stopped when the bytes are there)
    hz, md_ = C(fx, 'HANZI_ENCODING'), modes(fx)
    real_d2b = FuncVal(fn, genv, it)
    box = []

    def d2b(*a_, **k_):
        box.append(real_d2b(*a_, **k_))
        raise Unknown('__bytes_are_there__')
    genv_h = encoder_env(fx.forest, it, str=lambda x: x if isinstance(x, StrModel) else str(x), data_to_bytes=d2b)
    for req_enc in (None, 'utf-8'):
        s = StrModel(())
        box.clear()
        try:
            FuncVal(fx.fn('encoder', 'make_segment'), genv_h, it)(s, md_['hanzi'], req_enc)
            got = ('no call of data_to_bytes', s.tried)
        except Unknown as u_:
            if '__bytes_are_there__' not in str(u_) or not box:
                raise
            got = (box[0][2] if isinstance(box[0], tuple) and len(box[0]) == 3 else box[0], s.tried)
        except PyRaise as e:
            got = (f'raises {e.name}', s.tried)
        yield ob(f'hanzi mode (encoding={req_enc}): the text is encoded with {hz} only', got == (hz, [hz]), fx.fn('encoder', 'make_segment'),
                 got=got, want=(hz, [hz]))
    data, ln, enc = f(12345, None)
    yield ob('integers are converted through their decimal digits', (data, ln, enc) == (b'12345', 5, d), fn, got=(data, ln, enc),
             want=(b'12345', 5, d))


@rule('C01', 'R8', 3, '_encode emits SA header, then the segments in order, then terminator/padding; the final message is built from the same bit buffer')
def r8(fx):
    from .models import trace_encode, SAModel
    enc = fx.fn('encoder', '_encode')
    mv = micro_versions(fx)
    try:
        ref_iface = src.all_params(enc) == ['segments', 'error', 'version', 'mask', 'eci', 'boost_error', 'sa_info']
    except Unknown:
        ref_iface = False
    for v, level, sa in ((5, 'M', SAModel((3, 1, 2, 0x5A))), (-2, 'L', None), (40, 'H', None)):
        rv = mv[v] if v < 1 else v
        nsegs = 3
        if sa is not None and not ref_iface:
            nsegs = 1       # _encode was reorganised: the public sequence entry point builds one segment per symbol
        rec, res, info = trace_encode(fx, rv, level, level, sa_info=sa, nsegs=nsegs)
        names = [r[0] for r in rec]
        buf = info['buffers'][0] if len(info['buffers']) == 1 else None
        probs = []
        ws = [r for r in rec if r[0] == 'write_segment']
        if buf is None:
            probs.append(f'{len(info["buffers"])} bit buffers')
        else:
            header = buf.appends[:len([a for a in buf.appends if a[0] != 'extend'])]
            want_hdr = [(3, 4), (1, 4), (2, 4), (0x5A, 8)] if sa is not None else []
            first_len = ws[0][3] if ws else None
            want_bits = [(v_ >> (w_ - 1 - k_)) & 1 for v_, w_ in want_hdr for k_ in range(w_)]
            if list(buf.bits[:first_len or 0]) != want_bits:
                probs.append(f'header bits {list(buf.bits[:first_len or 0])}, expected {want_hdr}')
            if first_len != sum(w for _, w in want_hdr):
                probs.append(f'{first_len} bits precede the first segment')
            segs = info['segments'].segments
            ver_t, vr = (None, iso.version_range(v)) if v >= 1 else (rv, rv)
            if [w[1][1] for w in ws] != segs or any(w[1][0] is not buf for w in ws):
                probs.append('segments are not written in list order into the bit buffer')
            if any(tuple(w[1][2:4]) != (ver_t, vr) or (list(w[1][4:]) + [w[2].get('eci', False)])[0] is not False for w in ws):
                probs.append(f'write_segment(ver, ver_range, eci) = {[tuple(w[1][2:]) for w in ws][:1]}, expected ({ver_t}, {vr}, False)')
            order = [n for n in names if n in ('write_segment', 'write_terminator', 'make_final_message')]
            if order != ['write_segment'] * nsegs + ['write_terminator', 'make_final_message']:
                probs.append(f'order {order}')
            fin = [r for r in rec if r[0] == 'make_final_message']
            if not fin or fin[0][1][2] is not buf:
                probs.append('the final message is not built from the bit buffer')
        yield ob(f'_encode v{v} {"with" if sa else "without"} Structured Append header: header, segments in list order with the symbol-level ver / ver_range / eci, terminator, final message',
                 not probs, enc, got='; '.join(probs[:3]) or 'as required', want='as required')


@rule('C01', 'R10', 100, 'error boosting measures the content with the version search\'s measure (same eci / is_sa), so a boosted level still holds every bit')
def r10(fx):
    from . import p05
    yield from p05.r2(fx)
    for o in p05.r4(fx):
        yield o


@rule('C01', 'R9', 10, 'public factories forward content / encoding / eci unchanged')
def r9(fx):
    yield from wrappers.forwarding(fx, {'content', 'encoding', 'eci'})
