"""vstatic -- static-analysis checks for the properties C01..C16 of heuer/segno.

Every check parses ``$VERIF_REPO/segno/*.py`` (default /repo) with :mod:`ast` and reasons about
the syntax trees only.  Nothing here imports or executes repository code.
"""
