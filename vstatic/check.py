"""Command line: ``python -m vstatic.check <Cxx> [--tier quick|thorough] [--replay path] [--repo path]``.

exit 0: every structural obligation of the property holds on the current tree (known findings are
        printed as ``KNOWN-FINDING:`` lines);
exit 1: at least one obligation is violated: ``VIOLATION property=<id> replay=<path>``;
exit 2: the analysis itself could not be completed (anchor missing, construct outside the grammar,
        fewer instances than the frozen minimum, internal error): ``ANALYSIS-ERROR ...``.
"""
import argparse
import json
import os
import sys
import time


def main(argv=None):
    ap = argparse.ArgumentParser(prog='vstatic.check')
    ap.add_argument('prop')
    ap.add_argument('--tier', default=os.environ.get('VERIF_TIER') or 'quick', choices=('quick', 'thorough'))
    ap.add_argument('--replay')
    ap.add_argument('--repo')
    ap.add_argument('--rules', help='comma separated rule ids (R1,R3) -- debugging aid; evidence is not written')
    ap.add_argument('--no-evidence', action='store_true', help='do not write evidence / replay files (scratch trees, self tests)')
    ap.add_argument('--jobs', type=int, default=int(os.environ.get('VERIF_JOBS', '0') or 0))
    args = ap.parse_args(argv)
    t0 = time.time()
    try:
        if args.repo:
            os.environ['VERIF_REPO'] = args.repo
        from . import core, src
        from . import props  # noqa: F401  (registers the rules)
        prop = args.prop.upper()
        if prop not in core.RULES:
            print(f'ANALYSIS-ERROR no rules registered for {prop}')
            return 2
        forest = src.Forest.load()
        only = None
        if args.rules:
            only = set(args.rules.split(','))
        if args.replay:
            with open(args.replay, encoding='utf-8') as f:
                rp = json.load(f)
            only = {rp['rule'].split('.')[-1]}
        fx, results = core.run_rules(forest, prop, args.tier, only)
        if args.replay:
            hit = [o for rr in results for o in rr.obs
                   if o.key == rp['instance'] and o.where == rp['where']]
            for o in hit:
                print(json.dumps(o.as_dict(), indent=1))
            bad = [o for o in hit if not o.ok]
            if bad:
                print(f'VIOLATION property={prop} replay={args.replay}')
                return 1
            if not hit:
                print('ANALYSIS-ERROR replayed instance no longer exists on this tree')
                return 2
            print('replayed instance holds on this tree')
            return 0
        extra_cov, extra_viol, extra_unknown = None, 0, None
        if args.tier == 'thorough' and not only:
            from . import mut
            extra_cov, extra_unknown = mut.audit(forest, prop, results, jobs=args.jobs or (os.cpu_count() or 4))
            if not args.no_evidence:
                # the audit numbers of the last thorough run are kept apart from the evidence file (which the next quick run rewrites)
                import json
                import subprocess
                os.makedirs(os.path.join(core.VERIF, 'audit'), exist_ok=True)
                keep = {k: extra_cov.get(k) for k in ('mutants', 'mutation_sites_in_anchors', 'mutants_reported', 'mutants_analysis_error', 'mutants_not_reported',
                                                        'kills_by_rule', 'seeded_variants', 'benign_variants')}
                keep['survivors'] = extra_cov.get('survivors', [])[:40]
                keep['property_id'] = prop
                keep['repo_commit'] = subprocess.run(['git', '-C', forest.root or '/repo', 'rev-parse', '--short', 'HEAD'], capture_output=True, text=True).stdout.strip()
                keep['obligations'] = sum(len(rr.obs) for rr in results)
                with open(os.path.join(core.VERIF, 'audit', f'{prop}.json'), 'w', encoding='utf-8') as f:
                    json.dump(keep, f, indent=1, ensure_ascii=False)
        code, _ = core.summarize(prop, args.tier, results, fx, t0, extra_cov=extra_cov,
                                 write=not only and not args.no_evidence, extra_violations=extra_viol, extra_unknown=extra_unknown)
        return code
    except SystemExit:
        raise
    except BaseException as ex:  # never let a traceback look like a violation
        import traceback
        traceback.print_exc()
        print(f'ANALYSIS-ERROR internal: {type(ex).__name__}: {ex}')
        return 2


if __name__ == '__main__':
    rc = main()
    sys.stdout.flush()
    sys.exit(rc)
