"""ev / cev -- whitelisted evaluation of side-effect-free expressions and of module-level constants.

Two uses, both classical static techniques:

* *constant folding* of module-level initialisers (the literal tables of ``consts.py``, the escape
  tables, ``_NAME2RGB`` ...) -- :func:`module_consts`;
* *finite truth tables*: one extracted pure expression evaluated over a finite domain that is
  complete for it (a mask predicate over one period, a byte-pair predicate over [0, 65535], pad
  arithmetic over every residue) -- :func:`ev` with an environment.

Nothing from the repository is imported or called; only a fixed whitelist of builtins is applied,
and anything outside the grammar raises :class:`Unknown` (never a guess).
"""
import ast
import collections
import operator
import re as _re

from .src import Unknown, dotted


class PyRaise(Exception):
    """A Python exception that the analysed code would raise at this point (modelled, not an error of the
    analysis): carried to the nearest enclosing ``try`` of the interpreted code, or to the rule."""

    def __init__(self, cls, node=None, msg=''):
        super().__init__(f'{getattr(cls, "__name__", cls)}: {msg}')
        self.cls, self.node, self.msg = cls, node, msg

    @property
    def name(self):
        return getattr(self.cls, '__name__', str(self.cls))


class RepoExc:
    """Exception class defined in the repository (e.g. DataOverflowError(ValueError))."""

    def __init__(self, name, bases):
        self.__name__, self.bases = name, bases

    def __repr__(self):
        return f'<exception class {self.__name__}>'


def exc_issub(cls, target):
    """Is exception class `cls` (builtin class or RepoExc) a subclass of `target` (same kinds / tuple)?"""
    if isinstance(target, tuple):
        return any(exc_issub(cls, t) for t in target)
    if cls is target or (isinstance(cls, RepoExc) and isinstance(target, RepoExc) and cls.__name__ == target.__name__):
        return True
    if isinstance(cls, RepoExc):
        return any(exc_issub(b, target) for b in cls.bases)
    if isinstance(target, RepoExc):
        return False
    try:
        return issubclass(cls, target)
    except TypeError:
        return False


_MODELLED_EXC = (ValueError, TypeError, KeyError, IndexError, AttributeError, LookupError, ZeroDivisionError,
                 OverflowError, StopIteration, __import__('struct').error, __import__('decimal').InvalidOperation)


class GenList(list):
    """What a generator function of the repository returns here: the values it yields (the body is run eagerly), usable as a
    list by the rules, and consumed like an iterator by `next` and `for`."""
    _pos = 0

    def __iter__(self):
        while self._pos < len(self):
            self._pos += 1
            yield list.__getitem__(self, self._pos - 1)

    def __next__(self):
        if self._pos >= len(self):
            raise StopIteration
        self._pos += 1
        return list.__getitem__(self, self._pos - 1)


class Scope(dict):
    """A local scope that falls back to an enclosing environment (no copying of the globals per call)."""
    __slots__ = ('parent', '_comp')

    def __init__(self, parent, comp=False):
        dict.__init__(self)
        self.parent = parent
        self._comp = comp       # the scope of one comprehension iteration (a walrus binds outside of it)

    def __missing__(self, k):
        return self.parent[k]

    def __contains__(self, k):
        return dict.__contains__(self, k) or k in self.parent

    def get(self, k, d=None):
        try:
            return self[k]
        except KeyError:
            return d


def child(env):
    return Scope(env)


def outermost(env):
    """The module-level environment a chain of local scopes rests on (a module-level function runs in it, not in its caller's
    scopes)."""
    while isinstance(env, Scope):
        env = env.parent
    return env


class Sym:
    """Opaque symbolic value; arithmetic keeps it symbolic, branching on it is Unknown."""
    __slots__ = ('name',)

    def __init__(self, name):
        self.name = name

    def __repr__(self):
        return f'Sym({self.name})'

    def __bool__(self):
        raise Unknown(f'branch on symbolic value {self.name}')

    def __hash__(self):
        return hash(('Sym', self.name))

    def _bin(op):
        def f(self, other):
            return Sym(f'({self.name}{op}{getattr(other, "name", other)})')

        def r(self, other):
            return Sym(f'({getattr(other, "name", other)}{op}{self.name})')
        return f, r
    __add__, __radd__ = _bin('+')
    __sub__, __rsub__ = _bin('-')
    __mul__, __rmul__ = _bin('*')
    __floordiv__, __rfloordiv__ = _bin('//')
    __mod__, __rmod__ = _bin('%')
    __lshift__, __rlshift__ = _bin('<<')
    __rshift__, __rrshift__ = _bin('>>')
    __and__, __rand__ = _bin('&')
    __or__, __ror__ = _bin('|')
    __xor__, __rxor__ = _bin('^')
    __lt__, _ = _bin('<')
    __le__, _ = _bin('<=')
    __gt__, _ = _bin('>')
    __ge__, _ = _bin('>=')
    del _bin

    def __eq__(self, other):
        if isinstance(other, Sym) and other.name == self.name:
            return True
        return Sym(f'({self.name}=={getattr(other, "name", other)})')

    def __ne__(self, other):
        if isinstance(other, Sym) and other.name == self.name:
            return False
        return Sym(f'({self.name}!={getattr(other, "name", other)})')


class Namespace:
    """Evaluated module: attribute access yields constants, missing ones raise Unknown."""

    def __init__(self, name, values, failed=None, exprs=None):
        self._name = name
        self._values = values
        self._failed = failed or {}
        self._exprs = exprs or {}

    def get(self, attr):
        if attr in self._values:
            return self._values[attr]
        if attr in self._failed:
            raise Unknown(f'{self._name}.{attr} is not a foldable constant: {self._failed[attr]}')
        raise Unknown(f'{self._name}.{attr} is not defined at module level')

    def has(self, attr):
        return attr in self._values

    def names(self):
        return list(self._values)


class FuncRef:
    def __init__(self, mod, name, node):
        self.mod, self.name, self.node = mod, name, node

    def __repr__(self):
        return f'<function {self.mod}.{self.name}>'


class RePattern:
    _model = ('match', 'fullmatch', 'search', 'pattern', 'sub', 'findall', 'split', 'finditer', 'flags')

    def __init__(self, pattern, flags=0):
        self.pattern, self.flags = pattern, flags

    def sub(self, repl, string, count=0):
        return self._c().sub(repl, string, count)

    def findall(self, string):
        return self._c().findall(string)

    def split(self, string, maxsplit=0):
        return self._c().split(string, maxsplit)

    def finditer(self, string, *pos):
        return list(self._c().finditer(string, *pos))

    def _c(self):
        return _re.compile(self.pattern, self.flags)

    def match(self, s, *pos):
        return self._c().match(s, *pos)

    def fullmatch(self, s, *pos):
        return self._c().fullmatch(s, *pos)

    def search(self, s, *pos):
        return self._c().search(s, *pos)

    def __repr__(self):
        return f'RePattern({self.pattern!r}, {self.flags})'


class _ReStub:
    """``re`` as far as module-level initialisers need it (pattern construction only)."""
    @staticmethod
    def escape(s):
        return _re.escape(s)

    @staticmethod
    def compile(p, flags=0):
        return RePattern(p, flags)

    @staticmethod
    def sub(pattern, repl, string, count=0, flags=0):
        return _re.sub(pattern, repl, string, count=count, flags=flags)

    IGNORECASE = I = _re.IGNORECASE
    DOTALL = S = _re.DOTALL
    MULTILINE = M = _re.MULTILINE
    ASCII = A = _re.ASCII
    VERBOSE = X = _re.VERBOSE


_BINOPS = {
    ast.Add: operator.add, ast.Sub: operator.sub, ast.Mult: operator.mul,
    ast.FloorDiv: operator.floordiv, ast.Mod: operator.mod, ast.LShift: operator.lshift,
    ast.RShift: operator.rshift, ast.BitOr: operator.or_, ast.BitAnd: operator.and_,
    ast.BitXor: operator.xor, ast.Div: operator.truediv, ast.Pow: operator.pow,
}
_CMPOPS = {
    ast.Eq: operator.eq, ast.NotEq: operator.ne, ast.Lt: operator.lt, ast.LtE: operator.le,
    ast.Gt: operator.gt, ast.GtE: operator.ge, ast.Is: operator.is_, ast.IsNot: operator.is_not,
    ast.In: lambda a, b: a in b, ast.NotIn: lambda a, b: a not in b,
}
_TYPE_ATTRS = {(int, 'from_bytes'), (bytes, 'fromhex'), (bytearray, 'fromhex'), (str, 'maketrans'), (bytes, 'maketrans'), (bytearray, 'maketrans'),
               (dict, 'fromkeys'), (str, 'join'), (bytes, 'join'), (str, 'format'), (str, 'lower'), (str, 'upper'), (int, 'bit_length'),
               (__import__('inspect').Parameter, 'POSITIONAL_ONLY'), (__import__('inspect').Parameter, 'POSITIONAL_OR_KEYWORD'),
               (__import__('inspect').Parameter, 'VAR_POSITIONAL'), (__import__('inspect').Parameter, 'KEYWORD_ONLY'),
               (__import__('inspect').Parameter, 'VAR_KEYWORD'), (__import__('inspect').Parameter, 'empty'),
               (dict, '__getitem__'), (dict, 'get'), (list, '__getitem__'), (tuple, '__getitem__'), (str, 'isdigit'), (bytes, 'isdigit')}


_NO_DEFAULT = object()


def _getattr(obj, name, default=_NO_DEFAULT):
    """getattr for model objects supplied by a rule and for values whose attribute is whitelisted."""
    node = ast.Attribute(value=ast.Name(id='__obj__', ctx=ast.Load()), attr=name, ctx=ast.Load())
    try:
        return ev(node, {'__obj__': obj})
    except PyRaise as ex:
        if default is not _NO_DEFAULT and issubclass(ex.cls, AttributeError):
            return default
        raise
    except AttributeError:
        if default is not _NO_DEFAULT:
            return default
        raise PyRaise(AttributeError, None, f'{type(obj).__name__!r} object has no attribute {name!r}')


def _hasattr(obj, name):
    sentinel = object()
    return _getattr(obj, name, sentinel) is not sentinel


def _modern_name(module, name):
    """What `from <module> import <name>` binds for the helpers of contextlib / typing / dataclasses / enum that private code of
    the repository may use (models where the interpreter needs one, the real object where it is a plain value)."""
    if module == 'contextlib':
        from . import interp as _interp
        return {'suppress': _interp._Suppress, 'nullcontext': _interp._NullContext}.get(name)
    if module == 'typing':
        import typing as _typing
        if name == 'NamedTuple':
            return _typing.NamedTuple
        if name in ('Optional', 'Union', 'Tuple', 'List', 'Dict', 'Iterable', 'Iterator', 'Sequence', 'Callable', 'Any', 'Set', 'FrozenSet', 'Mapping',
                    'Generator', 'Type', 'TypeVar', 'Final', 'ClassVar', 'Literal', 'cast'):
            return getattr(_typing, name, None)
        return None
    if module == 'dataclasses':
        return {'dataclass': _DataclassMarker(), 'field': None}.get(name)
    if module == 'enum':
        import enum as _enum
        return getattr(_enum, name, None) if name in ('Enum', 'IntEnum', 'IntFlag', 'Flag', 'unique', 'auto') else None
    return None


class _DataclassMarker:
    """`@dataclass` / `@dataclass(frozen=True, ...)`: the interpreter builds the instance from the annotated fields."""

    def __call__(self, *a, **k):
        return a[0] if a else self


def _isinstance(obj, cls):
    if isinstance(cls, tuple):
        return any(_isinstance(obj, c) for c in cls)
    if hasattr(cls, 'instancecheck'):
        return cls.instancecheck(obj)
    return isinstance(obj, cls)


_BUILTINS = {
    'tuple': tuple, 'list': list, 'dict': dict, 'set': set, 'frozenset': frozenset,
    'sorted': sorted, 'len': len, 'range': range, 'min': min, 'max': max, 'sum': sum,
    'ord': ord, 'chr': chr, 'int': int, 'str': str, 'bytes': bytes, 'bytearray': bytearray,
    'divmod': divmod, 'abs': abs, 'bool': bool, 'float': float, 'any': any, 'all': all,
    'reversed': lambda x: list(reversed(x)), 'enumerate': lambda *a, **k: list(enumerate(*a, **k)),
    'zip': lambda *a, **k: list(zip(*a, **k)), 'isinstance': _isinstance, 'getattr': _getattr, 'hasattr': _hasattr, 'iter': iter, 'next': lambda it, *d: next(it if hasattr(it, '__next__') else iter(it), *d),
    'None': None, 'True': True, 'False': False, 'round': round, 'repr': repr, 'hex': hex, 'vars': vars,
    'namedtuple': collections.namedtuple, 'property': property,
    'map': lambda f, *its: [f(*a) for a in zip(*its)], 'filter': lambda f, it: [x for x in it if (f(x) if f is not None else x)],
    'callable': callable, 'format': format, 'hash': hash, 'bin': bin, 'pow': pow, 'slice': slice, 'type': type, 'object': object,
    'ValueError': ValueError, 'TypeError': TypeError, 'KeyError': KeyError, 'IndexError': IndexError,
    'AttributeError': AttributeError, 'LookupError': LookupError, 'UnicodeError': UnicodeError,
    'UnicodeEncodeError': UnicodeEncodeError, 'OSError': OSError, 'Exception': Exception,
    'AssertionError': AssertionError, 'ImportError': ImportError, 'StopIteration': StopIteration,
}
_SAFE_METHODS = {
    dict: {'keys', 'values', 'items', 'get', 'pop', 'update', 'setdefault', 'copy', '__getitem__', '__contains__', 'clear', 'popitem'},
    str: {'lower', 'upper', 'find', 'index', 'count', 'startswith', 'endswith', 'join', 'split',
          'strip', 'rstrip', 'lstrip', 'format', 'encode', 'isdigit', 'rfind', 'replace', 'translate', 'partition', 'rpartition', 'title', 'zfill',
          'isalnum', 'isalpha', 'isupper', 'islower', 'splitlines', 'casefold', 'removeprefix', 'removesuffix', 'rsplit', 'expandtabs', 'swapcase', 'isidentifier', 'isprintable', 'capitalize', 'center', 'ljust', 'rjust', 'isspace', 'isascii', 'isnumeric', 'isdecimal'},
    bytes: {'find', 'index', 'count', 'lower', 'upper', 'startswith', 'endswith', 'decode', 'isdigit', 'join', 'split', 'strip', 'hex', 'replace', 'rfind',
            'translate', 'rstrip', 'lstrip', 'zfill', 'ljust', 'rjust', 'partition', 'rpartition', 'isalnum', 'isalpha', 'isupper', 'islower', 'isspace', 'center',
            'rsplit', 'splitlines', 'title', 'capitalize', 'swapcase', 'isascii', 'removeprefix', 'removesuffix', '__getitem__', '__contains__'},
    bytearray: {'find', 'index', 'count', 'extend', 'append', 'pop', 'translate', 'decode', 'hex', 'startswith', 'endswith', 'rfind', 'replace', 'join',
                'insert', 'reverse', 'clear', 'copy', 'strip', 'rstrip', 'lstrip', 'zfill', 'split', 'isdigit', '__getitem__', '__contains__'},
    tuple: {'index', 'count', '__getitem__', '__contains__'},
    range: {'start', 'stop', 'step', 'index', 'count'},
    type(_re.match('', '')): {'group', 'groups', 'start', 'end', 'span', 'groupdict', 'string', 'lastindex'},
    int: {'to_bytes', 'bit_length'},
    __import__('inspect').Parameter: {'name', 'kind', 'default', 'annotation', 'empty', 'POSITIONAL_ONLY', 'POSITIONAL_OR_KEYWORD', 'VAR_POSITIONAL', 'KEYWORD_ONLY', 'VAR_KEYWORD'},
    __import__('decimal').Decimal: {'quantize', 'normalize', 'to_integral_value', 'is_finite', 'as_tuple', 'scaleb', 'copy_abs', 'copy_sign', 'copy_negate', 'is_nan', 'is_infinite', 'is_zero', 'is_signed', 'adjusted', 'compare', 'to_integral', 'to_integral_exact', 'as_integer_ratio', 'remainder_near', 'max', 'min', 'sqrt', 'fma', 'shift', 'rotate', 'same_quantum', 'is_normal', 'is_subnormal', 'number_class', 'conjugate'},
    list: {'index', 'count', 'append', 'extend', 'pop', 'insert', 'remove', 'clear', 'sort', 'reverse', 'copy', '__getitem__', '__contains__'},
    frozenset: {'union', 'intersection'},
    set: {'union', 'intersection', 'add', 'discard', 'update', 'issubset', 'issuperset', 'difference', 'copy'},
}


import argparse as _argparse  # noqa: E402
import itertools as _it  # noqa: E402
import functools as _ft  # noqa: E402

class _Chain:
    _model = ('from_iterable',)

    def __call__(self, *a):
        return list(_it.chain(*a))

    @staticmethod
    def from_iterable(it):
        return list(_it.chain.from_iterable(it))


_STDLIB_PURE = {   # side-effect-free stdlib helpers the repository imports by name
    ('itertools', 'product'): lambda *a, **k: list(_it.product(*a, **k)),
    ('itertools', 'chain'): _Chain(),
    ('itertools', 'repeat'): lambda x, n=None: ([x] * n if n is not None else _it.repeat(x)),
    ('itertools', 'islice'): lambda it, *a: list(_it.islice(it, *a)),
    ('itertools', 'zip_longest'): lambda *a, **k: list(_it.zip_longest(*a, **k)),
    ('functools', 'reduce'): _ft.reduce, ('functools', 'partial'): _ft.partial,
    ('operator', 'itemgetter'): operator.itemgetter,
    ('sys', 'maxsize'): __import__('sys').maxsize,
    ('itertools', 'batched'): lambda it, n: list(_it.batched(it, n)),
    ('collections', 'defaultdict'): collections.defaultdict,
    ('xml.sax.saxutils', 'quoteattr'): __import__('xml.sax.saxutils', fromlist=['quoteattr']).quoteattr,
    ('xml.sax.saxutils', 'escape'): __import__('xml.sax.saxutils', fromlist=['escape']).escape,
    ('urllib.parse', 'quote'): __import__('urllib.parse', fromlist=['quote']).quote,
    ('struct', 'pack'): __import__('struct').pack,
    ('operator', 'lt'): operator.lt, ('operator', 'gt'): operator.gt, ('operator', 'le'): operator.le,
    ('operator', 'ge'): operator.ge, ('operator', 'xor'): operator.xor,
}

_STDLIB_PURE_DONE = False


def _listify(f):
    return lambda *a, **k: list(f(*a, **k))


import bisect as _bisect  # noqa: E402
import math as _math  # noqa: E402
import os as _os  # noqa: E402
import string as _string  # noqa: E402

_PURE_MODULES = {   # `import X` / `from X import y` of side-effect-free stdlib routines, as far as the repository may use them
    'bisect': {k: getattr(_bisect, k) for k in ('bisect', 'bisect_left', 'bisect_right')},
    'math': {k: getattr(_math, k) for k in ('ceil', 'floor', 'sqrt', 'log', 'log2', 'gcd', 'trunc', 'fabs', 'isnan', 'isinf', 'isfinite', 'inf', 'pi')},
    'string': {k: getattr(_string, k) for k in ('digits', 'ascii_letters', 'ascii_uppercase', 'ascii_lowercase', 'hexdigits', 'punctuation')},
    'operator': {k: getattr(operator, k) for k in ('add', 'sub', 'mul', 'floordiv', 'truediv', 'mod', 'lt', 'le', 'gt', 'ge', 'eq', 'ne', 'xor', 'or_', 'and_',
                                                  'not_', 'neg', 'itemgetter', 'attrgetter', 'methodcaller', 'index', 'concat', 'countOf', 'indexOf', 'pos', 'inv', 'invert', 'lshift', 'rshift', 'getitem', 'contains', 'is_', 'is_not', 'truth')},
    'itertools': {'product': lambda *a, **k: list(_it.product(*a, **k)), 'chain': None, 'repeat': None, 'islice': lambda it, *a: list(_it.islice(it, *a)),
                  'zip_longest': lambda *a, **k: list(_it.zip_longest(*a, **k)), 'groupby': lambda it, key=None: [(k_, list(g)) for k_, g in _it.groupby(it, key)],
                  'accumulate': _listify(_it.accumulate), 'starmap': _listify(_it.starmap), 'takewhile': _listify(_it.takewhile),
                  'dropwhile': _listify(_it.dropwhile), 'compress': _listify(_it.compress), 'count': _it.count, 'cycle': _it.cycle,
                  'permutations': _listify(_it.permutations), 'combinations': _listify(_it.combinations), 'pairwise': _listify(_it.pairwise),
                  'filterfalse': _listify(_it.filterfalse), 'batched': _listify(_it.batched)},
    'functools': {'reduce': _ft.reduce, 'partial': _ft.partial},
    'collections': {'defaultdict': collections.defaultdict, 'namedtuple': collections.namedtuple, 'OrderedDict': collections.OrderedDict,
                    'Counter': collections.Counter, 'deque': collections.deque},
}
_PURE_MODULES['os.path'] = {k: getattr(_os.path, k) for k in ('splitext', 'basename', 'dirname', 'join', 'split', 'sep')}


def ev(node, env):
    """Evaluate expression `node` in `env` (dict name -> value / Namespace / Sym)."""
    t = type(node)
    if t is ast.Constant:
        return node.value
    if t is ast.Name:
        if node.id in env:
            return env[node.id]
        if node.id in _BUILTINS and _BUILTINS[node.id] is not None or node.id in ('None', 'True', 'False'):
            return _BUILTINS[node.id]
        raise Unknown(f'name {node.id} is not bound')
    if t is ast.Attribute:
        base = ev(node.value, env)
        if isinstance(base, Namespace):
            return base.get(node.attr)
        if isinstance(base, _ReStub) or base is _ReStub:
            return getattr(_ReStub, node.attr)
        if isinstance(base, Sym):
            return Sym(f'{base.name}.{node.attr}')
        if isinstance(base, _argparse.Namespace) and hasattr(base, node.attr):
            return getattr(base, node.attr)
        if isinstance(base, (_argparse.ArgumentParser, _argparse._ArgumentGroup, _argparse._MutuallyExclusiveGroup)) and node.attr in (
                'add_argument', 'add_argument_group', 'add_mutually_exclusive_group', 'parse_args', 'print_help'):
            return getattr(base, node.attr)
        if node.attr in getattr(type(base), '_model', ()):   # model object supplied by a rule
            return getattr(base, node.attr)
        for typ, names in _SAFE_METHODS.items():
            if isinstance(base, typ) and node.attr in names:
                return getattr(base, node.attr)
        if isinstance(base, tuple) and hasattr(type(base), '_fields') and (node.attr in type(base)._fields or node.attr in ('_replace', '_asdict', '_fields')):
            return getattr(base, node.attr)
        if isinstance(base, __import__('enum').Enum) and node.attr in ('name', 'value'):
            return getattr(base, node.attr)
        if isinstance(base, type) and issubclass(base, __import__('enum').Enum) and not node.attr.startswith('_') and hasattr(base, node.attr):
            return getattr(base, node.attr)
        if type(base).__name__ == 'CodecInfo' and node.attr == 'name':
            return base.name
        if base is tuple and node.attr == '__new__':
            return tuple.__new__
        if isinstance(base, type) and (base, node.attr) in _TYPE_ATTRS:
            return getattr(base, node.attr)
        if isinstance(base, type) and hasattr(base, '_classval') and (node.attr in ('__new__', '_make', '_fields') or not node.attr.startswith('_')) and hasattr(base, node.attr):
            return getattr(base, node.attr)
        if hasattr(type(base), '_classval') and (not node.attr.startswith('__')) and hasattr(base, node.attr):
            return getattr(base, node.attr)      # an instance of an interpreted tuple subclass of the repository
        if not hasattr(base, node.attr) and isinstance(base, (int, str, bytes, float, tuple, list, dict, type(None), bool)):
            raise PyRaise(AttributeError, node, f'{type(base).__name__!r} object has no attribute {node.attr!r}')
        raise Unknown(f'attribute .{node.attr} of {type(base).__name__} not in whitelist')
    if t is ast.Tuple:
        return tuple(_elts(node.elts, env))
    if t is ast.List:
        return list(_elts(node.elts, env))
    if t is ast.Set:
        return set(_elts(node.elts, env))
    if t is ast.Dict:
        out = {}
        for k, v in zip(node.keys, node.values):
            if k is None:
                out.update(ev(v, env))
            else:
                out[ev(k, env)] = ev(v, env)
        return out
    if t is ast.BinOp:
        op = _BINOPS.get(type(node.op))
        if op is None:
            raise Unknown(f'operator {type(node.op).__name__}')
        a, b = ev(node.left, env), ev(node.right, env)
        try:
            return op(a, b)
        except (Unknown, PyRaise):
            raise
        except _MODELLED_EXC as ex:
            raise PyRaise(type(ex), node, str(ex))
        except Exception as ex:
            raise Unknown(f'{ast.unparse(node)}: {type(ex).__name__}: {ex}')
    if t is ast.UnaryOp:
        v = ev(node.operand, env)
        if isinstance(node.op, ast.Not):
            return not v
        if isinstance(node.op, ast.USub):
            return -v
        if isinstance(node.op, ast.Invert):
            return ~v
        if isinstance(node.op, ast.UAdd):
            return +v
    if t is ast.BoolOp:
        if isinstance(node.op, ast.And):
            v = True
            for e in node.values:
                v = ev(e, env)
                if not v:
                    return v
            return v
        v = False
        for e in node.values:
            v = ev(e, env)
            if v:
                return v
        return v
    if t is ast.Compare:
        left = ev(node.left, env)
        for op, right in zip(node.ops, node.comparators):
            r = ev(right, env)
            f = _CMPOPS[type(op)]
            try:
                res = f(left, r)
            except (Unknown, PyRaise):
                raise
            except _MODELLED_EXC as ex:
                raise PyRaise(type(ex), node, str(ex))
            except Exception as ex:
                raise Unknown(f'{ast.unparse(node)}: {type(ex).__name__}: {ex}')
            if isinstance(res, Sym):
                if len(node.ops) == 1:
                    return res
                raise Unknown('chained comparison on symbolic value')
            if not res:
                return False
            left = r
        return True
    if t is ast.NamedExpr:
        val = ev(node.value, env)
        tgt_env = env
        # a walrus inside a comprehension binds in the enclosing function scope
        while isinstance(tgt_env, Scope) and getattr(tgt_env, '_comp', False) and isinstance(getattr(tgt_env, 'parent', None), dict):
            tgt_env = tgt_env.parent
        tgt_env[node.target.id] = val
        return val
    if t is ast.IfExp:
        return ev(node.body, env) if ev(node.test, env) else ev(node.orelse, env)
    if t is ast.Slice:
        return slice(ev(node.lower, env) if node.lower else None, ev(node.upper, env) if node.upper else None, ev(node.step, env) if node.step else None)
    if t is ast.Subscript:
        base = ev(node.value, env)
        if isinstance(node.slice, ast.Slice):
            lo = ev(node.slice.lower, env) if node.slice.lower else None
            hi = ev(node.slice.upper, env) if node.slice.upper else None
            st = ev(node.slice.step, env) if node.slice.step else None
            idx = slice(lo, hi, st)
        else:
            idx = ev(node.slice, env)
        if isinstance(base, Sym) or isinstance(idx, Sym):
            return Sym(f'{getattr(base, "name", base)}[{getattr(idx, "name", idx)}]')
        try:
            return base[idx]
        except (Unknown, PyRaise):
            raise
        except _MODELLED_EXC as ex:
            raise PyRaise(type(ex), node, str(ex))
        except Exception as ex:
            raise Unknown(f'{ast.unparse(node)}: {type(ex).__name__}: {ex}')
    if t in (ast.ListComp, ast.GeneratorExp, ast.SetComp):
        out = list(_comp(node.generators, env, lambda e: ev(node.elt, e)))
        if t is ast.GeneratorExp:
            return GenList(out)         # evaluated eagerly, consumed like the iterator it is
        return set(out) if t is ast.SetComp else out
    if t is ast.DictComp:
        return dict(_comp(node.generators, env, lambda e: (ev(node.key, e), ev(node.value, e))))
    if t is ast.Call:
        return _call(node, env)
    if t is ast.JoinedStr:
        parts = []
        for v in node.values:
            if isinstance(v, ast.Constant):
                parts.append(v.value)
            else:
                val = ev(v.value, env)
                if isinstance(val, Sym):
                    raise Unknown('f-string over symbolic value')
                spec = ev(v.format_spec, env) if v.format_spec else ''
                if v.conversion == ord('r'):
                    val = repr(val)
                elif v.conversion == ord('s'):
                    val = str(val)
                parts.append(format(val, spec))
        return ''.join(parts)
    if t is ast.Lambda:
        return LambdaVal(node, env)
    if t is ast.Starred:
        raise Unknown('starred expression')
    raise Unknown(f'expression kind {t.__name__} outside the evaluator grammar: {ast.unparse(node)[:60]}')


class LambdaVal:
    def __init__(self, node, env):
        self.node, self.env = node, env

    def __call__(self, *args):
        names = [a.arg for a in self.node.args.args]
        if len(names) != len(args):
            raise Unknown('lambda arity')
        e = Scope(self.env)
        e.update(zip(names, args))
        return ev(self.node.body, e)


def _elts(elts, env):
    for e in elts:
        if isinstance(e, ast.Starred):
            yield from ev(e.value, env)
        else:
            yield ev(e, env)


def _bind(target, value, env):
    if isinstance(target, ast.Name):
        env[target.id] = value
    elif isinstance(target, (ast.Tuple, ast.List)):
        vals = list(value)
        if len(vals) != len(target.elts):
            raise Unknown('unpack arity')
        for t, v in zip(target.elts, vals):
            _bind(t, v, env)
    else:
        raise Unknown('binding target')


def _comp(gens, env, leaf):
    def rec(i, e):
        if i == len(gens):
            yield leaf(e)
            return
        g = gens[i]
        it = ev(g.iter, e)
        if isinstance(it, Sym):
            raise Unknown('comprehension over symbolic iterable')
        for v in it:
            e2 = Scope(e, comp=True)
            _bind(g.target, v, e2)
            if all(ev(c, e2) for c in g.ifs):
                yield from rec(i + 1, e2)
    return rec(0, env)


def _call(node, env):
    fn = ev(node.func, env)
    args = list(_elts(node.args, env))
    kw = {}
    for k in node.keywords:
        if k.arg is None:
            kw.update(ev(k.value, env))
        else:
            kw[k.arg] = ev(k.value, env)
    if isinstance(fn, Sym) or any(isinstance(a, Sym) for a in args):
        return Sym(f'{getattr(fn, "name", getattr(fn, "__name__", fn))}({",".join(str(getattr(a, "name", a)) for a in args)})')
    if isinstance(fn, FuncRef) and isinstance(fn.node, ast.FunctionDef) and '__forest__' in env:
        # a module-level helper used to *compute* a table: fold it with the abstract interpreter (data-independent code)
        from .interp import Interp, FuncVal
        it = Interp(max_steps=2_000_000)
        genv = dict(outermost(env))         # the module as far as it has been evaluated (a helper can only use what precedes it)
        for k, v in list(genv.items()):
            if isinstance(v, FuncRef) and isinstance(v.node, ast.FunctionDef):
                genv[k] = FuncVal(v.node, genv, it)
        return FuncVal(fn.node, genv, it)(*args, **kw)
    if isinstance(fn, FuncRef) and isinstance(fn.node, ast.ClassDef) and '__forest__' in env:
        # a module-level constant that is an instance of a (tuple / dataclass / enum) class of the module
        from .interp import Interp, FuncVal, ClassVal, _is_exception_class
        if not _is_exception_class(fn.node, env):
            it = Interp(max_steps=2_000_000)
            genv = dict(outermost(env))
            for k, v in list(genv.items()):
                if isinstance(v, FuncRef) and isinstance(v.node, ast.FunctionDef):
                    genv[k] = FuncVal(v.node, genv, it)
            return ClassVal(env['__forest__'], fn.mod, fn.node, genv, it)(*args, **kw)
    if fn is None or isinstance(fn, FuncRef):
        raise Unknown(f'call of {ast.unparse(node.func)} is not foldable')
    if 'key' in kw and isinstance(kw['key'], LambdaVal):
        pass
    try:
        return fn(*args, **kw)
    except (Unknown, PyRaise):
        raise
    except _MODELLED_EXC as ex:
        raise PyRaise(type(ex), node, str(ex))
    except Exception as ex:
        if type(ex).__name__ in ('Return', 'Raised', '_Break', '_Continue'):
            raise
        raise Unknown(f'{ast.unparse(node)[:80]}: {type(ex).__name__}: {ex}')


import inspect as _inspect  # noqa: E402


class _Sig:
    """What inspect.signature() reports, as far as private code may look at it."""
    _model = ('parameters',)

    def __init__(self, params):
        self.parameters = dict((p_.name, p_) for p_ in params)


def _signature(obj, *, follow_wrapped=True):
    """inspect.signature for interpreted functions and for function descriptions supplied by a rule (read the way inspect reads a
    function object: __wrapped__, __code__, __defaults__, __kwdefaults__)."""
    P = _inspect.Parameter
    hops = 0
    while follow_wrapped and hops < 16:
        nxt = _getattr(obj, '__wrapped__', None) if type(obj).__name__ != 'FuncVal' else None
        if nxt is None:
            break
        obj, hops = nxt, hops + 1
    node = obj.node if type(obj).__name__ == 'FuncVal' else None
    if isinstance(node, ast.FunctionDef):
        a = node.args
        dv = getattr(obj, 'defaults', None) or {}
        pos = a.posonlyargs + a.args
        with_default = {x.arg for x in pos[len(pos) - len(a.defaults):]} | {x.arg for x, d in zip(a.kwonlyargs, a.kw_defaults) if d is not None}
        out = []
        for x in a.posonlyargs:
            out.append(P(x.arg, P.POSITIONAL_ONLY, default=dv.get(x.arg, _OpaqueDefault(x.arg)) if x.arg in with_default else P.empty))
        for x in a.args:
            out.append(P(x.arg, P.POSITIONAL_OR_KEYWORD, default=dv.get(x.arg, _OpaqueDefault(x.arg)) if x.arg in with_default else P.empty))
        if a.vararg:
            out.append(P(a.vararg.arg, P.VAR_POSITIONAL))
        for x in a.kwonlyargs:
            out.append(P(x.arg, P.KEYWORD_ONLY, default=dv.get(x.arg, _OpaqueDefault(x.arg)) if x.arg in with_default else P.empty))
        if a.kwarg:
            out.append(P(a.kwarg.arg, P.VAR_KEYWORD))
        return _Sig(out)
    code = _getattr(obj, '__code__')
    names = _getattr(code, 'co_varnames')
    npos, nkwo = _getattr(code, 'co_argcount'), _getattr(code, 'co_kwonlyargcount')
    nposonly = _getattr(code, 'co_posonlyargcount', 0)
    flags = _getattr(code, 'co_flags', None)
    if flags is None:
        raise Unknown('inspect.signature of a function description without co_flags')
    defaults = _getattr(obj, '__defaults__', None) or ()
    kwdefaults = _getattr(obj, '__kwdefaults__', None) or {}
    out = []
    for i, n in enumerate(names[:npos]):
        d = defaults[i - (npos - len(defaults))] if i >= npos - len(defaults) else P.empty
        out.append(P(n, P.POSITIONAL_ONLY if i < nposonly else P.POSITIONAL_OR_KEYWORD, default=d))
    k = npos + nkwo
    if flags & 0x04:
        out.append(P(names[k], P.VAR_POSITIONAL))
        k += 1
    for n in names[npos:npos + nkwo]:
        out.append(P(n, P.KEYWORD_ONLY, default=kwdefaults.get(n, P.empty)))
    if flags & 0x08:
        out.append(P(names[k], P.VAR_KEYWORD))
    return _Sig(out)


class _OpaqueDefault:
    def __init__(self, name):
        self.name = name


def bind_stdlib_import(st, env):
    """Bind what an `import X` / `from X import y` of a modelled standard-library module binds (nothing for any other module)."""
    if isinstance(st, ast.Import):
        for a in st.names:
            if a.name == 're':
                env[a.asname or 're'] = _ReStub
            elif a.name == 'math':
                import math as _math
                env[a.asname or 'math'] = Namespace('math', {'ceil': _math.ceil, 'floor': _math.floor})
            elif a.name == 'sys':
                import sys as _sys
                env[a.asname or 'sys'] = Namespace('sys', {'maxsize': _sys.maxsize})
            elif a.name == 'segno':
                pass
            elif a.name == 'decimal':
                import decimal as _decimal
                env[a.asname or 'decimal'] = Namespace('decimal', {'Decimal': _decimal.Decimal, 'ROUND_HALF_UP': _decimal.ROUND_HALF_UP})
            elif a.name in ('contextlib', 'typing', 'dataclasses', 'enum'):
                import importlib as _il
                real = _il.import_module(a.name)
                env[a.asname or a.name] = Namespace(a.name, {k: _modern_name(a.name, k) for k in dir(real) if _modern_name(a.name, k) is not None})
            elif a.name == 'inspect':
                env[a.asname or 'inspect'] = Namespace('inspect', {'signature': _signature, 'Parameter': _inspect.Parameter})
            elif a.name == 'codecs':
                import codecs as _codecs
                env[a.asname or 'codecs'] = Namespace('codecs', {'lookup': _codecs.lookup})
            elif a.name == 'os':
                env[a.asname or 'os'] = Namespace('os', {'path': Namespace('os.path', dict(_PURE_MODULES['os.path'])), 'linesep': '\n', 'sep': '/',
                                                         'PathLike': _os.PathLike, 'fspath': _os.fspath, 'fsdecode': _os.fsdecode, 'fsencode': _os.fsencode})
            elif a.name in _PURE_MODULES and (a.asname or a.name) not in env:
                env[a.asname or a.name] = Namespace(a.name, _pure_module(a.name))
    elif isinstance(st, ast.ImportFrom) and st.module in ('contextlib', 'typing', 'dataclasses', 'enum'):
        for a in st.names:
            v = _modern_name(st.module, a.name)
            if v is not None:
                env[a.asname or a.name] = v
    elif isinstance(st, ast.ImportFrom) and st.module == 'inspect':
        for a in st.names:
            if a.name in ('signature', 'Parameter'):
                env[a.asname or a.name] = {'signature': _signature, 'Parameter': _inspect.Parameter}[a.name]
    elif isinstance(st, ast.ImportFrom):
        for a in st.names:
            if st.module == 'collections' and a.name == 'namedtuple':
                env[a.asname or a.name] = collections.namedtuple
            elif (st.module, a.name) in _STDLIB_PURE:
                env[a.asname or a.name] = _STDLIB_PURE[(st.module, a.name)]
            elif st.module in _PURE_MODULES and a.name in _pure_module(st.module):
                env[a.asname or a.name] = _pure_module(st.module)[a.name]


# -- module-level constant evaluation ------------------------------------------------------

def module_consts(forest, modname, _stack=()):
    """Evaluate the module-level single assignments of `modname` -> Namespace (cached per forest)."""
    key = ('consts', modname)
    if key in forest._cache:
        return forest._cache[key]
    if modname in _stack:
        raise Unknown(f'import cycle through {modname}')
    tree = forest.mod(modname)
    env = {'__forest__': forest}
    failed = {}
    exprs = {}
    assigned_count = collections.Counter()

    def sub(name):
        return module_consts(forest, name, _stack + (modname,))

    for st in tree.body:
        if isinstance(st, ast.ImportFrom) and st.level >= 1 and st.module is None:
            for a in st.names:   # from . import consts
                if a.name in forest.trees:
                    try:
                        env[a.asname or a.name] = sub(a.name)
                    except Unknown as u:
                        failed[a.asname or a.name] = str(u)
        elif isinstance(st, ast.ImportFrom) and (st.level >= 1 or st.module == 'segno' or (st.module or '').startswith('segno.')):
            src = st.module if st.level >= 1 else (st.module[len('segno.'):] if st.module != 'segno' else None)
            for a in st.names:
                try:
                    if src and src in forest.trees:
                        env[a.asname or a.name] = sub(src).get(a.name)
                    elif a.name in forest.trees:
                        env[a.asname or a.name] = sub(a.name)
                except Unknown as u:
                    failed[a.asname or a.name] = str(u)
        elif isinstance(st, ast.Import) or (isinstance(st, ast.ImportFrom) and st.level == 0):
            bind_stdlib_import(st, env)
        elif isinstance(st, (ast.FunctionDef, ast.AsyncFunctionDef, ast.ClassDef)):
            env[st.name] = FuncRef(modname, st.name, st)
        elif isinstance(st, ast.Assign):
            for tgt in st.targets:
                for nm in ast.walk(tgt):
                    if isinstance(nm, ast.Name):
                        assigned_count[nm.id] += 1
            if len(st.targets) == 1 and isinstance(st.targets[0], ast.Name):
                name = st.targets[0].id
                exprs[name] = st.value
                try:
                    env[name] = ev(st.value, env)
                    failed.pop(name, None)
                except Unknown as u:
                    env.pop(name, None)
                    failed[name] = str(u)
            elif len(st.targets) == 1 and isinstance(st.targets[0], (ast.Tuple, ast.List)) and all(isinstance(e, ast.Name) for e in st.targets[0].elts):
                names = [e.id for e in st.targets[0].elts]      # a, b, c = range(3)
                try:
                    vals = list(ev(st.value, env))
                    if len(vals) != len(names):
                        raise Unknown('unpack arity')
                    for n_, v_ in zip(names, vals):
                        env[n_] = v_
                        failed.pop(n_, None)
                except (Unknown, TypeError) as u:
                    for n_ in names:
                        env.pop(n_, None)
                        failed[n_] = str(u)
        elif isinstance(st, ast.Delete):
            for tgt in st.targets:
                if isinstance(tgt, ast.Name):
                    env.pop(tgt.id, None)
        if isinstance(st, (ast.Expr, ast.AugAssign, ast.For, ast.While, ast.If, ast.Try, ast.With)) or \
                (isinstance(st, ast.Assign) and not all(isinstance(t, (ast.Name, ast.Tuple, ast.List)) for t in st.targets)):
            if isinstance(st, ast.Expr) and isinstance(st.value, ast.Constant):
                continue
            # a module-level statement that may change a table after its assignment (X.update(..), X[k] = v, a filling loop):
            # it is interpreted; where that is not possible the objects it mentions are no longer known
            mentioned = {n.id for n in ast.walk(st) if isinstance(n, ast.Name)}
            try:
                from .interp import Interp
                env.setdefault('__name__', 'segno.' + modname)
                Interp(max_steps=5_000_000).block([st], env)
            except Exception as ex:     # Unknown, PyRaise, Raised, ...
                for name in mentioned:
                    if isinstance(env.get(name), (list, dict, set, bytearray)):
                        failed[name] = f'changed by a module-level statement that could not be interpreted ({type(ex).__name__}: {str(ex)[:80]})'
                        del env[name]
    env.pop('__name__', None)
    for name, c in assigned_count.items():
        if c > 1 and name in env:
            failed[name] = 'assigned more than once at module level'
            del env[name]
    env.pop('__forest__', None)
    ns = Namespace(modname, env, failed, exprs)
    forest._cache[key] = ns
    return ns


def _pure_module(name):
    d = dict(_PURE_MODULES[name])
    for k in list(d):
        if d[k] is None and (name, k) in _STDLIB_PURE:
            d[k] = _STDLIB_PURE[(name, k)]
    return d


def const(forest, modname, name):
    return module_consts(forest, modname).get(name)


def base_env(forest, modname):
    """Environment for evaluating expressions that occur inside functions of `modname`:
    the module's own constants and the imported module namespaces."""
    ns = module_consts(forest, modname)
    env = dict(ns._values)
    env['__modname__'] = modname
    return env
