"""pat -- structural patterns with holes, so that a rule can separate *shape* from *slots*.

``match(node, 'bytearray(islice(codewords, H_n))')`` returns ``{'n': <ast>}`` when the shape is the
expected one and ``None`` otherwise.  Rules turn a shape mismatch into UNKNOWN (exit 2: the code was
restructured, re-confirm the anchor) and a slot whose content is inside a closed vocabulary but not
the required one into VIOLATED.  That is the three-valued discipline of DESIGN section 1.
"""
import ast

from . import nf
from .src import Unknown

_COMM = (ast.Add, ast.Mult, ast.BitOr, ast.BitAnd, ast.BitXor)
_ORIENT = {ast.Lt: ast.Gt, ast.Gt: ast.Lt, ast.LtE: ast.GtE, ast.GtE: ast.LtE, ast.Eq: ast.Eq, ast.NotEq: ast.NotEq}
_cache = {}


def _parse(pattern, mode):
    key = (pattern, mode)
    if key not in _cache:
        if mode == 'expr':
            _cache[key] = ast.parse(pattern, mode='eval').body
        else:
            body = ast.parse(pattern).body
            _cache[key] = body[0] if len(body) == 1 else body
    return _cache[key]


def match(node, pattern, mode='expr'):
    """Bindings {hole: node} or None.  Holes are identifiers ``H_<name>``; ``H__`` matches anything."""
    p = _parse(pattern, mode)
    b = {}
    return b if _m(node, p, b) else None


def match_stmt(node, pattern):
    return match(node, pattern, mode='stmt')


def _hole(p):
    if isinstance(p, ast.Name) and p.id.startswith('H_'):
        return p.id[2:]
    return None


def _m(n, p, b):
    h = _hole(p)
    if h is not None:
        if h == '_':
            return True
        if h in b:
            return nf.norm(b[h]) == nf.norm(n) if isinstance(n, ast.AST) else b[h] == n
        b[h] = n
        return True
    if isinstance(p, ast.Expr) and isinstance(n, ast.Expr):
        return _m(n.value, p.value, b)
    if type(n) is not type(p):
        return False
    if isinstance(p, ast.Compare) and len(p.ops) == 1 and len(n.ops) == 1 and type(p.ops[0]) in _ORIENT:
        # orientation-insensitive: `a <= b` also matches `b >= a`
        save = dict(b)
        if type(n.ops[0]) is type(p.ops[0]) and _m(n.left, p.left, b) and _m(n.comparators[0], p.comparators[0], b):
            return True
        b.clear()
        b.update(save)
        if type(n.ops[0]) is _ORIENT[type(p.ops[0])] and _m(n.comparators[0], p.left, b) and _m(n.left, p.comparators[0], b):
            return True
        b.clear()
        b.update(save)
        return False
    if isinstance(p, ast.BinOp) and isinstance(p.op, _COMM) and type(n.op) is type(p.op):
        save = dict(b)
        if _m(n.left, p.left, b) and _m(n.right, p.right, b):
            return True
        b.clear()
        b.update(save)
        if _m(n.left, p.right, b) and _m(n.right, p.left, b):
            return True
        b.clear()
        b.update(save)
        return False
    if isinstance(p, ast.Call):
        if not _m(n.func, p.func, b) or len(n.args) != len(p.args):
            return False
        for x, y in zip(n.args, p.args):
            if not _m(x, y, b):
                return False
        nk = {k.arg: k.value for k in n.keywords}
        pk = {k.arg: k.value for k in p.keywords}
        if set(nk) != set(pk):
            return False
        return all(_m(nk[k], pk[k], b) for k in pk)
    if isinstance(p, ast.Constant):
        return type(n.value) is type(p.value) and n.value == p.value
    for fld in p._fields:
        pv, nv = getattr(p, fld, None), getattr(n, fld, None)
        if fld in ('ctx', 'type_comment', 'kind', 'lineno', 'col_offset'):
            continue
        if isinstance(pv, list):
            if not isinstance(nv, list) or len(pv) != len(nv):
                return False
            for x, y in zip(nv, pv):
                if isinstance(y, ast.AST):
                    if not _m(x, y, b):
                        return False
                elif x != y:
                    return False
        elif isinstance(pv, ast.AST):
            if not isinstance(nv, ast.AST) or not _m(nv, pv, b):
                return False
        else:
            if pv != nv:
                return False
    return True


def need(node, pattern, what, mode='expr'):
    """Bindings, or Unknown(shape) if the node does not have the expected shape."""
    b = match(node, pattern, mode)
    if b is None:
        raise Unknown(f'{what}: shape `{ast.unparse(node)[:90]}` is not `{pattern}`')
    return b


def simple(node, names=None):
    """Is `node` inside the closed vocabulary: ints, names, attribute chains, + - * of those,
    len(name), constant subscripts?  (Slots outside it are UNKNOWN, not VIOLATED.)"""
    if isinstance(node, ast.Constant):
        return isinstance(node.value, (int, str, bytes, bool, type(None)))
    if isinstance(node, ast.Name):
        return names is None or node.id in names
    if isinstance(node, ast.Attribute):
        return simple(node.value, names)
    if isinstance(node, ast.BinOp) and isinstance(node.op, (ast.Add, ast.Sub, ast.Mult, ast.LShift, ast.RShift,
                                                              ast.BitAnd, ast.BitOr, ast.FloorDiv, ast.Mod)):
        return simple(node.left, names) and simple(node.right, names)
    if isinstance(node, ast.UnaryOp):
        return simple(node.operand, names)
    if isinstance(node, ast.Call) and isinstance(node.func, ast.Name) and node.func.id in ('len', 'int') \
            and len(node.args) == 1 and not node.keywords:
        return simple(node.args[0], names)
    if isinstance(node, ast.Subscript) and not isinstance(node.slice, ast.Slice):
        return simple(node.value, names) and simple(node.slice, names)
    if isinstance(node, ast.Tuple):
        return all(simple(e, names) for e in node.elts)
    return False


def slot(node, accepted, what):
    """True if `node` is (normalised) one of `accepted` texts; False if it is a *simple* expression that
    is not; Unknown if it is outside the closed vocabulary."""
    t = nf.norm(node)
    acc = {nf.norm(ast.parse(a, mode='eval').body) for a in accepted}
    if t in acc:
        return True
    if simple(node):
        return False
    raise Unknown(f'{what}: `{ast.unparse(node)[:80]}` is outside the vocabulary this rule understands')
