"""canon -- undo, before any rule looks at the code, the refactorings that are *new relative to the reference tree*.

The rules were confirmed instance by instance on the reference tree (``inventory.json``: every function and every
module-level name that existed when the instances were frozen).  A later change that only

* extracts a piece of a function into a new helper function (module-level or nested), or
* hoists a literal into a new module-level constant,

does not change what the program does, and must not change a verdict.  Both are undone here by semantics-preserving
rewriting of the syntax tree:

* a reference to a new module-level constant whose defining expression is an immutable constant expression is replaced by
  that expression;
* a call of a new helper is replaced by the helper's body (parameters bound to the arguments, ``return E`` replaced by
  what the call site does with the value).  Only helpers of a shape for which this is exact are inlined: no generators,
  no decorators, no ``*args``, no ``global``/``nonlocal``, every ``return`` in tail position; and only call sites that are
  evaluated exactly once where they stand (not inside a comprehension, lambda, conditional expression branch, short-circuit
  tail or loop condition).  Anything else is left alone -- the rules then see the helper as what it is, a new function.

Nothing else is rewritten: functions and constants of the reference tree keep their shape, so a rule that is anchored in
them sees exactly what is in the file.  Line numbers of inlined statements are those of the helper's source.
"""
import ast
import copy
import json
import os
import re

from . import ev
from .src import Unknown

_INV_PATH = os.path.join(os.path.dirname(os.path.abspath(__file__)), 'inventory.json')
_inv = None


def inventory():
    global _inv
    if _inv is None:
        with open(_INV_PATH, encoding='utf-8') as f:
            _inv = json.load(f)
    return _inv


def build_inventory(forest):
    inv = {}
    for m, tree in forest.trees.items():
        names = set()
        for st in tree.body:
            if isinstance(st, (ast.Assign, ast.AugAssign, ast.AnnAssign)):
                tg = st.targets if isinstance(st, ast.Assign) else [st.target]
                for t in tg:
                    for n in ast.walk(t):
                        if isinstance(n, ast.Name):
                            names.add(n.id)
            elif isinstance(st, (ast.Import, ast.ImportFrom)):
                for a in st.names:
                    names.add((a.asname or a.name).split('.')[0])
        values = {}
        for st in tree.body:
            if isinstance(st, ast.Assign) and len(st.targets) == 1 and isinstance(st.targets[0], ast.Name):
                values[st.targets[0].id] = _skeleton(st.value, ())[0]
        nested = {}
        for (mm, q, node) in forest.functions():
            par = getattr(node, '_parent', None)
            if mm == m and q.count('.') == 1 and isinstance(par, ast.FunctionDef) and isinstance(getattr(par, '_parent', None), ast.Module):
                nested[q] = [_skeleton(st, _fn_locals(node))[0] for st in _flat_statements(node)]
        class_skel = {st.name: [_skeleton(x, ())[0] for x in _flat_statements(st)] for st in tree.body if isinstance(st, ast.ClassDef)}
        inv[m] = {'locals': reference_names(forest).get(m, {}),
                  'params': {q: sorted(_params(node)) for (mm, q, node) in forest.functions() if mm == m},
                  'positional': {q: [a.arg for a in node.args.posonlyargs + node.args.args]
                                 for (mm, q, node) in forest.functions() if mm == m and isinstance(node, ast.FunctionDef)},
                  'signature': {q: [a.arg for a in node.args.posonlyargs + node.args.args] + [a.arg for a in node.args.kwonlyargs]
                                for (mm, q, node) in forest.functions() if mm == m and isinstance(node, ast.FunctionDef)},
                  'class_skel': class_skel,
                  'values': values,
                  'nested': nested,
                  'functions': sorted(q for (mm, q, node) in forest.functions() if mm == m),
                  'classes': sorted(st.name for st in ast.walk(tree) if isinstance(st, ast.ClassDef)),
                  'names': sorted(names)}
    return inv


# ---- helpers ---------------------------------------------------------------------------------------

_IMMUTABLE = (int, float, str, bytes, bool, type(None), range, frozenset, __import__('decimal').Decimal)


def _immutable(v, depth=0):
    if isinstance(v, _IMMUTABLE):
        return not isinstance(v, frozenset) or all(_immutable(x, depth + 1) for x in v)
    if isinstance(v, tuple) and depth < 6:
        return all(_immutable(x, depth + 1) for x in v)
    return False


def _docstring_free(body):
    if body and isinstance(body[0], ast.Expr) and isinstance(body[0].value, ast.Constant) and isinstance(body[0].value.value, str):
        return body[1:]
    return body


def _terminates(block):
    """Does every path through the block end in return / raise / continue / break?"""
    if not block:
        return False
    last = block[-1]
    if isinstance(last, (ast.Return, ast.Raise, ast.Continue, ast.Break)):
        return True
    if isinstance(last, ast.If):
        return _terminates(last.body) and _terminates(last.orelse)
    return False


def _stored_names(fn):
    out = set()
    for n in ast.walk(fn):
        if isinstance(n, ast.Name) and isinstance(n.ctx, (ast.Store, ast.Del)):
            out.add(n.id)
        elif isinstance(n, ast.arg):
            out.add(n.arg)
        elif isinstance(n, (ast.FunctionDef, ast.ClassDef)) and n is not fn:
            out.add(n.name)
        elif isinstance(n, (ast.Global, ast.Nonlocal)):
            out.update(n.names)
        elif isinstance(n, ast.ExceptHandler) and n.name:
            out.add(n.name)
        elif isinstance(n, (ast.Import, ast.ImportFrom)):
            for a in n.names:
                out.add((a.asname or a.name).split('.')[0])
    return out


def _all_names(fn):
    return {n.id for n in ast.walk(fn) if isinstance(n, ast.Name)} | {a.arg for a in ast.walk(fn) if isinstance(a, ast.arg)}


def _pure_expr(e):
    """No call, no yield, no walrus: evaluating it twice or not at all changes nothing a rule can see."""
    for n in ast.walk(e):
        if isinstance(n, (ast.Call, ast.Yield, ast.YieldFrom, ast.NamedExpr, ast.Await, ast.Lambda, ast.ListComp, ast.SetComp,
                          ast.DictComp, ast.GeneratorExp)):
            return False
    return True


class _Subst(ast.NodeTransformer):
    def __init__(self, mapping):
        self.mapping = mapping

    def visit_Name(self, node):
        if node.id in self.mapping:
            new = self.mapping[node.id]
            if isinstance(new, str):
                return ast.copy_location(ast.Name(id=new, ctx=node.ctx), node)
            if isinstance(node.ctx, ast.Load):
                return ast.copy_location(copy.deepcopy(new), node)
        return node

    def visit_arg(self, node):
        if node.arg in self.mapping and isinstance(self.mapping[node.arg], str):
            node.arg = self.mapping[node.arg]
        return node


# ---- helper shape ----------------------------------------------------------------------------------

class _Helper:
    def __init__(self, fn):
        self.fn = fn
        self.ok = self._check()

    def _check(self):
        fn = self.fn
        if not isinstance(fn, ast.FunctionDef) or fn.decorator_list:
            return False
        a = fn.args
        if a.vararg or a.kwarg or a.posonlyargs:
            return False
        body = _docstring_free(fn.body)
        if not body:
            return False
        for n in ast.walk(fn):
            if isinstance(n, (ast.Yield, ast.YieldFrom, ast.Global, ast.Nonlocal, ast.Await, ast.AsyncFunctionDef, ast.ClassDef)):
                return False
            if isinstance(n, (ast.FunctionDef, ast.Lambda)) and n is not fn:
                return False        # closures over helper locals: renaming would have to follow them
            if isinstance(n, ast.Call) and isinstance(n.func, ast.Name) and n.func.id == fn.name:
                return False        # recursion
            if isinstance(n, ast.Call) and isinstance(n.func, ast.Name) and n.func.id in ('locals', 'vars', 'globals', 'eval', 'exec'):
                return False
        return self._tail_returns(body, False)

    def _tail_returns(self, block, cont):
        """Every `return` sits where replacing it by "use the value and go on after the call" is exact: not inside a loop,
        try or with; and an `if` that contains a return and is followed by more code returns on every path of that branch."""
        for i, st in enumerate(block):
            c = cont or bool(block[i + 1:])
            if isinstance(st, ast.Return):
                return True
            has_ret = any(isinstance(n, ast.Return) for n in ast.walk(st))
            if not has_ret:
                continue
            if not isinstance(st, ast.If):
                return False
            for br in (st.body, st.orelse):
                if any(isinstance(n, ast.Return) for s_ in br for n in ast.walk(s_)):
                    if not self._tail_returns(br, c):
                        return False
                    if c and not _terminates(br):
                        return False
        return True


def _exits(block, k):
    """Rewrite `block` (helper body, parameters already substituted) so that each `return E` becomes k(E) and the statements
    after an `if` whose branch returned become the other branch."""
    out = []
    for i, st in enumerate(block):
        if isinstance(st, ast.Return):
            val = st.value if st.value is not None else ast.Constant(value=None)
            out.extend(k(val, st))
            return out, True
        if isinstance(st, ast.If) and any(isinstance(n, ast.Return) for n in ast.walk(st)):
            rest = block[i + 1:]
            body_t, orelse_t = _terminates(st.body), _terminates(st.orelse)
            if rest and body_t and not orelse_t:
                b, _ = _exits(st.body, k)
                o, _ = _exits(list(st.orelse) + rest, k)
            elif rest and orelse_t and not body_t:
                b, _ = _exits(list(st.body) + rest, k)
                o, _ = _exits(st.orelse, k)
            else:
                b, _ = _exits(st.body, k)
                o, _ = _exits(st.orelse, k)
                new = ast.copy_location(ast.If(test=st.test, body=b or [ast.Pass()], orelse=o), st)
                out.append(new)
                if rest and not (body_t and orelse_t):
                    r, _ = _exits(rest, k)
                    out.extend(r)
                return out, True
            new = ast.copy_location(ast.If(test=st.test, body=b or [ast.Pass()], orelse=o), st)
            out.append(new)
            return out, True
        out.append(st)
    return out, False


def _simplify(stmts):
    """Drop `x += 0`, empty else branches, `pass`-only ifs without effect."""
    out = []
    for st in stmts:
        if isinstance(st, ast.AugAssign) and isinstance(st.op, (ast.Add, ast.Sub)) and isinstance(st.value, ast.Constant) \
                and st.value.value == 0 and type(st.value.value) is int:
            continue
        if isinstance(st, ast.Expr) and isinstance(st.value, ast.Constant):
            continue
        if isinstance(st, ast.If):
            st.body = _simplify(st.body)
            st.orelse = _simplify(st.orelse)
            st.orelse = [s for s in st.orelse if not isinstance(s, ast.Pass)]
            if not st.body or all(isinstance(s, ast.Pass) for s in st.body):
                if not st.orelse:
                    if _pure_expr(st.test):
                        continue
                    st.body = [ast.Pass()]
                else:
                    st.test = ast.copy_location(ast.UnaryOp(op=ast.Not(), operand=st.test), st.test)
                    st.body, st.orelse = st.orelse, []
        out.append(st)
    return out


# ---- inlining --------------------------------------------------------------------------------------

class _Inliner:
    def __init__(self, helpers, caller):
        self.helpers = helpers          # name -> _Helper, visible from the caller
        self.caller = caller
        self.count = 0
        if isinstance(caller, ast.Module):
            # names of the module-level statements (function bodies have their own scopes)
            self.used = set()
            for st in caller.body:
                if isinstance(st, (ast.FunctionDef, ast.AsyncFunctionDef, ast.ClassDef)):
                    self.used.add(st.name)
                else:
                    self.used |= _all_names(st) | _stored_names(st)
        else:
            self.used = _all_names(caller) | _stored_names(caller)
        self.serial = 0

    def _fresh(self, base):
        name = base
        while name in self.used:
            self.serial += 1
            name = f'{base}__{self.serial}'
        self.used.add(name)
        return name

    def _bind(self, h, call):
        """(prefix statements, name mapping) or None."""
        fn = h.fn
        params = [a.arg for a in fn.args.args] + [a.arg for a in fn.args.kwonlyargs]
        pos = [a.arg for a in fn.args.args]
        if any(isinstance(a, ast.Starred) for a in call.args) or any(k.arg is None for k in call.keywords):
            return None
        if len(call.args) > len(pos):
            return None
        given = {}
        for p, a in zip(pos, call.args):
            given[p] = a
        for k in call.keywords:
            if k.arg not in params or k.arg in given:
                return None
            given[k.arg] = k.value
        defaults = dict(zip(pos[len(pos) - len(fn.args.defaults):], fn.args.defaults))
        for a, d in zip(fn.args.kwonlyargs, fn.args.kw_defaults):
            if d is not None:
                defaults[a.arg] = d
        for p in params:
            if p not in given:
                if p not in defaults or not _pure_expr(defaults[p]):
                    return None
                given[p] = defaults[p]
        stored = {n.id for n in ast.walk(fn) if isinstance(n, ast.Name) and isinstance(n.ctx, (ast.Store, ast.Del))}
        uses = {}
        for n in ast.walk(fn):
            if isinstance(n, ast.Name) and isinstance(n.ctx, ast.Load):
                uses[n.id] = uses.get(n.id, 0) + 1
        caller_stored = _stored_names(self.caller)
        mapping, prefix = {}, []
        for p in params:
            arg = given[p]
            simple = isinstance(arg, (ast.Name, ast.Constant)) or (isinstance(arg, ast.Attribute) and _pure_expr(arg))
            if p not in stored and (simple or (_pure_expr(arg) and uses.get(p, 0) <= 1)):
                mapping[p] = arg
            else:
                nm = self._fresh(p)
                mapping[p] = nm
                prefix.append(ast.copy_location(ast.Assign(targets=[ast.Name(id=nm, ctx=ast.Store())], value=copy.deepcopy(arg), lineno=call.lineno), call))
        # helper locals keep their name unless the caller already uses it
        for loc in sorted(stored - set(params)):
            mapping[loc] = loc if (loc not in self.used) else self._fresh(loc)
            self.used.add(mapping[loc])
        return prefix, mapping

    def inline_stmt(self, st):
        """Replacement statement list for `st` if it contains an inlinable helper call evaluated exactly once, else None."""
        site = self._find_site(st)
        if site is None:
            return None
        call, h, direct = site
        bound = self._bind(h, call)
        if bound is None:
            return None
        prefix, mapping = bound
        tname = None
        if direct and isinstance(st, ast.Assign) and len(st.targets) == 1 and isinstance(st.targets[0], ast.Name):
            # `T = helper(..)` where every return is `return <the same helper local>`: let that local be T itself
            rets = [n for s_ in _docstring_free(h.fn.body) for n in ast.walk(s_) if isinstance(n, ast.Return)]
            param_names = {a.arg for a in h.fn.args.args + h.fn.args.kwonlyargs}
            locs = {r.value.id if isinstance(r.value, ast.Name) else None for r in rets}
            t = st.targets[0].id
            if rets and len(locs) == 1 and None not in locs and next(iter(locs)) not in param_names:
                loc = next(iter(locs))
                in_args = any(isinstance(n, ast.Name) and n.id == t for a in list(call.args) + [kw.value for kw in call.keywords] for n in ast.walk(a))
                in_helper = t != loc and any(isinstance(n, ast.Name) and n.id == t for n in ast.walk(h.fn))
                if not in_args and not in_helper and isinstance(mapping.get(loc), str):
                    mapping[loc] = t
                    tname = t
        body = copy.deepcopy(_docstring_free(h.fn.body))
        body = [_Subst(mapping).visit(s) for s in body]
        if direct:
            def k(val, ret):
                if tname is not None and isinstance(val, ast.Name) and val.id == tname:
                    return []
                new = copy.deepcopy(st)
                if isinstance(new, ast.Expr) and isinstance(val, ast.Constant):
                    return []
                new.value = val
                return [ast.copy_location(new, ret)]
            new_body, returned = _exits(body, k)
            if not returned:
                new_body.extend(k(ast.Constant(value=None), st))
        elif isinstance(body[-1], ast.Return) and body[-1].value is not None and \
                sum(isinstance(n, ast.Return) for s_ in body for n in ast.walk(s_)) == 1:
            # a single final `return E`: the call is replaced by E itself
            st2 = copy.deepcopy(st)
            target = self._find_site(st2)
            _replace_node(st2, target[0], ast.copy_location(body[-1].value, call))
            new_body = body[:-1] + [st2]
        else:
            tmp = self._fresh('__ret_' + h.fn.name.strip('_'))

            def k(val, ret):
                return [ast.copy_location(ast.Assign(targets=[ast.Name(id=tmp, ctx=ast.Store())], value=val, lineno=ret.lineno), ret)]
            new_body, returned = _exits(body, k)
            if not returned:
                new_body.extend(k(ast.Constant(value=None), st))
            st2 = copy.deepcopy(st)
            # replace the call node (found again by position) in the copy
            target = self._find_site(st2)
            _replace_node(st2, target[0], ast.copy_location(ast.Name(id=tmp, ctx=ast.Load()), call))
            new_body.append(st2)
        self.count += 1
        return _simplify(prefix + new_body)

    def _find_site(self, st):
        """First helper call in `st` that is evaluated exactly once when `st` runs: (call, helper, is-the-whole-value)."""
        if isinstance(st, (ast.Assign, ast.AugAssign, ast.Return, ast.Expr, ast.AnnAssign)) and isinstance(getattr(st, 'value', None), ast.Call):
            c = st.value
            if isinstance(c.func, ast.Name) and c.func.id in self.helpers and self.helpers[c.func.id].ok:
                # arguments themselves must not contain sites that would be reordered; fine for analysis
                return c, self.helpers[c.func.id], True
        if isinstance(st, (ast.Assign, ast.AugAssign, ast.Return, ast.Expr, ast.AnnAssign, ast.Raise, ast.Assert)):
            roots = [getattr(st, f) for f in ('value', 'exc', 'test') if getattr(st, f, None) is not None]
        elif isinstance(st, (ast.If,)):
            roots = [st.test]
        elif isinstance(st, ast.For):
            roots = [st.iter]
        elif isinstance(st, ast.With):
            roots = [i.context_expr for i in st.items]
        else:
            return None
        for r in roots:
            found = self._once(r)
            if found is not None:
                return found[0], found[1], False
        return None

    def _once(self, node):
        """Depth-first, left-to-right search restricted to positions evaluated exactly once."""
        if isinstance(node, ast.Call) and isinstance(node.func, ast.Name) and node.func.id in self.helpers and self.helpers[node.func.id].ok:
            return node, self.helpers[node.func.id]
        if isinstance(node, (ast.Lambda, ast.ListComp, ast.SetComp, ast.DictComp, ast.GeneratorExp)):
            return None
        if isinstance(node, ast.BoolOp):
            return self._once(node.values[0])
        if isinstance(node, ast.IfExp):
            return self._once(node.test)
        if isinstance(node, ast.Compare) and len(node.ops) > 1:
            return self._once(node.left) or self._once(node.comparators[0])
        for ch in ast.iter_child_nodes(node):
            if isinstance(ch, ast.expr) or isinstance(ch, ast.keyword):
                f = self._once(ch.value if isinstance(ch, ast.keyword) else ch)
                if f is not None:
                    return f
        return None

    def inline_expr_sites(self, fn):
        """Expression helpers (if/return trees without statements) can also be inlined anywhere, as conditional expressions."""
        inl = self

        class T(ast.NodeTransformer):
            def visit_Call(self, node):
                self.generic_visit(node)
                if isinstance(node.func, ast.Name) and node.func.id in inl.helpers:
                    h = inl.helpers[node.func.id]
                    if h.ok:
                        e = _as_expr(_docstring_free(h.fn.body))
                        if e is not None:
                            bound = inl._bind_pure(h, node)
                            if bound is not None:
                                inl.count += 1
                                return ast.copy_location(_Subst(bound).visit(copy.deepcopy(e)), node)
                return node

            def visit_FunctionDef(self, node):
                if node is fn:
                    self.generic_visit(node)
                return node
        T().visit(fn)

    def _bind_pure(self, h, call):
        """Mapping param -> argument expression when substitution is exact: pure arguments (or single use)."""
        fn = h.fn
        pos = [a.arg for a in fn.args.args]
        params = pos + [a.arg for a in fn.args.kwonlyargs]
        if any(isinstance(a, ast.Starred) for a in call.args) or any(k.arg is None for k in call.keywords) or len(call.args) > len(pos):
            return None
        given = dict(zip(pos, call.args))
        for k in call.keywords:
            if k.arg not in params or k.arg in given:
                return None
            given[k.arg] = k.value
        defaults = dict(zip(pos[len(pos) - len(fn.args.defaults):], fn.args.defaults))
        for a, d in zip(fn.args.kwonlyargs, fn.args.kw_defaults):
            if d is not None:
                defaults[a.arg] = d
        uses = {}
        for n in ast.walk(fn):
            if isinstance(n, ast.Name) and isinstance(n.ctx, ast.Load):
                uses[n.id] = uses.get(n.id, 0) + 1
        out = {}
        for p in params:
            if p not in given:
                if p not in defaults or not _pure_expr(defaults[p]):
                    return None
                given[p] = defaults[p]
            if not _pure_expr(given[p]) and uses.get(p, 0) != 1:
                return None
            out[p] = given[p]
        return out


def _as_expr(block):
    """The helper body as one expression, if it is an if/return tree."""
    if not block:
        return None
    st = block[0]
    if isinstance(st, ast.Return) and st.value is not None:
        return st.value
    if isinstance(st, ast.If):
        rest = block[1:]
        if _terminates(st.body) and not st.orelse:
            a, b = _as_expr(st.body), _as_expr(rest)
        elif st.orelse and not rest:
            a, b = _as_expr(st.body), _as_expr(st.orelse)
        else:
            return None
        if a is None or b is None:
            return None
        return ast.copy_location(ast.IfExp(test=st.test, body=a, orelse=b), st)
    return None


def _replace_node(root, old, new):
    for parent in ast.walk(root):
        for fld, val in ast.iter_fields(parent):
            if val is old:
                setattr(parent, fld, new)
                return True
            if isinstance(val, list):
                for i, x in enumerate(val):
                    if x is old:
                        val[i] = new
                        return True
    return False


def _inline_in_function(fn, helpers, depth=0):
    """Inline helper calls inside `fn` (statement lists are rewritten in place).  Returns the number of inlined calls."""
    visible = dict(helpers)
    # nested new helpers are visible inside fn
    inl = _Inliner(visible, fn)

    def rewrite(block):
        i = 0
        guard = 0
        while i < len(block):
            st = block[i]
            if isinstance(st, (ast.FunctionDef, ast.AsyncFunctionDef, ast.ClassDef)):
                i += 1
                continue
            rep = inl.inline_stmt(st)
            if rep is not None and guard < 200:
                block[i:i + 1] = rep or [ast.copy_location(ast.Pass(), st)]
                guard += 1
                continue        # look at the replacement again (helpers calling helpers)
            for fld in ('body', 'orelse', 'finalbody'):
                sub = getattr(st, fld, None)
                if isinstance(sub, list) and sub and isinstance(sub[0], ast.stmt):
                    rewrite(sub)
            if isinstance(st, ast.Try):
                for h in st.handlers:
                    rewrite(h.body)
            i += 1
    rewrite(fn.body)
    return inl.count


def _fold_constants(fn, consts):
    """Replace loads of new module-level constants (name -> defining expression) that `fn` does not shadow."""
    if not consts:
        return 0
    shadow = _stored_names(fn)
    todo = {k: v for k, v in consts.items() if k not in shadow}
    if not todo:
        return 0
    cnt = [0]

    class T(ast.NodeTransformer):
        def visit_Name(self, node):
            if isinstance(node.ctx, ast.Load) and node.id in todo:
                cnt[0] += 1
                return ast.copy_location(copy.deepcopy(todo[node.id]), node)
            return node
    for _ in range(4):
        before = cnt[0]
        T().visit(fn)
        if cnt[0] == before:
            break
    return cnt[0]


def _new_constants(forest, mod, tree, inv):
    """{name: defining expression} of module-level names that are not in the reference inventory, are assigned exactly
    once, are never written by a function, and evaluate to an immutable value."""
    known = set(inv.get('names', ())) | set(inv.get('functions', ())) | set(inv.get('classes', ()))
    cand, count = {}, {}
    for st in tree.body:
        if isinstance(st, ast.Assign):
            for t in st.targets:
                for n in ast.walk(t):
                    if isinstance(n, ast.Name):
                        count[n.id] = count.get(n.id, 0) + 1
            if len(st.targets) == 1 and isinstance(st.targets[0], ast.Name):
                cand[st.targets[0].id] = st.value
        elif isinstance(st, (ast.AugAssign, ast.AnnAssign, ast.Delete)):
            for n in ast.walk(st):
                if isinstance(n, ast.Name) and isinstance(n.ctx, (ast.Store, ast.Del)):
                    count[n.id] = count.get(n.id, 0) + 2
    written = set()
    for n in ast.walk(tree):
        if isinstance(n, ast.Global):
            written.update(n.names)
    out = {}
    try:
        ns = ev.module_consts(forest, mod)
    except Unknown:
        return out
    for name, expr in cand.items():
        if name in known or count.get(name) != 1 or name in written or name.startswith('__'):
            continue
        try:
            if not ns.has(name):
                continue
            v = ns.get(name)
        except Unknown:
            continue
        if _immutable(v):
            lit = _literal(v)
            # a small value is folded as the value it has; a computed table stays a module constant under its name (putting
            # its defining expression at every use would evaluate the whole table again at each of them)
            if lit is not None:
                out[name] = lit
            elif _cheap(expr):
                out[name] = expr
    return out


def _literal(v, depth=0):
    if v is None or isinstance(v, (bool, int, float)):
        return ast.Constant(value=v)
    if isinstance(v, (str, bytes)):
        return ast.Constant(value=v) if len(v) <= 64 else None
    if isinstance(v, tuple) and type(v) is tuple and len(v) <= 16 and depth < 2:
        elts = [_literal(x, depth + 1) for x in v]
        return ast.Tuple(elts=elts, ctx=ast.Load()) if all(e is not None for e in elts) else None
    return None


def _cheap(expr):
    """A defining expression that may be repeated at every use: names, attributes, constants and arithmetic on them only."""
    return all(isinstance(n, (ast.Name, ast.Attribute, ast.Constant, ast.BinOp, ast.UnaryOp, ast.operator, ast.unaryop, ast.Load, ast.Tuple, ast.Subscript))
               for n in ast.walk(expr)) and sum(1 for _ in ast.walk(expr)) <= 40


# ---- private module-level names restored from the reference tree ---------------------------------------------
# Renaming a private (underscore) module-level function or constant consistently is invisible to every caller of the
# public interface.  A private name of the reference tree that no longer exists is matched with a new module-level name
# whose definition looks most like the reference definition, and the new name is renamed back *everywhere* (which is
# behaviour-preserving whatever the match was: the reference name is free, the new name is renamed at every occurrence).

def _blank(text, names):
    if not names:
        return text
    return re.sub(r'N\((%s)\)' % '|'.join(sorted(map(re.escape, names), key=len, reverse=True)), 'N(_)', text)


def _identifiers(tree):
    out = set()
    for n in ast.walk(tree):
        if isinstance(n, ast.Name):
            out.add(n.id)
        elif isinstance(n, ast.arg):
            out.add(n.arg)
        elif isinstance(n, (ast.FunctionDef, ast.AsyncFunctionDef, ast.ClassDef)):
            out.add(n.name)
        elif isinstance(n, ast.alias):
            out.add((n.asname or n.name).split('.')[0])
        elif isinstance(n, (ast.Global, ast.Nonlocal)):
            out.update(n.names)
        elif isinstance(n, ast.ExceptHandler) and n.name:
            out.add(n.name)
    return out


def _private_renames(tree, minv):
    """{new name: reference name} for private module-level functions / constants of the reference tree that are gone."""
    import difflib
    ref_fns = {q for q in minv.get('functions', ()) if '.' not in q}
    ref_names = set(minv.get('names', ()))
    ref_values = minv.get('values', {})
    ref_locals = minv.get('locals', {})
    cur_fns = {st.name: st for st in tree.body if isinstance(st, (ast.FunctionDef, ast.AsyncFunctionDef))}
    cur_vals = {}
    assigned = set()
    for st in tree.body:
        if isinstance(st, ast.Assign):
            for t in st.targets:
                assigned |= {n.id for n in ast.walk(t) if isinstance(n, ast.Name)}
            if len(st.targets) == 1 and isinstance(st.targets[0], ast.Name):
                cur_vals[st.targets[0].id] = st.value
        elif isinstance(st, (ast.AugAssign, ast.AnnAssign)):
            assigned |= {n.id for n in ast.walk(st.target) if isinstance(n, ast.Name)}
        elif isinstance(st, (ast.Import, ast.ImportFrom)):
            assigned |= {(a.asname or a.name).split('.')[0] for a in st.names}
    classes = {st.name for st in tree.body if isinstance(st, ast.ClassDef)}
    defined = set(cur_fns) | assigned | classes
    miss_f = sorted(q for q in ref_fns if q.startswith('_') and not q.startswith('__') and q not in defined and q in ref_locals)
    miss_c = sorted(n for n in ref_names if n.startswith('_') and not n.startswith('__') and n not in defined and n in ref_values)
    ref_cls = minv.get('class_skel', {})
    cur_cls = {st.name: st for st in tree.body if isinstance(st, ast.ClassDef)}
    miss_k = sorted(n for n in ref_cls if n.startswith('_') and not n.startswith('__') and n not in defined)
    if not miss_f and not miss_c and not miss_k:
        return {}
    new_f = sorted(n for n in cur_fns if n not in ref_fns and n not in ref_names)
    new_c = sorted(n for n in cur_vals if n not in ref_names and n not in ref_fns)
    used = _identifiers(tree)
    new_k = sorted(n for n in cur_cls if n not in ref_cls and n not in ref_names and n not in ref_fns)
    volatile = set(miss_f) | set(miss_c) | set(new_f) | set(new_c) | set(miss_k) | set(new_k)
    pairs = []
    for m in miss_k:
        if m in used:
            continue
        a = [_blank(x, volatile) for x in ref_cls[m]]
        for n in new_k:
            b = [_blank(_skeleton(x, ())[0], volatile) for x in _flat_statements(cur_cls[n])]
            pairs.append((_sim(a, b), m, n))
    for m in miss_f:
        if m in used:
            continue            # the reference name now denotes something else
        a = [_blank(x[0], volatile | set(minv.get('params', {}).get(m, ()))) for x in ref_locals[m]]
        for n in new_f:
            fn = cur_fns[n]
            b = [_blank(_skeleton(st, _fn_locals(fn) | _params(fn))[0], volatile) for st in _flat_statements(fn)]
            r = difflib.SequenceMatcher(a=a, b=b, autojunk=False).ratio()
            if not a and not b:
                r = 1.0
            pairs.append((r, m, n))
    for m in miss_c:
        if m in used:
            continue
        a = _blank(ref_values[m], volatile)
        for n in new_c:
            b = _blank(_skeleton(cur_vals[n], ())[0], volatile)
            r = 1.0 if a == b else difflib.SequenceMatcher(a=a, b=b, autojunk=False).ratio() * 0.99
            pairs.append((r, m, n))
    mapping, taken = {}, set()
    only_f = len(miss_f) == 1 and len(new_f) == 1
    only_c = len(miss_c) == 1 and len(new_c) == 1
    for r, m, n in sorted(pairs, key=lambda t: (-t[0], t[1], t[2])):
        lone = (only_f and m in miss_f) or (only_c and m in miss_c) or (len(miss_k) == 1 and len(new_k) == 1 and m in miss_k)
        if r < (0.2 if lone else 0.4) or m in taken or n in mapping:
            continue
        mapping[n] = m
        taken.add(m)
    # a new name that is also a parameter name somewhere cannot be renamed without touching keyword arguments
    args = {x.arg for x in ast.walk(tree) if isinstance(x, ast.arg)} | {k.arg for k in ast.walk(tree) if isinstance(k, ast.keyword) and k.arg}
    return {n: m for n, m in mapping.items() if n not in args and m not in args}


def _apply_renames(tree, mapping):
    for n in ast.walk(tree):
        if isinstance(n, ast.Name) and n.id in mapping:
            n.id = mapping[n.id]
        elif isinstance(n, (ast.FunctionDef, ast.AsyncFunctionDef, ast.ClassDef)) and n.name in mapping:
            n.name = mapping[n.name]
        elif isinstance(n, (ast.Global, ast.Nonlocal)):
            n.names = [mapping.get(x, x) for x in n.names]
        elif isinstance(n, ast.ExceptHandler) and n.name in mapping:
            n.name = mapping[n.name]


def _apply_renames_importer(tree, mod, mapping):
    """In another module: ``from .mod import new`` -> ``from .mod import ref as new``; ``mod.new`` -> ``mod.ref``."""
    changed = False
    aliases = set()
    for st in ast.walk(tree):
        if isinstance(st, ast.ImportFrom):
            target = (st.module or '').split('.')[-1]
            for a in st.names:
                if target == mod and a.name in mapping:
                    a.asname = a.asname or a.name
                    a.name = mapping[a.name]
                    changed = True
                elif a.name == mod and (st.module in (None, 'segno') or st.level):
                    aliases.add(a.asname or a.name)
        elif isinstance(st, ast.Import):
            for a in st.names:
                if a.name.split('.')[-1] == mod and a.asname:
                    aliases.add(a.asname)
    for n in ast.walk(tree):
        if isinstance(n, ast.Attribute) and n.attr in mapping and isinstance(n.value, ast.Name) and n.value.id in aliases:
            n.attr = mapping[n.attr]
            changed = True
    return changed


def _params(fn):
    out = set()
    for n in ast.walk(fn):
        if isinstance(n, (ast.FunctionDef, ast.AsyncFunctionDef, ast.Lambda)):
            a = n.args
            out |= {x.arg for x in a.posonlyargs + a.args + a.kwonlyargs}
            if a.vararg:
                out.add(a.vararg.arg)
            if a.kwarg:
                out.add(a.kwarg.arg)
    return out


def _own_scope(fn):
    """Names that are local to `fn` itself (parameters, assigned names, nested definitions), nested scopes not entered."""
    a = fn.args
    out = {x.arg for x in a.posonlyargs + a.args + a.kwonlyargs}
    if a.vararg:
        out.add(a.vararg.arg)
    if a.kwarg:
        out.add(a.kwarg.arg)
    stack = list(fn.body)
    while stack:
        n = stack.pop()
        if isinstance(n, (ast.FunctionDef, ast.AsyncFunctionDef, ast.ClassDef)):
            out.add(n.name)
            continue
        if isinstance(n, ast.Lambda):
            continue
        if isinstance(n, ast.Name) and isinstance(n.ctx, (ast.Store, ast.Del)):
            out.add(n.id)
        elif isinstance(n, ast.ExceptHandler) and n.name:
            out.add(n.name)
        elif isinstance(n, ast.alias):
            out.add((n.asname or n.name).split('.')[0])
        stack.extend(ast.iter_child_nodes(n))
    return out


def _maybe_free(fn):
    """Over-approximation of the names `fn` takes from outside (every name mentioned, defaults and decorators included,
    minus the function's own parameters and assigned names)."""
    mentioned = {n.id for n in ast.walk(fn) if isinstance(n, ast.Name)}
    for n in ast.walk(fn):
        if isinstance(n, (ast.Global, ast.Nonlocal)):
            mentioned |= set(n.names)
    own = _own_scope(fn)
    outside = set()
    for d in fn.args.defaults + [x for x in fn.args.kw_defaults if x is not None] + fn.decorator_list:
        outside |= {n.id for n in ast.walk(d) if isinstance(n, ast.Name)}
    return (mentioned - own) | outside | {x for n in ast.walk(fn) if isinstance(n, ast.Nonlocal) for x in n.names}


def _sim(a, b):
    import difflib
    if not a and not b:
        return 1.0
    return difflib.SequenceMatcher(a=a, b=b, autojunk=False).ratio()


def _renest(tree, minv):
    """Nested functions of the reference tree that were moved to module level are copied back into their function (the
    module-level definition stays for its other users).  Module-level private functions of the reference tree that were moved
    into their only user are copied back out.  Both are exact when the moved function takes no name from the function
    it is moved into / out of, which is checked.  Returns a description of what was done."""
    done = {}
    ref_fns = set(minv.get('functions', ()))
    ref_nested = minv.get('nested', {})
    ref_locals = minv.get('locals', {})
    top = {st.name: st for st in tree.body if isinstance(st, ast.FunctionDef)}
    new_top = {k: v for k, v in top.items() if k not in ref_fns and k not in minv.get('names', ())}
    volatile = set(new_top) | {q.split('.')[1] for q in ref_nested}

    def nested_defs(fn):
        return {n.name: n for n in ast.walk(fn) if isinstance(n, ast.FunctionDef) and n is not fn}

    # (a) module level -> back into the function
    pairs = []
    for q, ref in ref_nested.items():
        outer_name, inner = q.split('.')
        outer = top.get(outer_name)
        if outer is None or inner in nested_defs(outer) or inner in _identifiers(outer):
            continue
        loaded = {n.id for n in ast.walk(outer) if isinstance(n, ast.Name)}
        scope = _own_scope(outer)
        a = [_blank(x, volatile | set(minv.get('params', {}).get(q, ()))) for x in ref]
        cands = []
        for name, fn in new_top.items():
            if name not in loaded or name in scope:
                continue
            if _maybe_free(fn) & (scope | {inner}):
                continue
            b = [_blank(_skeleton(st, _fn_locals(fn) | _params(fn))[0], volatile) for st in _flat_statements(fn)]
            cands.append((_sim(a, b), name))
        for r, name in cands:
            pairs.append((r, q, name, len(cands)))
    taken_q, taken_n = set(), set()
    for r, q, name, ncand in sorted(pairs, key=lambda t: (-t[0], t[1], t[2])):
        if q in taken_q or (q.split('.')[0], name) in taken_n or r < (0.2 if ncand == 1 else 0.4):
            continue
        taken_q.add(q)
        taken_n.add((q.split('.')[0], name))
        outer_name, inner = q.split('.')
        outer = top[outer_name]
        cp = copy.deepcopy(new_top[name])
        cp.name = inner
        cp.decorator_list = list(cp.decorator_list)
        _apply_renames(cp, {name: inner})
        _apply_renames(outer, {name: inner})
        pos = 1 if (outer.body and isinstance(outer.body[0], ast.Expr) and isinstance(getattr(outer.body[0], 'value', None), ast.Constant)
                    and isinstance(outer.body[0].value.value, str)) else 0
        outer.body.insert(pos, cp)
        done[f'{name} -> {q}'] = round(r, 2)
    # (b) from inside a function -> back to module level
    miss = sorted(m for m in ref_fns if '.' not in m and m.startswith('_') and not m.startswith('__') and m not in top and m in ref_locals)
    if miss:
        used = _identifiers(tree)
        pairs = []
        for m in miss:
            if m in used:
                continue
            a = [_blank(x[0], volatile | set(miss) | set(minv.get('params', {}).get(m, ()))) for x in ref_locals[m]]
            for oname, outer in top.items():
                scope = _own_scope(outer)
                for st in outer.body:
                    if not isinstance(st, ast.FunctionDef) or f'{oname}.{st.name}' in ref_fns:
                        continue
                    if _maybe_free(st) & (scope - {st.name}):
                        continue
                    b = [_blank(_skeleton(x, _fn_locals(st) | _params(st))[0], volatile | set(miss)) for x in _flat_statements(st)]
                    pairs.append((_sim(a, b), m, oname, st))
        taken_m, taken_s = set(), set()
        for r, m, oname, st in sorted(pairs, key=lambda t: (-t[0], t[1], t[2])):
            if m in taken_m or id(st) in taken_s or r < 0.4:
                continue
            taken_m.add(m)
            taken_s.add(id(st))
            outer = top[oname]
            old = st.name
            outer.body.remove(st)
            if not outer.body:
                outer.body.append(ast.Pass())
            st.name = m
            _apply_renames(st, {old: m})
            _apply_renames(outer, {old: m})
            tree.body.insert(tree.body.index(outer), st)
            done[f'{oname}.{old} -> {m}'] = round(r, 2)
    return done


def _import_bindings(tree):
    """{local name: description of what an import statement binds it to} for the module-level imports."""
    out = {}
    for st in tree.body:
        if isinstance(st, ast.ImportFrom):
            for a in st.names:
                out[a.asname or a.name] = ('from', st.level, st.module, a.name)
        elif isinstance(st, ast.Import):
            for a in st.names:
                out[(a.asname or a.name).split('.')[0]] = ('import', a.name, a.asname)
    return out


def _cross_module_moves(forest, inv):
    """Private module-level functions / constants of the reference tree that were moved to another module of the package (and are
    used from their old module through an import): a copy under the reference name is put back into the old module and the old
    module's uses are pointed at it.  Exact when every name the definition takes from its surroundings means the same thing in
    both modules (a builtin, or bound by the same import statement in both), which is checked.  Returns {module: {description}}."""
    import builtins as _b
    done = {}
    trees = {m: None for m in forest.trees}

    def tree_of(m):
        if trees[m] is None:
            trees[m] = _strip_parents(forest.trees[m])
        return trees[m]
    for a_mod in list(forest.trees):
        minv = inv.get(a_mod, {})
        a_tree0 = forest.trees[a_mod]
        defined = {st.name for st in a_tree0.body if isinstance(st, (ast.FunctionDef, ast.ClassDef))}
        for st in a_tree0.body:
            if isinstance(st, ast.Assign):
                defined |= {n.id for t in st.targets for n in ast.walk(t) if isinstance(n, ast.Name)}
        ref_fns = [q for q in minv.get('functions', ()) if '.' not in q and q.startswith('_') and not q.startswith('__') and q not in defined and q in minv.get('locals', {})]
        ref_cs = [n for n in minv.get('names', ()) if n.startswith('_') and not n.startswith('__') and n not in defined and n in minv.get('values', {})]
        if not ref_fns and not ref_cs:
            continue
        a_imports = _import_bindings(a_tree0)
        for b_mod in list(forest.trees):
            if b_mod == a_mod:
                continue
            binv = inv.get(b_mod, {})
            b_tree0 = forest.trees[b_mod]
            b_imports = _import_bindings(b_tree0)
            b_known = set(binv.get('functions', ())) | set(binv.get('names', ())) | set(binv.get('classes', ()))
            b_defined = {st.name for st in b_tree0.body if isinstance(st, (ast.FunctionDef, ast.ClassDef))} | \
                {t.id for st in b_tree0.body if isinstance(st, ast.Assign) for t in st.targets if isinstance(t, ast.Name)}
            b_new_f = {st.name: st for st in b_tree0.body if isinstance(st, ast.FunctionDef) and st.name not in b_known}
            b_new_c = {st.targets[0].id: st for st in b_tree0.body if isinstance(st, ast.Assign) and len(st.targets) == 1
                       and isinstance(st.targets[0], ast.Name) and st.targets[0].id not in b_known}
            if not b_new_f and not b_new_c:
                continue
            # how module A refers to names of module B
            used_direct = {k: v[3] for k, v in a_imports.items() if v[0] == 'from' and (v[2] or '').split('.')[-1] == b_mod}     # local -> name in B
            b_aliases = {k for k, v in a_imports.items() if (v[0] == 'from' and v[3] == b_mod and v[2] in (None, 'segno')) or (v[0] == 'import' and v[1].split('.')[-1] == b_mod and v[2])}
            used_attr = {n.attr for n in ast.walk(a_tree0) if isinstance(n, ast.Attribute) and isinstance(n.value, ast.Name) and n.value.id in b_aliases}
            reachable = set(used_direct.values()) | used_attr
            volatile = set(ref_fns) | set(ref_cs) | set(b_new_f) | set(b_new_c)
            pairs = []

            def admissible(m, n):
                # a reference name that module A still binds by an import can only be the definition that import names
                ai = a_imports.get(m)
                if ai is None:
                    return True
                return ai[0] == 'from' and (ai[2] or '').split('.')[-1] == b_mod and ai[3] == n
            for m in ref_fns:
                a = [_blank(x[0], volatile | set(minv.get('params', {}).get(m, ()))) for x in minv['locals'][m]]
                for n, fn in b_new_f.items():
                    if n not in reachable or not admissible(m, n):
                        continue
                    b = [_blank(_skeleton(st, _fn_locals(fn) | _params(fn))[0], volatile) for st in _flat_statements(fn)]
                    pairs.append(((1.0 if n == m else _sim(a, b)) + (0.3 if n == m else 0), m, n, 'f'))     # the copy is exact whatever it is called; similarity only chooses the name
            for m in ref_cs:
                a = _blank(minv['values'][m], volatile)
                for n, st in b_new_c.items():
                    if n not in reachable or not admissible(m, n):
                        continue
                    b = _blank(_skeleton(st.value, ())[0], volatile)
                    import difflib
                    r = 1.0 if a == b else difflib.SequenceMatcher(a=a, b=b, autojunk=False).ratio() * 0.99
                    pairs.append((r + (0.3 if n == m else 0), m, n, 'c'))
            taken_m, taken_n = set(), set()
            for r, m, n, kind in sorted(pairs, key=lambda t: (-t[0], t[1], t[2])):
                if r < 0.4 or m in taken_m or n in taken_n:
                    continue
                node = b_new_f[n] if kind == 'f' else b_new_c[n]

                def free_of(nd):
                    return _maybe_free(nd) if isinstance(nd, ast.FunctionDef) else {x.id for x in ast.walk(nd.value) if isinstance(x, ast.Name)}
                # the definition and the new private definitions of module B it rests on (copied along), transitively
                deps, todo, same, extra_imports, qualify = {}, [(n, node)], True, {}, set()
                a_defined = {st.name for st in a_tree0.body if isinstance(st, (ast.FunctionDef, ast.ClassDef))} | \
                    {t.id for st in a_tree0.body if isinstance(st, ast.Assign) for t in st.targets if isinstance(t, ast.Name)}
                seen_names = {n}
                while todo and same:
                    cur_name, cur = todo.pop()
                    for name in free_of(cur):
                        if name == cur_name or name in seen_names or hasattr(_b, name):
                            continue
                        if name in a_imports and name in b_imports and a_imports[name] == b_imports[name]:
                            continue
                        ai = a_imports.get(name)
                        if ai is not None and ai[0] == 'from' and (ai[2] or '').split('.')[-1] == b_mod and ai[3] == name and name in b_defined:
                            continue
                        if name in b_defined and name not in b_new_f and name not in b_new_c and b_aliases and name not in a_defined and name not in a_imports \
                                and cur is node and not (isinstance(cur, ast.FunctionDef) and name in (_fn_locals(cur) | _params(cur))):
                            qualify.add(name)               # a name of module B itself: reached through module A's alias of B in the copy
                            continue
                        bi = b_imports.get(name)
                        if bi is not None and ((bi[0] == 'from' and bi[1] == 0) or (bi[0] == 'import' and not bi[1].startswith('segno'))) and name not in a_imports and name not in a_defined:
                            extra_imports[name] = bi        # a standard-library import of module B that module A does not have: copied along
                            continue
                        dep = b_new_f.get(name) or b_new_c.get(name)
                        if dep is not None and name not in a_defined and len(deps) < 8:
                            deps[name] = dep
                            seen_names.add(name)
                            todo.append((name, dep))
                            continue
                        same = False
                        break
                if not same:
                    continue
                taken_m.add(m)
                taken_n.add(n)
                at = tree_of(a_mod)
                cp = copy.deepcopy(node)
                for x in ast.walk(cp):
                    if hasattr(x, '_parent'):
                        del x._parent
                if qualify:
                    alias = sorted(b_aliases)[0]

                    class _Q(ast.NodeTransformer):
                        def visit_Name(self, x):
                            if x.id in qualify and isinstance(x.ctx, ast.Load):
                                return ast.copy_location(ast.Attribute(value=ast.Name(id=alias, ctx=ast.Load()), attr=x.id, ctx=ast.Load()), x)
                            return x
                    cp = _Q().visit(cp)
                if kind == 'f':
                    cp.name = m
                    _apply_renames(cp, {n: m})
                else:
                    cp.targets[0].id = m
                # uses in A: the imported local name(s) and attribute accesses
                local_names = [k for k, v in used_direct.items() if v == n]
                for x in ast.walk(at):
                    if isinstance(x, ast.Name) and x.id in local_names:
                        x.id = m
                for parent in ast.walk(at):
                    for fld, val in ast.iter_fields(parent):
                        if isinstance(val, ast.Attribute) and val.attr == n and isinstance(val.value, ast.Name) and val.value.id in b_aliases:
                            setattr(parent, fld, ast.copy_location(ast.Name(id=m, ctx=val.ctx), val))
                        elif isinstance(val, list):
                            for i, v in enumerate(val):
                                if isinstance(v, ast.Attribute) and v.attr == n and isinstance(v.value, ast.Name) and v.value.id in b_aliases:
                                    val[i] = ast.copy_location(ast.Name(id=m, ctx=v.ctx), v)
                # drop the import of the moved name (its local name is now the copy)
                for stx in at.body:
                    if isinstance(stx, ast.ImportFrom):
                        stx.names = [al for al in stx.names if not ((al.asname or al.name) in local_names)] or stx.names
                pos = next((i for i, stx in enumerate(at.body) if isinstance(stx, (ast.FunctionDef, ast.ClassDef))), len(at.body))
                already = any(getattr(stx, 'name', None) == m or (isinstance(stx, ast.Assign) and any(isinstance(t, ast.Name) and t.id == m for t in stx.targets))
                              for stx in at.body)
                if not already:     # (it may have come along as a dependency of a definition restored before)
                    at.body.insert(pos, cp)
                for dn, dnode in deps.items():
                    if any(getattr(stx, 'name', None) == dn or (isinstance(stx, ast.Assign) and any(isinstance(t, ast.Name) and t.id == dn for t in stx.targets)) for stx in at.body):
                        continue
                    dcp = copy.deepcopy(dnode)
                    for x in ast.walk(dcp):
                        if hasattr(x, '_parent'):
                            del x._parent
                    at.body.insert(pos, dcp)
                for local, bi in extra_imports.items():
                    if bi[0] == 'from':
                        imp = ast.ImportFrom(module=bi[2], names=[ast.alias(name=bi[3], asname=None if local == bi[3] else local)], level=0)
                    else:
                        imp = ast.Import(names=[ast.alias(name=bi[1], asname=bi[2])])
                    at.body.insert(pos, imp)
                    a_imports[local] = bi
                done.setdefault(a_mod, {})[f'{b_mod}.{n} -> {a_mod}.{m}'] = round(min(r, 1.0), 2)
    out_forest = forest
    for m, t in trees.items():
        if t is not None and m in done:
            ast.fix_missing_locations(t)
            out_forest = out_forest.with_tree(m, t)
    return out_forest, done


def _strip_parents(tree):
    t2 = copy.deepcopy(tree)
    for n in ast.walk(t2):
        if hasattr(n, '_parent'):
            del n._parent
    return t2


def apply(forest):
    """The forest with new helpers inlined and new constants folded (same object if nothing is new)."""
    if getattr(forest, '_canon', False):
        return forest
    inv = inventory()
    info = {'inlined': 0, 'folded': 0, 'helpers': [], 'constants': [], 'renamed': {}}
    # step -1: private module-level names as in the reference tree
    for mod in list(forest.trees):
        mp = _private_renames(forest.trees[mod], inv.get(mod, {}))
        if not mp:
            continue
        info['renamed'][f'{mod}.<module>'] = mp
        t2 = _strip_parents(forest.trees[mod])
        _apply_renames(t2, mp)
        forest = forest.with_tree(mod, t2)
        for other in list(forest.trees):
            if other == mod:
                continue
            t3 = _strip_parents(forest.trees[other])
            if _apply_renames_importer(t3, mod, mp):
                forest = forest.with_tree(other, t3)
    # step -0.75: private functions / constants moved to another module of the package
    forest, moved = _cross_module_moves(forest, inv)
    for m, d in moved.items():
        info['renamed'][f'{m}.<from other module>'] = d
    # step -0.5: functions moved between module level and a function body
    for mod in list(forest.trees):
        minv = inv.get(mod, {})
        cur_q = {q for (m, q, node) in forest.functions() if m == mod}
        gone = [q for q in minv.get('nested', {}) if q not in cur_q] + \
               [q for q in minv.get('functions', ()) if '.' not in q and q.startswith('_') and not q.startswith('__') and q not in cur_q]
        if not gone:
            continue
        t2 = _strip_parents(forest.trees[mod])
        done = _renest(t2, minv)
        if done:
            info['renamed'][f'{mod}.<moved>'] = done
            ast.fix_missing_locations(t2)
            forest = forest.with_tree(mod, t2)
    # step 0: local names as in the reference tree
    for mod in list(forest.trees):
        refs = inv.get(mod, {}).get('locals', {})
        if not refs:
            continue
        t2 = None
        for (m, q, node) in list(forest.functions()):
            if m != mod or q not in refs or isinstance(getattr(node, '_parent', None), (ast.FunctionDef, ast.AsyncFunctionDef)):
                continue
            loc = _fn_locals(node)
            cur_sk = [_skeleton(st, loc) for st in _flat_statements(node)]
            ref = refs[q]
            if [c[1] for c in cur_sk] == [r[1] for r in ref] and [c[0] for c in cur_sk] == [r[0] for r in ref]:
                continue        # unchanged
            if t2 is None:
                t2 = copy.deepcopy(forest.trees[mod])
                for n in ast.walk(t2):
                    if hasattr(n, '_parent'):
                        del n._parent
                idx = {}

                def visit(node_, prefix):
                    for ch in ast.iter_child_nodes(node_):
                        if isinstance(ch, (ast.FunctionDef, ast.AsyncFunctionDef, ast.ClassDef)):
                            idx.setdefault(prefix + ch.name, ch)
                            visit(ch, prefix + ch.name + '.')
                        else:
                            visit(ch, prefix)
                visit(t2, '')
            mp = restore_names(idx[q], ref)
            if mp:
                info['renamed'][f'{mod}.{q}'] = mp
        if t2 is not None and any(k.startswith(mod + '.') for k in info['renamed']):
            forest = forest.with_tree(mod, t2)
    cur = forest
    for mod in list(forest.trees):
        minv = inv.get(mod, {})
        tree = forest.trees[mod]
        known_fns = set(minv.get('functions', ()))
        new_top = [st for st in tree.body if isinstance(st, ast.FunctionDef) and st.name not in known_fns]
        consts = _new_constants(forest, mod, tree, minv)
        new_nested = [(q, node) for (m, q, node) in forest.functions() if m == mod and '.' in q and q not in known_fns
                      and isinstance(getattr(node, '_parent', None), ast.FunctionDef)]
        if not new_top and not consts and not new_nested:
            continue
        t2 = copy.deepcopy(tree)
        for n in ast.walk(t2):          # parent links would drag the whole module into every subtree copy
            if hasattr(n, '_parent'):
                del n._parent
        top = {st.name: _Helper(st) for st in t2.body if isinstance(st, ast.FunctionDef) and st.name not in known_fns}
        # constants first (inside helpers too), then helpers into helpers, then helpers into everything else
        fns = [n for n in ast.walk(t2) if isinstance(n, ast.FunctionDef)]
        for fn in fns:
            info['folded'] += _fold_constants(fn, consts)
        for _ in range(3):
            for h in top.values():
                _inline_in_function(h.fn, {k: v for k, v in top.items() if v is not h})
        for h in top.values():
            h.ok = h._check()

        for fn in fns:
            if fn.name in top and top[fn.name].fn is fn:
                continue
            helpers = dict(top)
            # nested new helpers of this function
            for st in fn.body:
                if isinstance(st, ast.FunctionDef):
                    q = _qualname(t2, st)
                    if q not in known_fns:
                        helpers[st.name] = _Helper(st)
            info['inlined'] += _inline_in_function(fn, helpers)
            inl = _Inliner(helpers, fn)
            inl.inline_expr_sites(fn)
            info['inlined'] += inl.count
        # module-level statements (dispatch tables filled in loops) call helpers, too
        info['inlined'] += _inline_in_function(t2, top)
        info['helpers'] += [f'{mod}.{k}' for k, v in top.items() if v.ok]
        info['constants'] += [f'{mod}.{k}' for k in consts]
        ast.fix_missing_locations(t2)
        cur = cur.with_tree(mod, t2)
    cur._canon = True
    cur.canon_info = info
    return cur


def _qualname(tree, fn):
    def find(node, prefix):
        for ch in ast.iter_child_nodes(node):
            if ch is fn:
                return prefix + fn.name
            if isinstance(ch, (ast.FunctionDef, ast.AsyncFunctionDef, ast.ClassDef)):
                r = find(ch, prefix + ch.name + '.')
            else:
                r = find(ch, prefix)
            if r:
                return r
        return None
    return find(tree, '')


# ---- local names restored from the reference tree --------------------------------------------------------
# A rule that was confirmed on the reference tree may name a local variable of the function it is anchored in.  Renaming a
# local changes nothing a caller can observe.  Where a statement of the current function is, up to the names of locals, the
# statement the reference function had at the corresponding place, the reference names are put back before the rules run.

def _fn_locals(fn):
    """Names bound by assignment / loops / with / except in `fn` itself or in functions nested in it, minus parameters."""
    params = set()
    for n in ast.walk(fn):
        if isinstance(n, (ast.FunctionDef, ast.Lambda)):
            a = n.args
            params |= {x.arg for x in a.posonlyargs + a.args + a.kwonlyargs}
            if a.vararg:
                params.add(a.vararg.arg)
            if a.kwarg:
                params.add(a.kwarg.arg)
    out = set()
    for n in ast.walk(fn):
        if isinstance(n, ast.Name) and isinstance(n.ctx, (ast.Store, ast.Del)):
            out.add(n.id)
        elif isinstance(n, ast.ExceptHandler) and n.name:
            out.add(n.name)
    inner = {n.name for n in ast.walk(fn) if isinstance(n, ast.ClassDef)}
    out |= {n.name for n in ast.walk(fn) if isinstance(n, (ast.FunctionDef, ast.AsyncFunctionDef)) and n is not fn}
    return out - params - inner


def _flat_statements(fn):
    """The statements of `fn` in source order, compound statements represented by their header only (nested function
    bodies included: they share the enclosing function's locals as free variables)."""
    out = []

    def walk(block):
        for st in block:
            out.append(st)
            for fld in ('body', 'orelse', 'finalbody'):
                sub = getattr(st, fld, None)
                if isinstance(sub, list) and sub and isinstance(sub[0], ast.stmt):
                    walk(sub)
            if isinstance(st, ast.Try):
                for h in st.handlers:
                    walk(h.body)
    walk(fn.body)
    return out


_BODY_FIELDS = ('body', 'orelse', 'finalbody', 'handlers')
_COMPOUND = (ast.If, ast.For, ast.While, ast.With, ast.Try, ast.FunctionDef, ast.ClassDef, ast.AsyncFunctionDef, ast.AsyncFor, ast.AsyncWith)


def _skeleton(st, local_names):
    """(shape of the statement header with local names blanked, the local names in order of occurrence).  Bodies of compound
    statements are left out (their statements have skeletons of their own)."""
    names = []
    out = []

    def dump(node, top):
        if isinstance(node, ast.Name):
            if node.id in local_names:
                names.append(node.id)
                out.append('N(_)')
            else:
                out.append(f'N({node.id})')
            return
        if isinstance(node, ast.AST):
            out.append(type(node).__name__)
            out.append('(')
            for fld, val in ast.iter_fields(node):
                if fld in ('ctx', 'type_comment', 'kind', 'lineno', 'col_offset', 'end_lineno', 'end_col_offset'):
                    continue
                if top and isinstance(node, _COMPOUND) and fld in _BODY_FIELDS:
                    continue
                out.append(fld + '=')
                if fld == 'name' and isinstance(node, (ast.FunctionDef, ast.AsyncFunctionDef)) and val in local_names:
                    names.append(val)           # a nested function's name is a local of the enclosing function
                    out.append('N(_)')
                else:
                    dump(val, False)
                out.append(',')
            out.append(')')
        elif isinstance(node, list):
            out.append('[')
            for x in node:
                dump(x, False)
                out.append(',')
            out.append(']')
        else:
            out.append(repr(node))
    dump(st, True)
    return ''.join(out), names


def reference_names(forest):
    """{module: {qualified top-level function or method: [(skeleton, names)]}} for the inventory."""
    out = {}
    for m, q, node in forest.functions():
        p = getattr(node, '_parent', None)
        if isinstance(p, (ast.FunctionDef, ast.AsyncFunctionDef)):
            continue        # nested functions are part of their outermost function
        loc = _fn_locals(node)
        out.setdefault(m, {})[q] = [list(_skeleton(st, loc)) for st in _flat_statements(node)]
    return out


def restore_names(fn, ref):
    """Rename locals of `fn` (in place) to the reference names where statements correspond.  Returns the mapping used."""
    import difflib
    loc = _fn_locals(fn)
    cur = [_skeleton(st, loc) for st in _flat_statements(fn)]
    a = [c[0] for c in cur]
    b = [r[0] for r in ref]
    votes = {}
    sm = difflib.SequenceMatcher(a=a, b=b, autojunk=False)
    for blk in sm.get_matching_blocks():
        for k in range(blk.size):
            new_names, ref_names = cur[blk.a + k][1], ref[blk.b + k][1]
            if len(new_names) != len(ref_names):
                continue
            for x, y in zip(new_names, ref_names):
                votes.setdefault(x, {}).setdefault(y, 0)
                votes[x][y] += 1
    mapping = {}
    for x, cand in votes.items():
        y, n = max(cand.items(), key=lambda kv: kv[1])
        if x != y and n * 2 > sum(cand.values()):        # a clear majority of the corresponding statements agree
            mapping[x] = y
    # injective, and no capture: the reference name must not denote something else in the current function
    all_names = {n.id for n in ast.walk(fn) if isinstance(n, ast.Name)} | {x.arg for x in ast.walk(fn) if isinstance(x, ast.arg)}
    # a reference name that is in use may only be taken if its present holder is itself renamed away - by a renaming that
    # survives this very check: iterate to a fixed point
    all_names |= {n.name for n in ast.walk(fn) if isinstance(n, (ast.FunctionDef, ast.AsyncFunctionDef, ast.ClassDef)) and n is not fn}
    while True:
        taken = {}
        for x, y in sorted(mapping.items(), key=lambda kv: -max(votes[kv[0]].values())):
            if y in taken:
                continue
            if y in all_names and y not in mapping:     # y is in use and is not itself renamed away
                continue
            taken[y] = x
        new_mapping = {x: y for y, x in taken.items()}
        if new_mapping == mapping:
            break
        mapping = new_mapping
    if not mapping:
        return {}
    for n in ast.walk(fn):
        if isinstance(n, ast.Name) and n.id in mapping:
            n.id = mapping[n.id]
        elif isinstance(n, ast.ExceptHandler) and n.name in mapping:
            n.name = mapping[n.name]
        elif isinstance(n, (ast.FunctionDef, ast.AsyncFunctionDef)) and n is not fn and n.name in mapping:
            n.name = mapping[n.name]
        elif isinstance(n, ast.Nonlocal):
            n.names = [mapping.get(x, x) for x in n.names]
    return mapping
