"""nf -- normal forms for expressions: affine forms, commutative-normalised dumps, guards."""
import ast

from .ev import ev, Sym
from .src import Unknown


def _const_value(node, env):
    """Value of `node` if it folds to an int constant in env (names in env only), else None."""
    try:
        v = ev(node, env or {})
    except Unknown:
        return None
    if isinstance(v, bool) or not isinstance(v, int):
        return None
    return v


def affine(node, env=None):
    """{term text: coefficient} with '' as the constant term, for +, -, unary -, * by constants.

    Anything else becomes an opaque term named by its unparsed text, so
    ``len(chunk) * 3 + 1`` and ``1 + 3 * len(chunk)`` have the same form."""
    out = {}

    def add(d, k, c):
        d[k] = d.get(k, 0) + c
        if d[k] == 0 and k != '':
            del d[k]

    def rec(n, scale, acc):
        cv = _const_value(n, env) if not isinstance(n, ast.Name) or (env and n.id in env) else None
        if cv is not None:
            add(acc, '', scale * cv)
            return
        if isinstance(n, ast.BinOp) and isinstance(n.op, ast.Add):
            rec(n.left, scale, acc)
            rec(n.right, scale, acc)
        elif isinstance(n, ast.BinOp) and isinstance(n.op, ast.Sub):
            rec(n.left, scale, acc)
            rec(n.right, -scale, acc)
        elif isinstance(n, ast.UnaryOp) and isinstance(n.op, ast.USub):
            rec(n.operand, -scale, acc)
        elif isinstance(n, ast.UnaryOp) and isinstance(n.op, ast.UAdd):
            rec(n.operand, scale, acc)
        elif isinstance(n, ast.BinOp) and isinstance(n.op, ast.Mult):
            lc, rc = _const_value(n.left, env), _const_value(n.right, env)
            if lc is not None:
                rec(n.right, scale * lc, acc)
            elif rc is not None:
                rec(n.left, scale * rc, acc)
            else:
                add(acc, norm(n), scale)
        elif isinstance(n, ast.BinOp) and isinstance(n.op, ast.LShift) and _const_value(n.right, env) is not None:
            rec(n.left, scale * (1 << _const_value(n.right, env)), acc)
        else:
            add(acc, norm(n), scale)
    rec(node, 1, out)
    out.setdefault('', 0)
    return out


def affine_eq(node, want, env=None):
    """`want` is {term: coef} without zero entries; '' optional."""
    got = affine(node, env)
    w = dict(want)
    w.setdefault('', 0)
    return got == w


def fmt_affine(d):
    parts = []
    for k in sorted(d):
        if k == '':
            continue
        c = d[k]
        parts.append((f'{c}*' if c != 1 else '') + k)
    if d.get('', 0) or not parts:
        parts.append(str(d.get('', 0)))
    return ' + '.join(parts)


_COMM = (ast.Add, ast.Mult, ast.BitOr, ast.BitAnd, ast.BitXor)
_ORIENT = {ast.Lt: ast.Gt, ast.Gt: ast.Lt, ast.LtE: ast.GtE, ast.GtE: ast.LtE, ast.Eq: ast.Eq, ast.NotEq: ast.NotEq}
_SYM = {ast.Lt: '<', ast.Gt: '>', ast.LtE: '<=', ast.GtE: '>=', ast.Eq: '==', ast.NotEq: '!=', ast.Is: 'is', ast.IsNot: 'is not',
        ast.In: 'in', ast.NotIn: 'not in'}


def same(node, text):
    """Is `node` the expression `text`, up to commutativity, comparison orientation and redundant parentheses?"""
    return norm(node) == norm(ast.parse(text, mode='eval').body)


def same_any(node, texts):
    return any(same(node, t) for t in texts)


def guard_is(guards, text):
    """Is the conjunction of `guards` (from guards_of) the condition `text` (an `and` of tests, `not (...)` for negatives)?"""
    want = ast.parse(text, mode='eval').body
    wl = want.values if isinstance(want, ast.BoolOp) and isinstance(want.op, ast.And) else [want]
    got = sorted(norm(t) if pol else f'(not {norm(t)})' for t, pol in guards)
    # flatten conjunctions inside single guards
    flat = []
    for t, pol in guards:
        if pol and isinstance(t, ast.BoolOp) and isinstance(t.op, ast.And):
            flat += [norm(v) for v in t.values]
        else:
            flat.append(norm(t) if pol else f'(not {norm(t)})')
    return sorted(flat) == sorted(norm(w) for w in wl)


class _BoolItem:
    def __init__(self, node):
        self.node = node


def _cmp_norm(a, op, b):
    # orientation-insensitive: constants to the right, otherwise the textually smaller operand first
    ta, tb = norm(a), norm(b)
    op = type(op)
    ca, cb = isinstance(a, ast.Constant), isinstance(b, ast.Constant)
    if (ca and not cb) or (ca == cb and ta > tb):
        ta, tb, op = tb, ta, _ORIENT[op]
    return f'({ta} {_SYM[op]} {tb})'


def _bool_norm(kind, values):
    """Conjunction / disjunction as a sorted set: nested ones of the same kind flattened, comparison chains split into their
    links, membership in a literal turned into equalities, and (in a conjunction) equalities merged into classes, so that
    `a == b == c` is `a == b and b == c` is `c == a and b == a`."""
    items, eqs, consts = [], [], set()

    def add(v):
        if isinstance(v, _BoolItem):
            v = v.node
        if isinstance(v, ast.BoolOp) and type(v.op) is kind:
            for x in v.values:
                add(x)
        elif kind is ast.And and isinstance(v, ast.Compare) and len(v.ops) > 1 and all(type(o) in _ORIENT for o in v.ops):
            left = v.left
            for o, c in zip(v.ops, v.comparators):
                add(ast.Compare(left=left, ops=[o], comparators=[c]))
                left = c
        elif isinstance(v, ast.Compare) and len(v.ops) == 1 and isinstance(v.ops[0], ast.In if kind is ast.Or else ast.NotIn) \
                and isinstance(v.comparators[0], (ast.Tuple, ast.List, ast.Set)) and v.comparators[0].elts \
                and not any(isinstance(e, ast.Starred) for e in v.comparators[0].elts):
            for e in v.comparators[0].elts:
                add(ast.Compare(left=v.left, ops=[ast.Eq() if kind is ast.Or else ast.NotEq()], comparators=[e]))
        elif kind is ast.And and isinstance(v, ast.Compare) and len(v.ops) == 1 and isinstance(v.ops[0], ast.Eq):
            eqs.append((norm(v.left), norm(v.comparators[0])))
            for side in (v.left, v.comparators[0]):
                if isinstance(side, ast.Constant):
                    consts.add(norm(side))
        else:
            items.append(norm(v))
    for v in values:
        add(v)
    if eqs:
        parent = {}

        def find(x):
            parent.setdefault(x, x)
            while parent[x] != x:
                parent[x] = parent[parent[x]]
                x = parent[x]
            return x
        for a, b in eqs:
            parent[find(a)] = find(b)
        classes = {}
        for x in list(parent):
            classes.setdefault(find(x), set()).add(x)
        for members in classes.values():
            ms = sorted(members)
            if len(ms) == 2:
                # keep the plain comparison form (constants right) so single equalities look as before
                a, b = ms
                items.append(f'({b} == {a})' if (a in consts and b not in consts) else f'({a} == {b})')
            else:
                items.append('(' + ' == '.join(ms) + ')')
    items = sorted(set(items))
    if len(items) == 1:
        return items[0]
    return '(' + (' and ' if kind is ast.And else ' or ').join(items) + ')'


def norm(node):
    """Canonical text: commutative operands sorted, redundant parentheses gone (via unparse)."""
    if isinstance(node, ast.NamedExpr):
        return norm(node.target)        # `(x := E)` is compared as the name it binds
    if isinstance(node, ast.BinOp) and isinstance(node.op, _COMM):
        items = []

        def flat(n):
            if isinstance(n, ast.BinOp) and type(n.op) is type(node.op):
                flat(n.left)
                flat(n.right)
            else:
                items.append(norm(n))
        flat(node)
        sym = {ast.Add: '+', ast.Mult: '*', ast.BitOr: '|', ast.BitAnd: '&', ast.BitXor: '^'}[type(node.op)]
        return '(' + sym.join(sorted(items)) + ')'
    if isinstance(node, ast.BinOp):
        sym = {ast.Sub: '-', ast.FloorDiv: '//', ast.Mod: '%', ast.LShift: '<<', ast.RShift: '>>',
               ast.Div: '/', ast.Pow: '**'}.get(type(node.op), '?')
        return f'({norm(node.left)}{sym}{norm(node.right)})'
    if isinstance(node, ast.Constant):
        return repr(node.value)
    if isinstance(node, ast.Compare) and len(node.ops) == 1 and isinstance(node.ops[0], (ast.In, ast.NotIn)) \
            and isinstance(node.comparators[0], (ast.Tuple, ast.List, ast.Set)) and node.comparators[0].elts \
            and not any(isinstance(e, ast.Starred) for e in node.comparators[0].elts):
        # membership in a literal collection = a disjunction of equalities
        pos = isinstance(node.ops[0], ast.In)
        items = [_BoolItem(ast.Compare(left=node.left, ops=[ast.Eq() if pos else ast.NotEq()], comparators=[e])) for e in node.comparators[0].elts]
        return _bool_norm(ast.Or if pos else ast.And, items)
    if isinstance(node, ast.Compare) and len(node.ops) == 1 and type(node.ops[0]) in _ORIENT:
        return _cmp_norm(node.left, node.ops[0], node.comparators[0])
    if isinstance(node, ast.Compare) and all(type(o) in _ORIENT for o in node.ops):
        # a chain is the conjunction of its links
        return _bool_norm(ast.And, [node])
    if isinstance(node, ast.Compare):
        parts = [norm(node.left)]
        for o, c in zip(node.ops, node.comparators):
            parts.append(_SYM.get(type(o), type(o).__name__))
            parts.append(norm(c))
        return '(' + ' '.join(parts) + ')'
    if isinstance(node, ast.UnaryOp) and isinstance(node.op, ast.Not):
        return f'(not {norm(node.operand)})'
    if isinstance(node, ast.IfExp):
        return f'({norm(node.body)} if {norm(node.test)} else {norm(node.orelse)})'
    if isinstance(node, (ast.Tuple, ast.List)):
        inner = ', '.join(norm(e) for e in node.elts)
        return ('(' + inner + (',' if len(node.elts) == 1 else '') + ')') if isinstance(node, ast.Tuple) else '[' + inner + ']'
    if isinstance(node, ast.BoolOp) and isinstance(node.op, (ast.And, ast.Or)):
        return _bool_norm(type(node.op), node.values)
    if isinstance(node, ast.Call) and isinstance(node.func, ast.Name) and node.func.id == 'len' and len(node.args) == 1 and not node.keywords \
            and isinstance(node.args[0], ast.Call) and isinstance(node.args[0].func, ast.Name) and node.args[0].func.id == 'range' \
            and len(node.args[0].args) == 1 and not node.args[0].keywords:
        return norm(node.args[0].args[0])       # len(range(n)) is n for the non-negative counts this code base passes
    if isinstance(node, ast.Call):
        return f'{norm(node.func)}({",".join([norm(a) for a in node.args] + sorted(f"{k.arg}={norm(k.value)}" for k in node.keywords))})'
    if isinstance(node, ast.Subscript) and not isinstance(node.slice, ast.Slice):
        return f'{norm(node.value)}[{norm(node.slice)}]'
    if isinstance(node, ast.Subscript):
        sl = node.slice
        parts = [norm(x) if x is not None else '' for x in (sl.lower, sl.upper)] + ([norm(sl.step)] if sl.step is not None else [])
        return f'{norm(node.value)}[{":".join(parts)}]'
    if isinstance(node, ast.Attribute):
        return f'{norm(node.value)}.{node.attr}'
    if isinstance(node, ast.Starred):
        return f'*{norm(node.value)}'
    if isinstance(node, ast.GeneratorExp) or isinstance(node, ast.ListComp) or isinstance(node, ast.SetComp):
        gens = ' '.join(f'for {norm(g.target)} in {norm(g.iter)}' + ''.join(f' if {norm(c)}' for c in g.ifs) for g in node.generators)
        br = {ast.GeneratorExp: '()', ast.ListComp: '[]', ast.SetComp: '{}'}[type(node)]
        return f'{br[0]}{norm(node.elt)} {gens}{br[1]}'
    return ast.unparse(node)


# -- structured dominance -------------------------------------------------------------------

def block_of(stmt):
    """(list, index) of the statement list that directly contains `stmt`."""
    p = getattr(stmt, '_parent', None)
    if p is None:
        raise Unknown('statement without parent')
    for fld in ('body', 'orelse', 'finalbody'):
        lst = getattr(p, fld, None)
        if isinstance(lst, list) and stmt in lst:
            return lst, lst.index(stmt)
    if isinstance(p, ast.Try):
        for h in p.handlers:
            if stmt in h.body:
                return h.body, h.body.index(stmt)
    if isinstance(p, ast.ExceptHandler) and stmt in p.body:
        return p.body, p.body.index(stmt)
    raise Unknown('statement not found in parent block')


def enclosing_stmt(node):
    n = node
    while n is not None and not isinstance(n, ast.stmt):
        n = getattr(n, '_parent', None)
    if n is None:
        raise Unknown('no enclosing statement')
    return n


def must_execute(stmt, pred):
    """Does executing `stmt` to normal completion always execute a statement/expression satisfying pred?"""
    if pred(stmt):
        return True
    if isinstance(stmt, ast.If):
        return bool(stmt.orelse) and any(must_execute(s, pred) for s in stmt.body) \
            and any(must_execute(s, pred) for s in stmt.orelse)
    if isinstance(stmt, (ast.With,)):
        return any(must_execute(s, pred) for s in stmt.body)
    if isinstance(stmt, ast.Try):
        # the try body may be cut short by an exception; only finalbody is certain
        return any(must_execute(s, pred) for s in stmt.finalbody)
    return False


def dominators(target, fn, pred):
    """Statements satisfying `pred` (or must-executing one) that dominate `target` inside `fn`:
    walk outwards from target; at each enclosing block, every earlier sibling statement is executed
    before control reaches target (structured code; early exits only remove paths)."""
    found = []
    st = enclosing_stmt(target)
    while st is not fn and st is not None:
        lst, idx = block_of(st)
        for s in lst[:idx]:
            if must_execute(s, pred):
                found.append(s)
        st = getattr(st, '_parent', None)
        while st is not None and not isinstance(st, ast.stmt):
            st = getattr(st, '_parent', None)
    return found


def guards_of(node, fn):
    """Conjunction of branch conditions under which `node` executes: list of (test expr, polarity)."""
    out = []
    child = node
    p = getattr(node, '_parent', None)
    while p is not None and p is not fn:
        if isinstance(p, ast.If):
            if child in p.body:
                out.append((p.test, True))
            elif child in p.orelse:
                out.append((p.test, False))
        elif isinstance(p, ast.IfExp):
            if child is p.body:
                out.append((p.test, True))
            elif child is p.orelse:
                out.append((p.test, False))
        elif isinstance(p, ast.While):
            if child in p.body:
                out.append((p.test, True))
        child = p
        p = getattr(p, '_parent', None)
    out.reverse()
    return out


def guard_text(guards):
    return ' and '.join((ast.unparse(t) if pol else f'not ({ast.unparse(t)})') for t, pol in guards) or 'True'


# -- inlining of single-assignment locals -------------------------------------------------------

def single_defs(fn):
    """{local name: value expr} for names assigned exactly once in fn (plain `name = expr`, not in a loop target, not
    augmented, not a parameter) -- the names that can be replaced by their definition without changing meaning
    as long as the definition's own operands are not reassigned in between (checked by the caller where it matters)."""
    count, val = {}, {}
    params = {a.arg for a in fn.args.posonlyargs + fn.args.args + fn.args.kwonlyargs}
    for n in ast.walk(fn):
        if isinstance(n, ast.Assign):
            for t in n.targets:
                for nm in ast.walk(t):
                    if isinstance(nm, ast.Name):
                        count[nm.id] = count.get(nm.id, 0) + 1
            if len(n.targets) == 1 and isinstance(n.targets[0], ast.Name):
                val[n.targets[0].id] = n.value
        elif isinstance(n, (ast.AugAssign, ast.AnnAssign)):
            for nm in ast.walk(n.target):
                if isinstance(nm, ast.Name):
                    count[nm.id] = count.get(nm.id, 0) + 2
        elif isinstance(n, (ast.For, ast.comprehension)):
            for nm in ast.walk(n.target):
                if isinstance(nm, ast.Name):
                    count[nm.id] = count.get(nm.id, 0) + 2
        elif isinstance(n, ast.With):
            for it in n.items:
                if it.optional_vars is not None:
                    for nm in ast.walk(it.optional_vars):
                        if isinstance(nm, ast.Name):
                            count[nm.id] = count.get(nm.id, 0) + 2
    return {k: v for k, v in val.items() if count.get(k) == 1 and k not in params}


def clone(node):
    """Deep copy of an AST subtree that does not follow the parent links (copy.deepcopy would copy the whole module)."""
    if isinstance(node, list):
        return [clone(x) for x in node]
    if not isinstance(node, ast.AST):
        return node
    new = type(node)()
    for fld, val in ast.iter_fields(node):
        setattr(new, fld, clone(val))
    for a in ('lineno', 'col_offset', 'end_lineno', 'end_col_offset'):
        if hasattr(node, a):
            setattr(new, a, getattr(node, a))
    return new


class _Inline(ast.NodeTransformer):
    def __init__(self, defs, depth=0):
        self.defs, self.depth = defs, depth

    def visit_Name(self, node):
        if isinstance(node.ctx, ast.Load) and node.id in self.defs and self.depth < 8:
            sub = clone(self.defs[node.id])
            return _Inline({k: v for k, v in self.defs.items() if k != node.id}, self.depth + 1).visit(sub)
        return node


def inline(fn, expr):
    """`expr` with the single-assignment locals of `fn` replaced by their definitions (recursively)."""
    return _Inline(single_defs(fn)).visit(clone(expr))


def same_inlined(fn, expr, text):
    """Does `expr`, after inlining fn's single-assignment locals, equal `text` (written in terms of parameters/globals)?"""
    return norm(inline(fn, expr)) == norm(ast.parse(text, mode='eval').body)


def unpack_targets(fn, call_pattern_pred):
    """Names bound by `a, b, c = <call>` where pred(call) holds: list of target names (or None)."""
    for n in ast.walk(fn):
        if isinstance(n, ast.Assign) and len(n.targets) == 1 and isinstance(n.targets[0], (ast.Tuple, ast.List)) \
                and isinstance(n.value, ast.Call) and call_pattern_pred(n.value):
            return [t.id if isinstance(t, ast.Name) else None for t in n.targets[0].elts]
    return None


# -- propositional comparison of conditions -------------------------------------------------------------

_COMPL = {ast.NotEq: ast.Eq, ast.IsNot: ast.Is, ast.NotIn: ast.In}


def prop(node):
    """Condition as a propositional formula over atoms (normalised texts): ('atom', t) | ('not', f) | ('and', [f..]) |
    ('or', [f..]) | ('const', bool).  Comparison chains are conjunctions of their links, membership in a literal collection is
    a disjunction of equalities, `!=`, `>=`, `>`, `is not`, `not in` are the negations of `==`, `<`, `<=`, `is`, `in`
    (the operands compared in this code base are ints, strings and None)."""
    if isinstance(node, ast.NamedExpr):
        return prop(node.target)
    if isinstance(node, ast.BoolOp):
        return ('and' if isinstance(node.op, ast.And) else 'or', [prop(v) for v in node.values])
    if isinstance(node, ast.UnaryOp) and isinstance(node.op, ast.Not):
        return ('not', prop(node.operand))
    if isinstance(node, ast.Constant) and isinstance(node.value, (bool, type(None))):
        return ('const', bool(node.value))
    if isinstance(node, ast.Compare):
        if len(node.ops) > 1:
            links, left = [], node.left
            for o, c in zip(node.ops, node.comparators):
                links.append(prop(ast.Compare(left=left, ops=[o], comparators=[c])))
                left = c
            return ('and', links)
        op, a, b = node.ops[0], node.left, node.comparators[0]
        if isinstance(op, (ast.In, ast.NotIn)) and isinstance(b, (ast.Tuple, ast.List, ast.Set)) and b.elts \
                and not any(isinstance(e, ast.Starred) for e in b.elts):
            f = ('or', [prop(ast.Compare(left=a, ops=[ast.Eq()], comparators=[e])) for e in b.elts])
            return f if isinstance(op, ast.In) else ('not', f)
        if type(op) in _COMPL:
            return ('not', prop(ast.Compare(left=a, ops=[_COMPL[type(op)]()], comparators=[b])))
        if isinstance(op, (ast.Lt, ast.LtE, ast.Gt, ast.GtE)):
            # all four orderings of a pair of operands are expressed with the two atoms (X < Y), (X <= Y) for one fixed
            # order X, Y of the pair (non-constant first, then textual)
            ta, tb = norm(a), norm(b)
            swapped = (isinstance(a, ast.Constant) and not isinstance(b, ast.Constant)) or \
                (isinstance(a, ast.Constant) == isinstance(b, ast.Constant) and ta > tb)
            x, y = (tb, ta) if swapped else (ta, tb)
            kind = type(op)
            if swapped:
                kind = {ast.Lt: ast.Gt, ast.LtE: ast.GtE, ast.Gt: ast.Lt, ast.GtE: ast.LtE}[kind]
            if kind is ast.Lt:
                return ('atom', f'({x} < {y})')
            if kind is ast.LtE:
                return ('atom', f'({x} <= {y})')
            if kind is ast.Gt:
                return ('not', ('atom', f'({x} <= {y})'))
            return ('not', ('atom', f'({x} < {y})'))
        return ('atom', norm(node))
    return ('atom', norm(node))


def _atoms(f, acc):
    if f[0] == 'atom':
        acc.add(f[1])
    elif f[0] == 'not':
        _atoms(f[1], acc)
    elif f[0] in ('and', 'or'):
        for x in f[1]:
            _atoms(x, acc)
    return acc


def _evalf(f, asg):
    if f[0] == 'atom':
        return asg[f[1]]
    if f[0] == 'const':
        return f[1]
    if f[0] == 'not':
        return not _evalf(f[1], asg)
    if f[0] == 'and':
        return all(_evalf(x, asg) for x in f[1])
    return any(_evalf(x, asg) for x in f[1])


def equiv(f, g, limit=14):
    """Are two formulas (from prop / path) equal as functions of their atoms?  Unknown beyond `limit` atoms."""
    atoms = sorted(_atoms(f, set()) | _atoms(g, set()))
    if len(atoms) > limit:
        raise Unknown(f'condition with {len(atoms)} atoms is beyond the truth-table limit')
    for k in range(1 << len(atoms)):
        asg = {a: bool(k >> i & 1) for i, a in enumerate(atoms)}
        if _evalf(f, asg) != _evalf(g, asg):
            return False
    return True


def same_cond(node, text):
    """Is the condition `node` propositionally the condition `text`?"""
    want = ast.parse(text, mode='eval').body
    if norm(node) == norm(want):
        return True
    return equiv(prop(node), prop(want))


def _always_exits(block):
    if not block:
        return False
    last = block[-1]
    if isinstance(last, (ast.Return, ast.Raise, ast.Continue, ast.Break)):
        return True
    if isinstance(last, ast.If):
        return _always_exits(last.body) and bool(last.orelse) and _always_exits(last.orelse)
    return False


def path(node, stop, inline_in=None):
    """The condition under which `node` is reached from the start of `stop` (a function, loop or other enclosing node), as
    a formula: enclosing if/elif tests with their polarity, and the negation of every earlier sibling `if` whose branch
    always leaves (return / raise / continue / break)."""
    conj = []

    def P(t):
        return prop(inline(inline_in, t)) if inline_in is not None else prop(t)
    child = node
    p = getattr(node, '_parent', None)
    while p is not None and child is not stop:
        if isinstance(p, ast.If):
            if child in p.body:
                conj.append(P(p.test))
            elif child in p.orelse:
                conj.append(('not', P(p.test)))
        elif isinstance(p, ast.IfExp):
            if child is p.body:
                conj.append(P(p.test))
            elif child is p.orelse:
                conj.append(('not', P(p.test)))
        elif isinstance(p, ast.While) and p is not stop and child in p.body:
            conj.append(P(p.test))
        for fld in ('body', 'orelse', 'finalbody'):
            lst = getattr(p, fld, None)
            if isinstance(lst, list) and child in lst:
                for s in lst[:lst.index(child)]:
                    if isinstance(s, ast.If):
                        b, o = _always_exits(s.body), _always_exits(s.orelse)
                        if b and not o:
                            conj.append(('not', P(s.test)))
                        elif o and not b:
                            conj.append(P(s.test))
        child = p
        p = getattr(p, '_parent', None)
    return ('and', conj)


def any_path(nodes, stop):
    return ('or', [path(n, stop) for n in nodes])
