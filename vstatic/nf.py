"""nf -- normal forms for expressions: affine forms, commutative-normalised dumps, guards."""
import ast

from .ev import ev, Sym
from .src import Unknown


def _const_value(node, env):
    """Value of `node` if it folds to an int constant in env (names in env only), else None."""
    try:
        v = ev(node, env or {})
    except Unknown:
        return None
    if isinstance(v, bool) or not isinstance(v, int):
        return None
    return v


def affine(node, env=None):
    """{term text: coefficient} with '' as the constant term, for +, -, unary -, * by constants.

    Anything else becomes an opaque term named by its unparsed text, so
    ``len(chunk) * 3 + 1`` and ``1 + 3 * len(chunk)`` have the same form."""
    out = {}

    def add(d, k, c):
        d[k] = d.get(k, 0) + c
        if d[k] == 0 and k != '':
            del d[k]

    def rec(n, scale, acc):
        cv = _const_value(n, env) if not isinstance(n, ast.Name) or (env and n.id in env) else None
        if cv is not None:
            add(acc, '', scale * cv)
            return
        if isinstance(n, ast.BinOp) and isinstance(n.op, ast.Add):
            rec(n.left, scale, acc)
            rec(n.right, scale, acc)
        elif isinstance(n, ast.BinOp) and isinstance(n.op, ast.Sub):
            rec(n.left, scale, acc)
            rec(n.right, -scale, acc)
        elif isinstance(n, ast.UnaryOp) and isinstance(n.op, ast.USub):
            rec(n.operand, -scale, acc)
        elif isinstance(n, ast.UnaryOp) and isinstance(n.op, ast.UAdd):
            rec(n.operand, scale, acc)
        elif isinstance(n, ast.BinOp) and isinstance(n.op, ast.Mult):
            lc, rc = _const_value(n.left, env), _const_value(n.right, env)
            if lc is not None:
                rec(n.right, scale * lc, acc)
            elif rc is not None:
                rec(n.left, scale * rc, acc)
            else:
                add(acc, norm(n), scale)
        elif isinstance(n, ast.BinOp) and isinstance(n.op, ast.LShift) and _const_value(n.right, env) is not None:
            rec(n.left, scale * (1 << _const_value(n.right, env)), acc)
        else:
            add(acc, norm(n), scale)
    rec(node, 1, out)
    out.setdefault('', 0)
    return out


def affine_eq(node, want, env=None):
    """`want` is {term: coef} without zero entries; '' optional."""
    got = affine(node, env)
    w = dict(want)
    w.setdefault('', 0)
    return got == w


def fmt_affine(d):
    parts = []
    for k in sorted(d):
        if k == '':
            continue
        c = d[k]
        parts.append((f'{c}*' if c != 1 else '') + k)
    if d.get('', 0) or not parts:
        parts.append(str(d.get('', 0)))
    return ' + '.join(parts)


_COMM = (ast.Add, ast.Mult, ast.BitOr, ast.BitAnd, ast.BitXor)
_ORIENT = {ast.Lt: ast.Gt, ast.Gt: ast.Lt, ast.LtE: ast.GtE, ast.GtE: ast.LtE, ast.Eq: ast.Eq, ast.NotEq: ast.NotEq}
_SYM = {ast.Lt: '<', ast.Gt: '>', ast.LtE: '<=', ast.GtE: '>=', ast.Eq: '==', ast.NotEq: '!=', ast.Is: 'is', ast.IsNot: 'is not',
        ast.In: 'in', ast.NotIn: 'not in'}


def same(node, text):
    """Is `node` the expression `text`, up to commutativity, comparison orientation and redundant parentheses?"""
    return norm(node) == norm(ast.parse(text, mode='eval').body)


def same_any(node, texts):
    return any(same(node, t) for t in texts)


def guard_is(guards, text):
    """Is the conjunction of `guards` (from guards_of) the condition `text` (an `and` of tests, `not (...)` for negatives)?"""
    want = ast.parse(text, mode='eval').body
    wl = want.values if isinstance(want, ast.BoolOp) and isinstance(want.op, ast.And) else [want]
    got = sorted(norm(t) if pol else f'(not {norm(t)})' for t, pol in guards)
    # flatten conjunctions inside single guards
    flat = []
    for t, pol in guards:
        if pol and isinstance(t, ast.BoolOp) and isinstance(t.op, ast.And):
            flat += [norm(v) for v in t.values]
        else:
            flat.append(norm(t) if pol else f'(not {norm(t)})')
    return sorted(flat) == sorted(norm(w) for w in wl)


def norm(node):
    """Canonical text: commutative operands sorted, redundant parentheses gone (via unparse)."""
    if isinstance(node, ast.BinOp) and isinstance(node.op, _COMM):
        items = []

        def flat(n):
            if isinstance(n, ast.BinOp) and type(n.op) is type(node.op):
                flat(n.left)
                flat(n.right)
            else:
                items.append(norm(n))
        flat(node)
        sym = {ast.Add: '+', ast.Mult: '*', ast.BitOr: '|', ast.BitAnd: '&', ast.BitXor: '^'}[type(node.op)]
        return '(' + sym.join(sorted(items)) + ')'
    if isinstance(node, ast.BinOp):
        sym = {ast.Sub: '-', ast.FloorDiv: '//', ast.Mod: '%', ast.LShift: '<<', ast.RShift: '>>',
               ast.Div: '/', ast.Pow: '**'}.get(type(node.op), '?')
        return f'({norm(node.left)}{sym}{norm(node.right)})'
    if isinstance(node, ast.Constant):
        return repr(node.value)
    if isinstance(node, ast.Compare) and len(node.ops) == 1 and type(node.ops[0]) in _ORIENT:
        # orientation-insensitive: constants to the right, otherwise the textually smaller operand first
        a, b = node.left, node.comparators[0]
        ta, tb = norm(a), norm(b)
        op = type(node.ops[0])
        ca, cb = isinstance(a, ast.Constant), isinstance(b, ast.Constant)
        if (ca and not cb) or (ca == cb and ta > tb):
            ta, tb, op = tb, ta, _ORIENT[op]
        return f'({ta} {_SYM[op]} {tb})'
    if isinstance(node, ast.Compare):
        parts = [norm(node.left)]
        for o, c in zip(node.ops, node.comparators):
            parts.append(_SYM.get(type(o), type(o).__name__))
            parts.append(norm(c))
        return '(' + ' '.join(parts) + ')'
    if isinstance(node, ast.UnaryOp) and isinstance(node.op, ast.Not):
        return f'(not {norm(node.operand)})'
    if isinstance(node, ast.IfExp):
        return f'({norm(node.body)} if {norm(node.test)} else {norm(node.orelse)})'
    if isinstance(node, (ast.Tuple, ast.List)):
        inner = ', '.join(norm(e) for e in node.elts)
        return ('(' + inner + (',' if len(node.elts) == 1 else '') + ')') if isinstance(node, ast.Tuple) else '[' + inner + ']'
    if isinstance(node, ast.BoolOp) and isinstance(node.op, (ast.And, ast.Or)):
        sym = ' and ' if isinstance(node.op, ast.And) else ' or '
        return '(' + sym.join(sorted(norm(v) for v in node.values)) + ')'
    if isinstance(node, ast.Call):
        return f'{norm(node.func)}({",".join([norm(a) for a in node.args] + sorted(f"{k.arg}={norm(k.value)}" for k in node.keywords))})'
    if isinstance(node, ast.Subscript) and not isinstance(node.slice, ast.Slice):
        return f'{norm(node.value)}[{norm(node.slice)}]'
    if isinstance(node, ast.Subscript):
        sl = node.slice
        parts = [norm(x) if x is not None else '' for x in (sl.lower, sl.upper)] + ([norm(sl.step)] if sl.step is not None else [])
        return f'{norm(node.value)}[{":".join(parts)}]'
    if isinstance(node, ast.Attribute):
        return f'{norm(node.value)}.{node.attr}'
    if isinstance(node, ast.Starred):
        return f'*{norm(node.value)}'
    if isinstance(node, ast.GeneratorExp) or isinstance(node, ast.ListComp) or isinstance(node, ast.SetComp):
        gens = ' '.join(f'for {norm(g.target)} in {norm(g.iter)}' + ''.join(f' if {norm(c)}' for c in g.ifs) for g in node.generators)
        br = {ast.GeneratorExp: '()', ast.ListComp: '[]', ast.SetComp: '{}'}[type(node)]
        return f'{br[0]}{norm(node.elt)} {gens}{br[1]}'
    return ast.unparse(node)


# -- structured dominance -------------------------------------------------------------------

def block_of(stmt):
    """(list, index) of the statement list that directly contains `stmt`."""
    p = getattr(stmt, '_parent', None)
    if p is None:
        raise Unknown('statement without parent')
    for fld in ('body', 'orelse', 'finalbody'):
        lst = getattr(p, fld, None)
        if isinstance(lst, list) and stmt in lst:
            return lst, lst.index(stmt)
    if isinstance(p, ast.Try):
        for h in p.handlers:
            if stmt in h.body:
                return h.body, h.body.index(stmt)
    if isinstance(p, ast.ExceptHandler) and stmt in p.body:
        return p.body, p.body.index(stmt)
    raise Unknown('statement not found in parent block')


def enclosing_stmt(node):
    n = node
    while n is not None and not isinstance(n, ast.stmt):
        n = getattr(n, '_parent', None)
    if n is None:
        raise Unknown('no enclosing statement')
    return n


def must_execute(stmt, pred):
    """Does executing `stmt` to normal completion always execute a statement/expression satisfying pred?"""
    if pred(stmt):
        return True
    if isinstance(stmt, ast.If):
        return bool(stmt.orelse) and any(must_execute(s, pred) for s in stmt.body) \
            and any(must_execute(s, pred) for s in stmt.orelse)
    if isinstance(stmt, (ast.With,)):
        return any(must_execute(s, pred) for s in stmt.body)
    if isinstance(stmt, ast.Try):
        # the try body may be cut short by an exception; only finalbody is certain
        return any(must_execute(s, pred) for s in stmt.finalbody)
    return False


def dominators(target, fn, pred):
    """Statements satisfying `pred` (or must-executing one) that dominate `target` inside `fn`:
    walk outwards from target; at each enclosing block, every earlier sibling statement is executed
    before control reaches target (structured code; early exits only remove paths)."""
    found = []
    st = enclosing_stmt(target)
    while st is not fn and st is not None:
        lst, idx = block_of(st)
        for s in lst[:idx]:
            if must_execute(s, pred):
                found.append(s)
        st = getattr(st, '_parent', None)
        while st is not None and not isinstance(st, ast.stmt):
            st = getattr(st, '_parent', None)
    return found


def guards_of(node, fn):
    """Conjunction of branch conditions under which `node` executes: list of (test expr, polarity)."""
    out = []
    child = node
    p = getattr(node, '_parent', None)
    while p is not None and p is not fn:
        if isinstance(p, ast.If):
            if child in p.body:
                out.append((p.test, True))
            elif child in p.orelse:
                out.append((p.test, False))
        elif isinstance(p, ast.IfExp):
            if child is p.body:
                out.append((p.test, True))
            elif child is p.orelse:
                out.append((p.test, False))
        elif isinstance(p, ast.While):
            if child in p.body:
                out.append((p.test, True))
        child = p
        p = getattr(p, '_parent', None)
    out.reverse()
    return out


def guard_text(guards):
    return ' and '.join((ast.unparse(t) if pol else f'not ({ast.unparse(t)})') for t, pol in guards) or 'True'


# -- inlining of single-assignment locals -------------------------------------------------------

def single_defs(fn):
    """{local name: value expr} for names assigned exactly once in fn (plain `name = expr`, not in a loop target, not
    augmented, not a parameter) -- the names that can be replaced by their definition without changing meaning
    as long as the definition's own operands are not reassigned in between (checked by the caller where it matters)."""
    count, val = {}, {}
    params = {a.arg for a in fn.args.posonlyargs + fn.args.args + fn.args.kwonlyargs}
    for n in ast.walk(fn):
        if isinstance(n, ast.Assign):
            for t in n.targets:
                for nm in ast.walk(t):
                    if isinstance(nm, ast.Name):
                        count[nm.id] = count.get(nm.id, 0) + 1
            if len(n.targets) == 1 and isinstance(n.targets[0], ast.Name):
                val[n.targets[0].id] = n.value
        elif isinstance(n, (ast.AugAssign, ast.AnnAssign)):
            for nm in ast.walk(n.target):
                if isinstance(nm, ast.Name):
                    count[nm.id] = count.get(nm.id, 0) + 2
        elif isinstance(n, (ast.For, ast.comprehension)):
            for nm in ast.walk(n.target):
                if isinstance(nm, ast.Name):
                    count[nm.id] = count.get(nm.id, 0) + 2
        elif isinstance(n, ast.With):
            for it in n.items:
                if it.optional_vars is not None:
                    for nm in ast.walk(it.optional_vars):
                        if isinstance(nm, ast.Name):
                            count[nm.id] = count.get(nm.id, 0) + 2
    return {k: v for k, v in val.items() if count.get(k) == 1 and k not in params}


class _Inline(ast.NodeTransformer):
    def __init__(self, defs, depth=0):
        self.defs, self.depth = defs, depth

    def visit_Name(self, node):
        if isinstance(node.ctx, ast.Load) and node.id in self.defs and self.depth < 8:
            import copy as _copy
            sub = _copy.deepcopy(self.defs[node.id])
            return _Inline({k: v for k, v in self.defs.items() if k != node.id}, self.depth + 1).visit(sub)
        return node


def inline(fn, expr):
    """`expr` with the single-assignment locals of `fn` replaced by their definitions (recursively)."""
    import copy as _copy
    return _Inline(single_defs(fn)).visit(_copy.deepcopy(expr))


def same_inlined(fn, expr, text):
    """Does `expr`, after inlining fn's single-assignment locals, equal `text` (written in terms of parameters/globals)?"""
    return norm(inline(fn, expr)) == norm(ast.parse(text, mode='eval').body)


def unpack_targets(fn, call_pattern_pred):
    """Names bound by `a, b, c = <call>` where pred(call) holds: list of target names (or None)."""
    for n in ast.walk(fn):
        if isinstance(n, ast.Assign) and len(n.targets) == 1 and isinstance(n.targets[0], (ast.Tuple, ast.List)) \
                and isinstance(n.value, ast.Call) and call_pattern_pred(n.value):
            return [t.id if isinstance(t, ast.Name) else None for t in n.targets[0].elts]
    return None
