"""nf -- normal forms for expressions: affine forms, commutative-normalised dumps, guards."""
import ast

from .ev import ev, Sym
from .src import Unknown


def _const_value(node, env):
    """Value of `node` if it folds to an int constant in env (names in env only), else None."""
    try:
        v = ev(node, env or {})
    except Unknown:
        return None
    if isinstance(v, bool) or not isinstance(v, int):
        return None
    return v


def affine(node, env=None):
    """{term text: coefficient} with '' as the constant term, for +, -, unary -, * by constants.

    Anything else becomes an opaque term named by its unparsed text, so
    ``len(chunk) * 3 + 1`` and ``1 + 3 * len(chunk)`` have the same form."""
    out = {}

    def add(d, k, c):
        d[k] = d.get(k, 0) + c
        if d[k] == 0 and k != '':
            del d[k]

    def rec(n, scale, acc):
        cv = _const_value(n, env) if not isinstance(n, ast.Name) or (env and n.id in env) else None
        if cv is not None:
            add(acc, '', scale * cv)
            return
        if isinstance(n, ast.BinOp) and isinstance(n.op, ast.Add):
            rec(n.left, scale, acc)
            rec(n.right, scale, acc)
        elif isinstance(n, ast.BinOp) and isinstance(n.op, ast.Sub):
            rec(n.left, scale, acc)
            rec(n.right, -scale, acc)
        elif isinstance(n, ast.UnaryOp) and isinstance(n.op, ast.USub):
            rec(n.operand, -scale, acc)
        elif isinstance(n, ast.UnaryOp) and isinstance(n.op, ast.UAdd):
            rec(n.operand, scale, acc)
        elif isinstance(n, ast.BinOp) and isinstance(n.op, ast.Mult):
            lc, rc = _const_value(n.left, env), _const_value(n.right, env)
            if lc is not None:
                rec(n.right, scale * lc, acc)
            elif rc is not None:
                rec(n.left, scale * rc, acc)
            else:
                add(acc, norm(n), scale)
        elif isinstance(n, ast.BinOp) and isinstance(n.op, ast.LShift) and _const_value(n.right, env) is not None:
            rec(n.left, scale * (1 << _const_value(n.right, env)), acc)
        else:
            add(acc, norm(n), scale)
    rec(node, 1, out)
    out.setdefault('', 0)
    return out


def affine_eq(node, want, env=None):
    """`want` is {term: coef} without zero entries; '' optional."""
    got = affine(node, env)
    w = dict(want)
    w.setdefault('', 0)
    return got == w


def fmt_affine(d):
    parts = []
    for k in sorted(d):
        if k == '':
            continue
        c = d[k]
        parts.append((f'{c}*' if c != 1 else '') + k)
    if d.get('', 0) or not parts:
        parts.append(str(d.get('', 0)))
    return ' + '.join(parts)


_COMM = (ast.Add, ast.Mult, ast.BitOr, ast.BitAnd, ast.BitXor)


def norm(node):
    """Canonical text: commutative operands sorted, redundant parentheses gone (via unparse)."""
    if isinstance(node, ast.BinOp) and isinstance(node.op, _COMM):
        items = []

        def flat(n):
            if isinstance(n, ast.BinOp) and type(n.op) is type(node.op):
                flat(n.left)
                flat(n.right)
            else:
                items.append(norm(n))
        flat(node)
        sym = {ast.Add: '+', ast.Mult: '*', ast.BitOr: '|', ast.BitAnd: '&', ast.BitXor: '^'}[type(node.op)]
        return '(' + sym.join(sorted(items)) + ')'
    if isinstance(node, ast.BinOp):
        sym = {ast.Sub: '-', ast.FloorDiv: '//', ast.Mod: '%', ast.LShift: '<<', ast.RShift: '>>',
               ast.Div: '/', ast.Pow: '**'}.get(type(node.op), '?')
        return f'({norm(node.left)}{sym}{norm(node.right)})'
    if isinstance(node, ast.Constant):
        return repr(node.value)
    if isinstance(node, ast.BoolOp) and isinstance(node.op, (ast.And, ast.Or)):
        sym = ' and ' if isinstance(node.op, ast.And) else ' or '
        return '(' + sym.join(sorted(norm(v) for v in node.values)) + ')'
    if isinstance(node, ast.Call):
        return f'{norm(node.func)}({",".join([norm(a) for a in node.args] + [f"{k.arg}={norm(k.value)}" for k in node.keywords])})'
    if isinstance(node, ast.Subscript) and not isinstance(node.slice, ast.Slice):
        return f'{norm(node.value)}[{norm(node.slice)}]'
    return ast.unparse(node)


# -- structured dominance -------------------------------------------------------------------

def block_of(stmt):
    """(list, index) of the statement list that directly contains `stmt`."""
    p = getattr(stmt, '_parent', None)
    if p is None:
        raise Unknown('statement without parent')
    for fld in ('body', 'orelse', 'finalbody'):
        lst = getattr(p, fld, None)
        if isinstance(lst, list) and stmt in lst:
            return lst, lst.index(stmt)
    if isinstance(p, ast.Try):
        for h in p.handlers:
            if stmt in h.body:
                return h.body, h.body.index(stmt)
    if isinstance(p, ast.ExceptHandler) and stmt in p.body:
        return p.body, p.body.index(stmt)
    raise Unknown('statement not found in parent block')


def enclosing_stmt(node):
    n = node
    while n is not None and not isinstance(n, ast.stmt):
        n = getattr(n, '_parent', None)
    if n is None:
        raise Unknown('no enclosing statement')
    return n


def must_execute(stmt, pred):
    """Does executing `stmt` to normal completion always execute a statement/expression satisfying pred?"""
    if pred(stmt):
        return True
    if isinstance(stmt, ast.If):
        return bool(stmt.orelse) and any(must_execute(s, pred) for s in stmt.body) \
            and any(must_execute(s, pred) for s in stmt.orelse)
    if isinstance(stmt, (ast.With,)):
        return any(must_execute(s, pred) for s in stmt.body)
    if isinstance(stmt, ast.Try):
        # the try body may be cut short by an exception; only finalbody is certain
        return any(must_execute(s, pred) for s in stmt.finalbody)
    return False


def dominators(target, fn, pred):
    """Statements satisfying `pred` (or must-executing one) that dominate `target` inside `fn`:
    walk outwards from target; at each enclosing block, every earlier sibling statement is executed
    before control reaches target (structured code; early exits only remove paths)."""
    found = []
    st = enclosing_stmt(target)
    while st is not fn and st is not None:
        lst, idx = block_of(st)
        for s in lst[:idx]:
            if must_execute(s, pred):
                found.append(s)
        st = getattr(st, '_parent', None)
        while st is not None and not isinstance(st, ast.stmt):
            st = getattr(st, '_parent', None)
    return found


def guards_of(node, fn):
    """Conjunction of branch conditions under which `node` executes: list of (test expr, polarity)."""
    out = []
    child = node
    p = getattr(node, '_parent', None)
    while p is not None and p is not fn:
        if isinstance(p, ast.If):
            if child in p.body:
                out.append((p.test, True))
            elif child in p.orelse:
                out.append((p.test, False))
        elif isinstance(p, ast.IfExp):
            if child is p.body:
                out.append((p.test, True))
            elif child is p.orelse:
                out.append((p.test, False))
        elif isinstance(p, ast.While):
            if child in p.body:
                out.append((p.test, True))
        child = p
        p = getattr(p, '_parent', None)
    out.reverse()
    return out


def guard_text(guards):
    return ' and '.join((ast.unparse(t) if pol else f'not ({ast.unparse(t)})') for t, pol in guards) or 'True'
