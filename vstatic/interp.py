"""interp -- a small abstract interpreter for *data-independent* statement sequences.

It exists for two jobs only (DESIGN 3.3/3.8):

* sparse conditional constant propagation with unrolling of loops whose iterable folds to a
  constant (``for i in range(8)``, ``for i, j in corners``), used to obtain which matrix cells the
  function-pattern writers store into and which abstract value (constant, bit k of a symbolic word)
  they store there -- on an abstract matrix, for each of the 44 symbol sizes;
* decision tables of a loop-free function prefix over a finite abstract domain of option flags.

Values are Python constants folded by :mod:`ev`, :class:`ev.Sym` symbols, or model objects supplied
by a rule (abstract matrix, symbolic word).  A branch on a symbolic value, an unbounded loop, or any
construct outside this grammar raises :class:`Unknown`.  User data never enters: rules only apply
this to code whose operands are sizes, versions, levels and mask numbers.
"""
import ast
import collections
import operator

from .ev import ev, Sym, FuncRef, _bind, PyRaise, RepoExc, exc_issub, Scope, GenList
from .src import Unknown



class Signal(Exception):
    pass


class Return(Signal):
    def __init__(self, value):
        self.value = value


class Raised(PyRaise):
    """An explicit ``raise`` statement of the analysed code (a PyRaise that knows its statement)."""

    def __init__(self, node, cls, msg=''):
        PyRaise.__init__(self, cls, node, msg)
        self.exc = getattr(cls, '__name__', str(cls))


class _Break(Signal):
    pass


class _Continue(Signal):
    pass


class FuncVal:
    """A repository function made callable inside the interpreter (explicitly allowed by a rule)."""

    def __init__(self, node, genv, interp, defaults=None):
        self.node, self.genv, self.interp = node, genv, interp
        self.defaults = defaults      # {param: value} evaluated when the def statement ran (None: module level, lazily)

    # decorators whose effect the interpreter (or the rule that builds the call) accounts for; a function under any other decorator
    # is not the function its name denotes, and interpreting the bare body would decide something about code that does not run
    _READABLE_DECORATORS = frozenset(('property', 'staticmethod', 'classmethod', 'wraps', 'colorful', 'contextmanager', 'dataclass',
                                      'lru_cache', 'cache', 'cached_property', 'abstractmethod', 'overload', 'final', 'setter'))
    decorators_applied = False      # set by a harness that applies the decorator list itself (props/render.run)

    def _readable(self):
        if self.decorators_applied:
            return
        for d in getattr(self.node, 'decorator_list', ()):
            f = d.func if isinstance(d, ast.Call) else d
            name = f.id if isinstance(f, ast.Name) else getattr(f, 'attr', None)
            if name not in self._READABLE_DECORATORS:
                raise Unknown(f'{self.node.name} is defined under the decorator `{ast.unparse(d)[:40]}`, which the interpreter does not apply')

    def __call__(self, *args, **kw):
        self._readable()
        return self.interp.call(self, args, kw)

    def call_in_order(self, *values, **kw):
        """Call with the values bound to the parameters in declaration order, whatever their kind (a refactoring that makes the
        parameters of a private function keyword-only does not change what a caller means by its arguments)."""
        a = self.node.args
        pos = [x.arg for x in a.posonlyargs + a.args]
        kwo = [x.arg for x in a.kwonlyargs]
        self._readable()
        if len(values) <= len(pos) or a.vararg is not None:
            return self.interp.call(self, values, kw)
        extra = values[len(pos):]
        if len(extra) > len(kwo):
            return self.interp.call(self, values, kw)      # too many: let the call fail as Python would
        kw = dict(kw)
        kw.update(zip(kwo, extra))
        return self.interp.call(self, values[:len(pos)], kw)


class Interp:
    def __init__(self, max_steps=2_000_000):
        self.steps = 0
        self.max_steps = max_steps
        self.trace = None       # optional callback(stmt, env)

    def tick(self):
        self.steps += 1
        if self.steps > self.max_steps:
            raise Unknown('step budget exhausted (not a bounded, data-independent computation?)')

    def call(self, fv, args, kw):
        fn = fv.node
        a = fn.args
        names = [x.arg for x in a.posonlyargs + a.args]
        env = Scope(fv.genv)
        defaults = dict(zip(names[len(names) - len(a.defaults):], a.defaults))
        if len(args) > len(names) and a.vararg is None:
            raise PyRaise(TypeError, fn, f'{fn.name}() takes {len(names)} positional arguments but {len(args)} were given')
        bound = dict(zip(names, args))
        if a.vararg is not None:
            bound[a.vararg.arg] = tuple(args[len(names):])
        extra = {}
        for k, v in kw.items():
            if k not in names and k not in [x.arg for x in a.kwonlyargs]:
                if a.kwarg is None:
                    raise PyRaise(TypeError, fn, f'{fn.name}() got an unexpected keyword argument {k!r}')
                extra[k] = v
                continue
            if k in bound:
                raise PyRaise(TypeError, fn, f'{fn.name}() got multiple values for argument {k!r}')
            bound[k] = v
        if a.kwarg is not None:
            bound[a.kwarg.arg] = extra
        for n in names:
            if n not in bound:
                if fv.defaults is not None and n in fv.defaults:
                    bound[n] = fv.defaults[n]
                elif n in defaults:
                    bound[n] = ev(defaults[n], fv.genv)
                else:
                    raise PyRaise(TypeError, fn, f'{fn.name}() missing required argument {n!r}')
        for x, d in zip(a.kwonlyargs, a.kw_defaults):
            if x.arg not in bound and d is not None:
                bound[x.arg] = fv.defaults[x.arg] if fv.defaults is not None and x.arg in fv.defaults else ev(d, fv.genv)
        env.update(bound)
        is_gen = getattr(fn, '_is_gen', None)
        if is_gen is None:
            is_gen = fn._is_gen = any(isinstance(n, (ast.Yield, ast.YieldFrom)) for n in _walk_own(fn))
        if is_gen:
            env['__yielded__'] = []
        try:
            self.block(fn.body, env)
        except Return as r:
            if not is_gen:
                return r.value
        if is_gen:
            # a generator: its body runs when it is iterated; here it is run eagerly and the values collected
            return GenList(env['__yielded__'])
        return None

    def block(self, stmts, env):
        for st in stmts:
            self.stmt(st, env)

    def stmt(self, st, env):
        self.tick()
        if self.trace:
            self.trace(st, env)
        t = type(st)
        if t is ast.Expr:
            if isinstance(st.value, ast.Constant):
                return
            if isinstance(st.value, ast.Yield):
                if '__yielded__' not in env:
                    raise Unknown('yield outside a generator run')
                env['__yielded__'].append(ev(st.value.value, env) if st.value.value is not None else None)
                return
            if isinstance(st.value, ast.YieldFrom):
                if '__yielded__' not in env:
                    raise Unknown('yield from outside a generator run')
                sub = ev(st.value.value, env)
                if isinstance(sub, Sym):
                    raise Unknown(f'yield from a symbolic iterable: {ast.unparse(st.value.value)}')
                env['__yielded__'].extend(list(sub))
                return
            ev(st.value, env)
        elif t is ast.Assign:
            val = ev(st.value, env)
            for tgt in st.targets:
                self.assign(tgt, val, env)
        elif t is ast.AugAssign:
            cur = ev(_as_load(st.target), env)
            rhs = ev(st.value, env)
            inplace = {ast.Add: operator.iadd, ast.BitOr: operator.ior, ast.BitAnd: operator.iand, ast.Sub: operator.isub, ast.BitXor: operator.ixor,
                       ast.Mult: operator.imul}.get(type(st.op))
            if inplace is not None and type(cur) in (list, bytearray, set, dict, collections.deque, GenList) and not isinstance(rhs, Sym):
                # a mutable container is changed in place (visible through every other name bound to it), as Python does
                try:
                    val = inplace(cur, list(rhs) if type(cur) in (list, GenList) and hasattr(rhs, '__next__') else rhs)
                except TypeError as ex:
                    raise Raised(st, TypeError, str(ex))
            else:
                val = ev(ast.BinOp(left=ast.Constant(cur) if _is_const(cur) else _Box(cur), op=st.op, right=_Box(rhs)), env)
            self.assign(st.target, val, env)
        elif t is ast.If:
            c = ev(st.test, env)
            if isinstance(c, Sym):
                raise Unknown(f'branch on symbolic condition: {ast.unparse(st.test)}')
            self.block(st.body if c else st.orelse, env)
        elif t is ast.For:
            it = ev(st.iter, env)
            if isinstance(it, Sym):
                raise Unknown(f'loop over symbolic iterable: {ast.unparse(st.iter)}')
            try:
                items = it if hasattr(it, '__next__') else list(it)     # an iterator is consumed as the loop goes
            except TypeError:
                raise Unknown(f'loop over non-iterable: {ast.unparse(st.iter)}')
            broke = False
            for v in items:
                self.tick()
                _bind_any(st.target, v, env)
                try:
                    self.block(st.body, env)
                except _Continue:
                    continue
                except _Break:
                    broke = True
                    break
            if not broke:
                self.block(st.orelse, env)
        elif t is ast.While:
            broke = False
            while True:
                self.tick()
                c = ev(st.test, env)
                if isinstance(c, Sym):
                    raise Unknown(f'loop on symbolic condition: {ast.unparse(st.test)}')
                if not c:
                    break
                try:
                    self.block(st.body, env)
                except _Continue:
                    continue
                except _Break:
                    broke = True
                    break
            if not broke:
                self.block(st.orelse, env)
        elif t is ast.AnnAssign:
            if st.value is not None:
                self.assign(st.target, ev(st.value, env), env)
        elif t is ast.Return:
            raise Return(ev(st.value, env) if st.value is not None else None)
        elif t is ast.Raise:
            if st.exc is None:
                cur = env.get('__current_exception__')
                if cur is None:
                    raise Unknown('bare raise outside a handler')
                raise cur
            raise Raised(st, self.exc_class(st.exc, env), ast.unparse(st.exc)[:120])
        elif t is ast.Try:
            self.try_(st, env)
        elif t is ast.With:
            # only model context managers supplied by a rule (objects with `_cm_value`)
            suppress = ()
            for item in st.items:
                cm = ev(item.context_expr, env)
                if isinstance(cm, _Suppress):
                    if isinstance(item.context_expr, ast.Call):
                        suppress += tuple(self.exc_class(a_, env) for a_ in item.context_expr.args)
                    else:
                        suppress += cm.classes
                    continue
                if not hasattr(cm, '_cm_value'):
                    raise Unknown(f'with-statement over a non-model context manager: {ast.unparse(item.context_expr)[:60]}')
                if item.optional_vars is not None:
                    self.assign(item.optional_vars, cm._cm_value, env)
            if suppress:
                try:
                    self.block(st.body, env)
                except PyRaise as e:
                    if not any(exc_issub(e.cls, c) for c in suppress):
                        raise
            else:
                self.block(st.body, env)
        elif t is ast.Match:
            subject = ev(st.subject, env)
            if isinstance(subject, Sym):
                raise Unknown(f'match on a symbolic value: {ast.unparse(st.subject)}')
            for case in st.cases:
                binds = {}
                if self.match_pattern(case.pattern, subject, env, binds):
                    env.update(binds)
                    if case.guard is not None:
                        g = ev(case.guard, env)
                        if isinstance(g, Sym):
                            raise Unknown('symbolic match guard')
                        if not g:
                            continue
                    self.block(case.body, env)
                    break
        elif t is ast.Delete:
            for tgt in st.targets:
                if isinstance(tgt, ast.Subscript):
                    base, idx = ev(tgt.value, env), ev(tgt.slice, env)
                    if isinstance(base, Sym) or isinstance(idx, Sym) or not (isinstance(base, (list, dict, bytearray)) or hasattr(type(base), '__delitem__') and hasattr(type(base), '_model')):
                        raise Unknown(f'del {ast.unparse(tgt)}')
                    try:
                        del base[idx]
                    except (IndexError, KeyError) as ex:
                        raise PyRaise(type(ex), st, str(ex))
                elif isinstance(tgt, ast.Name):
                    env.pop(tgt.id, None)
                else:
                    raise Unknown(f'del {ast.unparse(tgt)}')
        elif t is ast.Pass:
            return
        elif t is ast.Continue:
            raise _Continue()
        elif t is ast.Break:
            raise _Break()
        elif t is ast.Assert:
            c = ev(st.test, env)
            if isinstance(c, Sym):
                raise Unknown('assert on symbolic value')
            if not c:
                raise Raised(st, AssertionError, ast.unparse(st.test))
        elif t in (ast.FunctionDef,):
            # default values are evaluated now (Python semantics), not at call time
            a = st.args
            pos = a.posonlyargs + a.args
            dv = {p.arg: ev(d, env) for p, d in zip(pos[len(pos) - len(a.defaults):], a.defaults)}
            dv.update({p.arg: ev(d, env) for p, d in zip(a.kwonlyargs, a.kw_defaults) if d is not None})
            env[st.name] = FuncVal(st, env, self, dv)
        elif t in (ast.Import, ast.ImportFrom):
            if t is ast.Import or st.level == 0 and st.module != 'segno':
                tmp = {}
                _evmod.bind_stdlib_import(st, tmp)
                for k_, v_ in tmp.items():
                    env[k_] = v_
            return
        else:
            raise Unknown(f'statement kind {t.__name__} outside the interpreter grammar (line {st.lineno})')

    def match_pattern(self, p, val, env, binds):
        """Structural pattern matching for the pattern kinds a constant dispatch uses."""
        if isinstance(p, ast.MatchValue):
            return val == ev(p.value, env)
        if isinstance(p, ast.MatchSingleton):
            return val is p.value
        if isinstance(p, ast.MatchOr):
            return any(self.match_pattern(q, val, env, binds) for q in p.patterns)
        if isinstance(p, ast.MatchAs):
            if p.pattern is not None and not self.match_pattern(p.pattern, val, env, binds):
                return False
            if p.name is not None:
                binds[p.name] = val
            return True
        if isinstance(p, ast.MatchSequence):
            if isinstance(val, (str, bytes, bytearray)) or not isinstance(val, (list, tuple)):
                return False
            star = [i for i, q in enumerate(p.patterns) if isinstance(q, ast.MatchStar)]
            if not star:
                return len(val) == len(p.patterns) and all(self.match_pattern(q, v, env, binds) for q, v in zip(p.patterns, val))
            k = star[0]
            after = len(p.patterns) - k - 1
            if len(val) < k + after:
                return False
            if not all(self.match_pattern(q, v, env, binds) for q, v in zip(p.patterns[:k], val[:k])):
                return False
            if after and not all(self.match_pattern(q, v, env, binds) for q, v in zip(p.patterns[k + 1:], val[len(val) - after:])):
                return False
            if p.patterns[k].name is not None:
                binds[p.patterns[k].name] = list(val[k:len(val) - after])
            return True
        if isinstance(p, ast.MatchClass) and not p.patterns and not p.kwd_attrs:
            cls = ev(p.cls, env)
            return _evmod._isinstance(val, cls)
        raise Unknown(f'match pattern {type(p).__name__} is outside the interpreter grammar')

    def exc_class(self, node, env):
        """Exception class denoted by the operand of ``raise`` / an ``except`` clause."""
        if isinstance(node, ast.Call):
            node = node.func
        if isinstance(node, ast.Tuple):
            return tuple(self.exc_class(e, env) for e in node.elts)
        val = ev(node, env)
        if isinstance(val, type) and issubclass(val, BaseException):
            return val
        if isinstance(val, RepoExc):
            return val
        if isinstance(val, FuncRef) and isinstance(val.node, ast.ClassDef):
            bases = tuple(self.exc_class(b, env) for b in val.node.bases)
            return RepoExc(val.name, bases)
        raise Unknown(f'cannot resolve exception class {ast.unparse(node)}')

    def try_(self, st, env):
        try:
            try:
                self.block(st.body, env)
            except PyRaise as e:
                for h in st.handlers:
                    if h.type is None or exc_issub(e.cls, self.exc_class(h.type, env)):
                        saved = env.get('__current_exception__')
                        env['__current_exception__'] = e
                        if h.name:
                            env[h.name] = ExcValue(e)
                        try:
                            self.block(h.body, env)
                        finally:
                            env['__current_exception__'] = saved
                        break
                else:
                    raise
            else:
                self.block(st.orelse, env)
        finally:
            if st.finalbody:
                self.block(st.finalbody, env)

    def assign(self, tgt, val, env):
        if isinstance(tgt, ast.Name):
            env[tgt.id] = val
        elif isinstance(tgt, (ast.Tuple, ast.List)):
            vals = list(val)
            stars = [i for i, t in enumerate(tgt.elts) if isinstance(t, ast.Starred)]
            if len(stars) == 1:
                k = stars[0]
                after = len(tgt.elts) - k - 1
                if len(vals) < len(tgt.elts) - 1:
                    raise PyRaise(ValueError, tgt, 'not enough values to unpack')
                for t, v in zip(tgt.elts[:k], vals[:k]):
                    self.assign(t, v, env)
                self.assign(tgt.elts[k].value, vals[k:len(vals) - after], env)
                for t, v in zip(tgt.elts[k + 1:], vals[len(vals) - after:] if after else []):
                    self.assign(t, v, env)
                return
            if len(vals) != len(tgt.elts):
                raise Unknown('unpack arity')
            for t, v in zip(tgt.elts, vals):
                self.assign(t, v, env)
        elif isinstance(tgt, ast.Subscript):
            base = ev(tgt.value, env)
            if isinstance(tgt.slice, ast.Slice):
                lo = ev(tgt.slice.lower, env) if tgt.slice.lower else None
                hi = ev(tgt.slice.upper, env) if tgt.slice.upper else None
                st_ = ev(tgt.slice.step, env) if tgt.slice.step is not None else None
                if isinstance(st_, Sym):
                    raise Unknown('symbolic slice step in store')
                idx = slice(lo, hi, st_)
                if st_ is not None and hasattr(val, '__next__'):
                    val = list(val)
            else:
                idx = ev(tgt.slice, env)
            if isinstance(base, Sym) or isinstance(idx, Sym):
                raise Unknown(f'store through symbolic base/index: {ast.unparse(tgt)}')
            try:
                base[idx] = val
            except Unknown:
                raise
            except ValueError as ex:
                raise Raised(tgt, ValueError, str(ex))
            except Exception as ex:
                raise Unknown(f'store {ast.unparse(tgt)}: {type(ex).__name__}: {ex}')
        elif isinstance(tgt, ast.Attribute):
            base = ev(tgt.value, env)
            import argparse as _ap
            if isinstance(base, _ap.Namespace):
                setattr(base, tgt.attr, val)
                return
            if tgt.attr not in getattr(type(base), '_model', ()):
                raise Unknown(f'attribute store {ast.unparse(tgt)} on a non-model object')
            setattr(base, tgt.attr, val)
        else:
            raise Unknown(f'assignment target {type(tgt).__name__}')


class ExcValue:
    """The value bound by ``except E as ex`` (only str(ex) is understood)."""
    _model = ()

    def __init__(self, e):
        self.e = e

    def __str__(self):
        return f'<message of {self.e.name}>'


def _walk_own(fn):
    stack = [s for s in fn.body if not isinstance(s, (ast.FunctionDef, ast.AsyncFunctionDef, ast.ClassDef))]
    while stack:
        n = stack.pop()
        yield n
        for c in ast.iter_child_nodes(n):
            if not isinstance(c, (ast.FunctionDef, ast.AsyncFunctionDef, ast.Lambda, ast.ClassDef)):
                stack.append(c)


class _Box(ast.AST):
    """Carries an already evaluated value through ev()."""
    _fields = ()

    def __init__(self, value):
        self.value = value


def _is_const(v):
    return isinstance(v, (int, str, bytes, float, bool, type(None)))


def _as_load(target):
    return target


def _bind_any(target, value, env):
    _bind(target, value, env)


# ev() needs to understand _Box: patch in a tiny hook
from . import ev as _evmod  # noqa: E402
_orig_ev = _evmod.ev


def _ev_with_box(node, env):
    if type(node) is _Box:
        return node.value
    return _orig_ev(node, env)


# Rebind recursively used name inside the ev module so nested evaluation sees boxes, too.
_evmod.ev = _ev_with_box
ev = _ev_with_box  # noqa: F811


def make_callable(forest, mod, qual, interp, extra_env=None):
    """FuncVal for repository function mod.qual, with the module's folded constants as globals."""
    genv = callable_env(forest, mod, interp, extra_env)
    return FuncVal(forest.func(mod, qual), genv, interp)


class _Foreign(dict):
    make = None


class _LazyModule(_evmod.Namespace):
    """A module of the package bound by `import` / `from . import m`: constants as folded, functions and classes callable in the
    globals of their own module (built on first use)."""

    def __init__(self, base, foreign):
        super().__init__(base._name, base._values, base._failed, base._exprs)
        self._foreign = foreign

    def get(self, attr):
        v = super().get(attr)
        if (isinstance(v, FuncRef) and isinstance(v.node, (ast.FunctionDef, ast.ClassDef)) and v.mod == self._name) or _holds_funcref(v):
            if self._name not in self._foreign:
                self._foreign[self._name] = self._foreign.make(self._name)
            return self._foreign[self._name].get(attr, v)
        return v


def _holds_funcref(v, depth=0):
    if isinstance(v, (tuple, list)):
        return depth < 3 and any(isinstance(x, FuncRef) or _holds_funcref(x, depth + 1) for x in v)
    if isinstance(v, dict):
        return depth < 3 and any(isinstance(x, FuncRef) or _holds_funcref(x, depth + 1) for x in v.values())
    return False


def callable_env(forest, mod, interp, extra_env=None):
    """Global environment of `mod` in which its own top-level functions can call each other."""
    genv = _evmod.base_env(forest, mod)
    foreign = _Foreign()
    # a stand-in for a function imported by name stands in for the definition in its own module, too (other functions of that
    # module that the caller reaches see the same stand-in)
    foreign_over = {}
    for k, v in genv.items():
        if extra_env and k in extra_env and isinstance(v, FuncRef) and isinstance(v.node, ast.FunctionDef) and v.mod != mod:
            foreign_over.setdefault(v.mod, {})[v.name] = extra_env[k]
    foreign.make = lambda m: callable_env(forest, m, interp, foreign_over.get(m))
    for k, v in list(genv.items()):
        if isinstance(v, FuncRef) and isinstance(v.node, ast.FunctionDef):
            if v.mod == mod:
                genv[k] = FuncVal(v.node, genv, interp)
            else:
                # a function imported by name runs in the globals of its own module
                if v.mod not in foreign:
                    foreign[v.mod] = foreign.make(v.mod)
                genv[k] = FuncVal(v.node, foreign[v.mod], interp)
    for k, v in list(genv.items()):
        if type(v) is _evmod.Namespace and v._name in forest.trees and v._name != mod:
            genv[k] = _LazyModule(v, foreign)
    for k, v in list(genv.items()):
        if isinstance(v, FuncRef) and isinstance(v.node, ast.ClassDef) and not _is_exception_class(v.node, genv):
            if v.mod == mod:
                genv[k] = ClassVal(forest, mod, v.node, genv, interp)
            else:
                if v.mod not in foreign:
                    foreign[v.mod] = foreign.make(v.mod)
                genv[k] = ClassVal(forest, v.mod, v.node, foreign[v.mod], interp)

    def deep(v, depth=0):
        # functions referenced from module-level tuples / lists / dicts (dispatch tables) become callable, too
        if isinstance(v, FuncRef) and isinstance(v.node, ast.FunctionDef):
            if v.mod == mod and extra_env and v.name in extra_env:
                return extra_env[v.name]        # a stand-in supplied by the rule also stands in inside dispatch tables
            if v.mod == mod:
                return FuncVal(v.node, genv, interp)
            if v.mod not in foreign:
                foreign[v.mod] = foreign.make(v.mod)
            return FuncVal(v.node, foreign[v.mod], interp)
        if depth < 3 and isinstance(v, tuple) and any(isinstance(x, (FuncRef, tuple, list, dict)) for x in v):
            items = [deep(x, depth + 1) for x in v]
            if all(a is b for a, b in zip(items, v)):
                return v
            return type(v)(*items) if hasattr(type(v), '_fields') else tuple(items)
        if depth < 3 and isinstance(v, list) and any(isinstance(x, (FuncRef, tuple, list, dict)) for x in v):
            items = [deep(x, depth + 1) for x in v]
            return v if all(a is b for a, b in zip(items, v)) else items
        if depth < 3 and type(v) is dict and any(isinstance(x, (FuncRef, tuple, list, dict)) for x in v.values()):
            items = {k: deep(x, depth + 1) for k, x in v.items()}
            return v if all(items[k] is v[k] for k in v) else items
        return v
    for k, v in list(genv.items()):
        if isinstance(v, (tuple, list, dict)):
            nv = deep(v)
            if nv is not v:
                genv[k] = nv
    if extra_env:
        # a stand-in written against the reference signature is callable through a signature that has grown (refsig)
        from . import refsig
        for k, v in extra_env.items():
            cur = genv.get(k)
            owner = cur.genv.get('__modname__', mod) if isinstance(cur, FuncVal) and isinstance(getattr(cur, 'genv', None), dict) else mod
            name = cur.node.name if isinstance(cur, FuncVal) and isinstance(cur.node, ast.FunctionDef) else k
            genv[k] = refsig.tolerant(forest, owner, name, v) if isinstance(cur, FuncVal) else v
            if type(v) is _evmod.Namespace and v._name in forest.trees:
                # a stand-in for a whole module of the package: its function stand-ins likewise
                for attr, fv in list(v._values.items()):
                    v._values[attr] = refsig.tolerant(forest, v._name, attr, fv)
    return genv


def _is_exception_class(node, genv, depth=0):
    for b in node.bases:
        if isinstance(b, ast.Name):
            v = genv.get(b.id, _evmod._BUILTINS.get(b.id))
            if isinstance(v, type) and issubclass(v, BaseException):
                return True
            if isinstance(v, FuncRef) and isinstance(v.node, ast.ClassDef) and depth < 4 and _is_exception_class(v.node, genv, depth + 1):
                return True
    return False


class _Suppress:
    """contextlib.suppress(*classes)."""

    def __init__(self, *classes):
        self.classes = tuple(classes)


class _NullContext:
    """contextlib.nullcontext(value)."""

    def __init__(self, value=None):
        self._cm_value = value


class ClassVal:
    """A class of the repository as something the interpreter can call.  A class derived from a namedtuple becomes a real
    tuple subclass whose methods and properties are interpreted; any other class gives an `Instance`."""

    _model = None       # set below: every public attribute is looked up in the class body

    def __init__(self, forest, mod, node, genv, interp):
        self._meta = (forest, mod, node, genv, interp)
        self.name = self.__name__ = node.name
        self._pycls = None

    def _tuple_class(self):
        forest, mod, node, genv, it = self._meta
        if self._pycls is not None:
            return self._pycls or None
        base = None
        if len(node.bases) == 1:
            try:
                b = ev(node.bases[0], genv)
            except Unknown:
                b = None
            if isinstance(b, ClassVal):
                b = b._tuple_class()
            import enum as _enum
            import typing as _typing
            if b is _typing.NamedTuple:
                # class X(NamedTuple): a: int; b: int = 0
                fields, defaults = [], []
                for st in node.body:
                    if isinstance(st, ast.AnnAssign) and isinstance(st.target, ast.Name):
                        fields.append(st.target.id)
                        if st.value is not None:
                            defaults.append(ev(st.value, genv))
                        elif defaults:
                            raise Unknown(f'NamedTuple {node.name}: field without default after fields with defaults')
                import collections as _c
                base = _c.namedtuple(node.name, fields, defaults=defaults or None)
            elif isinstance(b, type) and issubclass(b, _enum.Enum):
                if any(isinstance(st, ast.FunctionDef) for st in node.body):
                    raise Unknown(f'enum {node.name} with methods is outside the interpreter grammar')
                members = {}
                for st in node.body:
                    if isinstance(st, ast.Assign) and len(st.targets) == 1 and isinstance(st.targets[0], ast.Name):
                        members[st.targets[0].id] = ev(st.value, genv)
                self._pycls = b(node.name, members)
                return self._pycls
            elif isinstance(b, type) and issubclass(b, tuple):
                base = b
        if base is None:
            self._pycls = False
            return None
        ns = {'__slots__': ()}
        cv = self
        holder = []
        genv = dict(genv)
        genv['super'] = lambda *a: _Super(holder[0])
        for st in node.body:
            if isinstance(st, ast.FunctionDef):
                decos = [d.id if isinstance(d, ast.Name) else getattr(d, 'attr', None) for d in st.decorator_list]
                fv = FuncVal(st, genv, it)
                if st.name == '__new__':
                    def __new__(cls, *a, _fv=fv, **k):
                        return _fv(cls, *a, **k)
                    ns['__new__'] = __new__
                elif 'property' in decos:
                    ns[st.name] = property(lambda self, _fv=fv: _fv(self))
                elif 'staticmethod' in decos:
                    ns[st.name] = staticmethod(lambda *a, _fv=fv, **k: _fv(*a, **k))
                elif 'classmethod' in decos:
                    ns[st.name] = classmethod(lambda cls, *a, _fv=fv, **k: _fv(cv, *a, **k))
                else:
                    ns[st.name] = (lambda self, *a, _fv=fv, **k: _fv(self, *a, **k))
            elif isinstance(st, ast.Assign) and len(st.targets) == 1 and isinstance(st.targets[0], ast.Name) and st.targets[0].id != '__slots__':
                ns[st.targets[0].id] = ev(st.value, genv)
        self._pycls = type(node.name, (base,), ns)
        self._pycls._classval = self
        holder.append(self._pycls)
        return self._pycls

    def __call__(self, *args, **kw):
        forest, mod, node, genv, it = self._meta
        pc = self._tuple_class()
        if pc is not None:
            return pc(*args, **kw)
        decos = [(d.func if isinstance(d, ast.Call) else d) for d in node.decorator_list]
        names = [d.id if isinstance(d, ast.Name) else getattr(d, 'attr', None) for d in decos]
        if 'dataclass' in names and not forest.has_func(mod, f'{node.name}.__init__'):
            fields = [(st.target.id, st.value) for st in node.body if isinstance(st, ast.AnnAssign) and isinstance(st.target, ast.Name)]
            if len(args) > len(fields) or set(kw) - {f for f, _ in fields}:
                raise PyRaise(TypeError, node, f'{node.name}() got unexpected arguments')
            obj = Instance(forest, mod, node.name, genv, it)
            for i, (f, dflt) in enumerate(fields):
                if i < len(args):
                    val = args[i]
                elif f in kw:
                    val = kw[f]
                elif dflt is not None:
                    if isinstance(dflt, ast.Call) and (getattr(dflt.func, 'id', None) == 'field' or getattr(dflt.func, 'attr', None) == 'field'):
                        raise Unknown(f'dataclass {node.name}: field() defaults are outside the interpreter grammar')
                    val = ev(dflt, genv)
                else:
                    raise PyRaise(TypeError, node, f'{node.name}() missing argument {f!r}')
                setattr(obj, f, val)
            if forest.has_func(mod, f'{node.name}.__post_init__'):
                FuncVal(forest.func(mod, f'{node.name}.__post_init__'), genv, it)(obj)
            return obj
        return Instance.new(forest, mod, node.name, genv, it, *args, **kw)

    def __iter__(self):
        pc = self._tuple_class()
        if pc is None:
            raise TypeError(f'{self.name} is not iterable')
        return iter(pc)

    def __getattr__(self, name):
        if name.startswith('_'):
            raise AttributeError(name)
        forest, mod, node, genv, it = self._meta
        pc = self._tuple_class()
        if pc is not None:
            return getattr(pc, name)
        for st in node.body:
            if isinstance(st, ast.FunctionDef) and st.name == name:
                decos = [d.id if isinstance(d, ast.Name) else getattr(d, 'attr', None) for d in st.decorator_list]
                fv = FuncVal(st, genv, it)
                if 'staticmethod' in decos:
                    return fv
                if 'classmethod' in decos:
                    return lambda *a, **k: fv(self, *a, **k)
                return fv
            if isinstance(st, ast.Assign) and len(st.targets) == 1 and isinstance(st.targets[0], ast.Name) and st.targets[0].id == name:
                return ev(st.value, genv)
        raise AttributeError(name)

    def instancecheck(self, obj):
        pc = self._tuple_class()
        if pc is not None:
            return isinstance(obj, pc)
        return isinstance(obj, Instance) and object.__getattribute__(obj, '_meta')[2] == self.name


class _Super:
    """``super(C, cls)`` / ``super()`` inside an interpreted ``__new__`` of a tuple subclass."""
    _model = ('__new__',)

    def __init__(self, pycls):
        self._pycls = pycls

    def __getattribute__(self, name):
        if name == '__new__':
            base = object.__getattribute__(self, '_pycls').__mro__[1]
            return lambda cls, *a, **k: base.__new__(cls, *a, **k)
        return object.__getattribute__(self, name)


def _super(*args):
    if len(args) == 2:
        c = args[0]
        pc = c._tuple_class() if isinstance(c, ClassVal) else c
        if isinstance(pc, type):
            return _Super(pc)
    raise Unknown('super() outside the modelled use (super(Class, cls).__new__ of a tuple subclass)')


_evmod._BUILTINS.setdefault('super', _super)


class _AnyName:
    def __contains__(self, name):
        return True


ClassVal._model = _AnyName()


class Instance:
    """An instance of a repository class for the interpreter: attribute stores are kept, attribute loads fall back to the
    class body -- a `@property` is evaluated, a method is bound.  `__init__` is not run implicitly (call `new`)."""
    _model = _AnyName()

    def __init__(self, forest, mod, cls, genv, interp):
        object.__setattr__(self, '_meta', (forest, mod, cls, genv, interp))
        object.__setattr__(self, '_attrs', {})

    @classmethod
    def new(cls, forest, mod, clsname, genv, interp, *args, **kw):
        obj = cls(forest, mod, clsname, genv, interp)
        if forest.has_func(mod, f'{clsname}.__init__'):
            FuncVal(forest.func(mod, f'{clsname}.__init__'), genv, interp)(obj, *args, **kw)
        return obj

    def __getattr__(self, name):
        attrs = object.__getattribute__(self, '_attrs')
        if name in attrs:
            return attrs[name]
        forest, mod, clsname, genv, it = object.__getattribute__(self, '_meta')
        if name.startswith('__') and name not in ('__class__',):
            raise AttributeError(name)
        if forest.has_func(mod, f'{clsname}.{name}'):
            fn = forest.func(mod, f'{clsname}.{name}')
            fv = FuncVal(fn, genv, it)
            decos = [d.id if isinstance(d, ast.Name) else getattr(d, 'attr', None) for d in fn.decorator_list]
            if 'property' in decos:
                return fv(self)
            if 'staticmethod' in decos:
                return fv
            return lambda *a, **k: fv(self, *a, **k)
        # class-level constants
        for st in forest.cls(mod, clsname).body:
            if isinstance(st, ast.Assign) and len(st.targets) == 1 and isinstance(st.targets[0], ast.Name) and st.targets[0].id == name:
                return ev(st.value, genv)
        raise PyRaise(AttributeError, None, f'{clsname!r} object has no attribute {name!r}')

    def __setattr__(self, name, val):
        object.__getattribute__(self, '_attrs')[name] = val

    def _dunder(self, name, *args):
        forest, mod, clsname, genv, it = object.__getattribute__(self, '_meta')
        if not forest.has_func(mod, f'{clsname}.{name}'):
            raise TypeError(f'{clsname!r} object does not define {name}')
        return FuncVal(forest.func(mod, f'{clsname}.{name}'), genv, it)(self, *args)

    def __iter__(self):
        return iter(self._dunder('__iter__'))

    def __call__(self, *args, **kw):
        forest, mod, clsname, genv, it = object.__getattribute__(self, '_meta')
        if not forest.has_func(mod, f'{clsname}.__call__'):
            raise TypeError(f'{clsname!r} object is not callable')
        return FuncVal(forest.func(mod, f'{clsname}.__call__'), genv, it)(self, *args, **kw)

    def __len__(self):
        return self._dunder('__len__')

    def __getitem__(self, item):
        return self._dunder('__getitem__', item)

    def __bool__(self):
        forest, mod, clsname, genv, it = object.__getattribute__(self, '_meta')
        if forest.has_func(mod, f'{clsname}.__bool__'):
            return bool(self._dunder('__bool__'))
        if forest.has_func(mod, f'{clsname}.__len__'):
            return self._dunder('__len__') > 0
        return True


def module_namespace(forest, mod, interp, extra=None):
    """`mod` as an object whose attributes are its (callable) functions and folded constants: what `import mod` binds."""
    genv = callable_env(forest, mod, interp, extra)
    return _evmod.Namespace(mod, genv)
