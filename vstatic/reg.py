"""reg -- abstract matrices for the function-pattern writers (DESIGN 3.8).

The writers (make_matrix, add_timing_pattern, add_finder_patterns, add_alignment_patterns,
add_format_info, add_version_info) do not depend on user data.  They are interpreted by
:mod:`interp` on an *abstract* matrix whose cells hold constants (0, 1, the placeholder 2) or
symbolic bits ``Bit(word, k)`` of the format / version word, once per concrete symbol size (44 sizes,
which is exhaustive).  The result is the map cell -> abstract value, compared with the anchored
layout oracle of :mod:`iso`.
"""
from . import ev
from .interp import Interp, FuncVal, Raised
from .src import Unknown


class Bit:
    __slots__ = ('word', 'k')

    def __init__(self, word, k):
        self.word, self.k = word, k

    def __repr__(self):
        return f'bit{self.k}({self.word})'

    def __eq__(self, other):
        return isinstance(other, Bit) and (self.word, self.k) == (other.word, other.k)

    def __hash__(self):
        return hash((self.word, self.k))


class Word:
    """Symbolic machine word: ``(w >> k) & 1`` yields Bit(w, k)."""
    __slots__ = ('name', 'shift')

    def __init__(self, name, shift=0):
        self.name, self.shift = name, shift

    def __rshift__(self, k):
        if not isinstance(k, int):
            raise Unknown('symbolic shift amount')
        return Word(self.name, self.shift + k)

    def __and__(self, m):
        if m != 1:
            raise Unknown(f'mask {m} applied to a symbolic word (only & 1 is understood)')
        return Bit(self.name, self.shift)

    __rand__ = __and__

    def __repr__(self):
        return f'{self.name}>>{self.shift}'


class WordTable:
    """Stands in for a table of words (FORMAT_INFO, VERSION_INFO): remembers the index used."""

    def __init__(self, name, length):
        self.name, self.length = name, length
        self.used = []

    def __getitem__(self, idx):
        if not isinstance(idx, int):
            raise Unknown(f'{self.name} indexed by a non-constant')
        self.used.append(idx)
        return Word((self.name, idx))

    def __len__(self):
        return self.length


class Row:
    _model = ()

    def __init__(self, cells, log=None, r=None):
        self.cells = list(cells.cells) if isinstance(cells, Row) else list(cells)
        self.log = log
        self.r = r

    def __len__(self):
        return len(self.cells)

    def __iter__(self):
        return iter(self.cells)

    def __getitem__(self, i):
        if isinstance(i, slice):
            return list(self.cells[i])
        return self.cells[i]

    def __setitem__(self, i, v):
        n = len(self.cells)
        if isinstance(i, slice):
            vals = list(v)
            idxs = list(range(*i.indices(n)))
            if len(idxs) != len(vals) and (i.step not in (None, 1)):
                raise Raised(None, ValueError, f'attempt to assign sequence of size {len(vals)} to extended slice of size {len(idxs)}')
            # as a bytearray does: a slice store of another length changes the length of the row (the layout comparison then
            # reports the row as not having the width of the symbol)
            self.cells[i] = vals
        else:
            if not isinstance(i, int):
                raise Unknown('non-constant column index')
            if not -n <= i < n:
                raise Unknown(f'column index {i} out of range for width {n}')
            self.cells[i] = v

    def __eq__(self, other):
        return isinstance(other, Row) and self.cells == other.cells


class Matrix:
    _model = ()

    def __init__(self, rows):
        self.rows = [r if isinstance(r, Row) else Row(r) for r in rows]

    def __len__(self):
        return len(self.rows)

    def __iter__(self):
        return iter(self.rows)

    def __getitem__(self, i):
        if isinstance(i, slice):
            return self.rows[i]
        if not isinstance(i, int):
            raise Unknown('non-constant row index')
        if not -len(self.rows) <= i < len(self.rows):
            raise Unknown(f'row index {i} out of range for height {len(self.rows)}')
        return self.rows[i]

    def grid(self):
        return [list(r.cells) for r in self.rows]


def model_env():
    """Overrides that make ``tuple(bytearray(row) for ...)`` build the abstract matrix."""
    def _tuple(it=()):
        items = list(it)
        if items and all(isinstance(x, Row) for x in items):
            return Matrix(items)
        return tuple(items)
    return {'bytearray': Row, 'tuple': _tuple}


class Builder:
    """Interprets the writers for one symbol size."""

    def __init__(self, forest):
        self.forest = forest
        self.interp = Interp()
        # repository functions are callable from each other inside the interpreter (functions imported from another module run
        # in the globals of that module)
        from .interp import callable_env
        self.genv = callable_env(forest, 'encoder', self.interp, model_env())

    def fn(self, name):
        return self.genv[name]

    def with_consts(self, **over):
        """A copy of the global env in which some attributes of `consts` are replaced."""
        ns = self.genv['consts']
        vals = dict(ns._values)
        vals.update(over)
        genv = dict(self.genv)
        genv['consts'] = ev.Namespace('consts', vals, ns._failed)
        for k, v in list(genv.items()):
            if isinstance(v, FuncVal) and v.genv is self.genv:
                genv[k] = FuncVal(v.node, genv, self.interp)
        return genv
