"""core -- rule registry, obligations, three-valued verdicts, known findings, evidence, exit codes."""
import hashlib
import json
import os
import sys
import time
import traceback

from . import src
from .src import Unknown

VERIF = os.path.dirname(os.path.dirname(os.path.abspath(__file__)))
KNOWN_FINDINGS = os.path.join(VERIF, 'known_findings.json')
EVIDENCE_DIR = os.path.join(VERIF, 'evidence')

RULES = {}      # property id -> list of Rule


class Rule:
    def __init__(self, prop, rid, fn, min_inst, title, necessity=''):
        self.prop, self.rid, self.fn, self.min_inst = prop, rid, fn, min_inst
        self.title, self.necessity = title, necessity

    @property
    def full(self):
        return f'{self.prop}.{self.rid}'


def rule(prop, rid, min_inst, title, necessity=''):
    def deco(fn):
        RULES.setdefault(prop, []).append(Rule(prop, rid, fn, min_inst, title, necessity))
        return fn
    return deco


class Ob:
    """One discharged (or failed) obligation = one rule instance."""
    __slots__ = ('rule', 'key', 'where', 'line', 'ok', 'got', 'want', 'nontrivial', 'note')

    def __init__(self, key, ok, where='', line=0, got='', want='', nontrivial=True, note=''):
        self.rule = None
        self.key, self.ok, self.where, self.line = key, bool(ok), where, line
        self.got, self.want, self.nontrivial, self.note = str(got), str(want), nontrivial, note

    def as_dict(self):
        return {'rule': self.rule, 'instance': self.key, 'where': self.where, 'line': self.line,
                'extracted': self.got[:300], 'required': self.want[:300],
                'verdict': 'HOLDS' if self.ok else 'VIOLATED', **({'note': self.note} if self.note else {})}


def ob(key, ok, node=None, where=None, got='', want='', nontrivial=True, note=''):
    """Convenience constructor: `node` supplies where/line."""
    ln = src.line(node) if node is not None else 0
    wh = where or (src.qualname_of(node) if node is not None else '')
    return Ob(key, ok, wh, ln, got, want, nontrivial, note)


class Fx:
    """What a rule function receives."""

    def __init__(self, forest, tier='quick'):
        self.forest = forest
        self.tier = tier
        self.info = {}      # free-form facts a rule wants echoed in the evidence

    def fn(self, mod, qual):
        return self.forest.func(mod, qual)


class RuleResult:
    def __init__(self, rule):
        self.rule = rule
        self.obs = []
        self.unknown = None     # reason string
        self.wall = 0.0


def run_rules(forest, prop, tier='quick', only=None):
    from . import canon
    try:
        forest = canon.apply(forest)
    except Unknown:
        raise
    except Exception as ex:     # the canonicaliser is an optimisation of precision: if it trips, analyse the raw tree
        forest.canon_info = {'error': f'{type(ex).__name__}: {ex}'}
    fx = Fx(forest, tier)
    fx.info['canonicalisation (new helpers inlined / new constants folded, relative to the reference inventory)'] = getattr(forest, 'canon_info', None) or 'nothing new'
    results = []
    for r in RULES.get(prop, []):
        if only and r.rid not in only:
            continue
        rr = RuleResult(r)
        t0 = time.time()
        obs = []
        try:
            for o in r.fn(fx):
                o.rule = r.full
                obs.append(o)
            if len(obs) < r.min_inst:
                rr.unknown = (f'matched {len(obs)} instance(s), fewer than the frozen minimum {r.min_inst} '
                              '(an anchor was restructured or removed)')
        except Unknown as u:
            # obligations decided before the rule lost its footing stay decided
            rr.unknown = str(u)
        except RecursionError as ex:  # pragma: no cover
            rr.unknown = f'internal error: {type(ex).__name__}'
        except Exception as ex:  # internal error of a rule: analysis broken, never a verdict
            rr.unknown = f'internal error: {type(ex).__name__}: {ex} @ {traceback.format_exc().strip().splitlines()[-(40 if os.environ.get("TB") else 3):]}'
        rr.obs = obs
        rr.wall = time.time() - t0
        results.append(rr)
    return fx, results


# -- known findings ---------------------------------------------------------------------------

def load_known():
    try:
        with open(KNOWN_FINDINGS, encoding='utf-8') as f:
            data = json.load(f)
    except FileNotFoundError:
        return []
    return data.get('findings', [])


def finding_matches(entry, o):
    return (entry.get('status') == 'known' and entry.get('rule') == o.rule
            and entry.get('where') == o.where and entry.get('instance') == o.key)


# -- reporting ----------------------------------------------------------------------------------

def summarize(prop, tier, results, fx, t0, extra_cov=None, level='other', out=sys.stdout, write=True,
              extra_violations=0, extra_unknown=None):
    known = load_known()
    n_ob = n_ok = n_nontriv = 0
    violations, known_hits, unknowns = [], [], []
    samples = []
    per_rule = []
    seen_keys = set()
    for rr in results:
        r = rr.rule
        holds = sum(1 for o in rr.obs if o.ok)
        per_rule.append({'rule': r.full, 'title': r.title, 'instances': len(rr.obs), 'hold': holds,
                         'min_instances': r.min_inst, 'status': 'UNKNOWN' if rr.unknown else
                         ('HOLDS' if holds == len(rr.obs) else 'VIOLATED'),
                         **({'reason': rr.unknown} if rr.unknown else {}), 'wall_s': round(rr.wall, 3)})
        print(f'[{r.full}] {r.title}: {len(rr.obs)} obligation(s), {holds} hold'
              + (f'  -- UNKNOWN: {rr.unknown}' if rr.unknown else ''), file=out)
        if rr.unknown:
            unknowns.append((r, rr.unknown))
        for o in rr.obs:
            n_ob += 1
            k = (o.rule, o.where, o.key)
            if o.nontrivial and k not in seen_keys:
                n_nontriv += 1
            seen_keys.add(k)
            if o.ok:
                n_ok += 1
            else:
                hit = next((e for e in known if finding_matches(e, o)), None)
                (known_hits if hit else violations).append((o, hit))
        shown = 0
        for o in rr.obs:
            if shown < 2 or not o.ok:
                samples.append(o.as_dict())
                shown += o.ok
    printed = set()
    for o, hit in known_hits:
        # one line per listed finding and instance (an instance may be met by several obligations, e.g. once per symbol size)
        k = (hit.get('id'), o.rule, o.where, o.key)
        if k in printed:
            continue
        printed.add(k)
        print(f'KNOWN-FINDING: property={prop} rule={o.rule} where={o.where}:{o.line} instance={o.key} -- {hit.get("what", "")}', file=out)
    replay_paths = []
    for o, _ in violations:
        path = write_replay(prop, o) if write else '-'
        replay_paths.append(path)
        print(f'VIOLATION property={prop} replay={path}', file=out)
        print(f'  rule={o.rule} where={o.where}:{o.line} instance={o.key}\n'
              f'    extracted: {o.got[:400]}\n    required:  {o.want[:400]}' + (f'\n    note: {o.note}' if o.note else ''), file=out)
    for r, why in unknowns:
        print(f'ANALYSIS-ERROR rule={r.full} reason={why}', file=out)
    for why in (extra_unknown or []):
        print(f'ANALYSIS-ERROR {why}', file=out)
    cov = {
        'explanation': EXPLANATIONS.get(prop, ''),
        'obligations': n_ob, 'discharged': n_ok,
        'evaluations': n_ob, 'distinct_nontrivial': n_nontriv,
        'rule': 'one obligation = one instance of a structural rule (rule id, function, normalised construct) '
                'extracted from the current source; non-trivial = compares at least one value/form extracted '
                'from the repository with an independent oracle or a sibling extraction; distinct by '
                '(rule, function, instance key)',
        'samples': samples[:40],
        'exhaustive': True,
        'rules': per_rule,
        'functions_analysed': sum(1 for _ in fx.forest.functions()),
        'source_digest': fx.forest.digest,
        'known_findings': [{'rule': o.rule, 'where': o.where, 'instance': o.key, 'what': h.get('what', '')}
                           for o, h in known_hits],
        'info': fx.info,
    }
    if extra_cov:
        for k, v in extra_cov.items():
            if k in ('evaluations',):
                cov[k] += v
            else:
                cov[k] = v
    nviol = len(violations) + extra_violations
    evidence = {
        'property_id': prop, 'tier': tier, 'seed': int(os.environ.get('VERIF_SEED', '0') or 0),
        'level': level, 'coverage': cov,
        'assumptions': [
            'CPython 3.12 semantics of the constructs analysed; no monkey-patching of segno at run time',
            'the oracles in vstatic/iso.py state ISO/IEC 18004:2015 (and EPC069-12 v002) correctly',
            'only the named structural necessary conditions are decided; the behavioural remainder '
            '(see coverage.explanation) is not decided by this check',
        ],
        'wall_s': round(time.time() - t0, 3), 'violations': nviol,
    }
    if write:
        os.makedirs(EVIDENCE_DIR, exist_ok=True)
        tmp = os.path.join(EVIDENCE_DIR, f'{prop}.json.tmp')
        with open(tmp, 'w', encoding='utf-8') as f:
            json.dump(evidence, f, indent=1, default=str)
        os.replace(tmp, os.path.join(EVIDENCE_DIR, f'{prop}.json'))
    if nviol:
        code = 1
    elif unknowns or extra_unknown:
        code = 2
    else:
        code = 0
    print(f'{prop} {tier}: {n_ob} obligations, {n_ok} hold, {len(known_hits)} known finding(s), '
          f'{nviol} violation(s), {len(unknowns) + len(extra_unknown or [])} analysis error(s) '
          f'-> exit {code}', file=out)
    return code, evidence


def write_replay(prop, o):
    d = os.path.join(EVIDENCE_DIR, 'replay')
    os.makedirs(d, exist_ok=True)
    h = hashlib.sha1(f'{o.rule}|{o.where}|{o.key}'.encode()).hexdigest()[:10]
    path = os.path.join(d, f'{prop}-{o.rule.split(".")[-1]}-{h}.json')
    with open(path, 'w', encoding='utf-8') as f:
        json.dump({'property': prop, **o.as_dict()}, f, indent=1)
    return path


EXPLANATIONS = {}


def explain(prop, text):
    EXPLANATIONS[prop] = ' '.join(text.split())
