"""mut -- in-memory mutation audit and benign-variant audit (thorough tier; DESIGN 3.11, section 8).

Every rule is a function of syntax trees, so a variant of the repository can be analysed without touching
the disk: clone one module tree, apply one edit, run the property's rules on the edited forest.

* mutation audit: first-order mutants inside the property's anchors (functions and tables); reports which rule
  kills which mutant, lists survivors (equivalent mutants, mutants in regions DESIGN declares undecided, or gaps);
* seeded-variant replay: the independently produced breaking changes kept under /verif/seeded/<prop>-*/patch.diff are
  applied to the module sources in memory; every one of them must still be reported (a positive control that stops
  firing makes the run exit 2);
* benign-variant audit: behaviour-preserving rewrites (formatting round trip, comparison orientation, commuted
  constant additions, renamed locals) must never be reported as violations (that would be a false alarm: exit 2).

The exit code of the thorough tier is otherwise decided by the real tree only.
"""
import ast
import concurrent.futures as cf
import copy
import glob
import json
import os
import random
import re

from . import core, src
from .src import Forest, Unknown

from .anchors import ANCHORS  # noqa: E402

CMP_FLIP = {ast.Lt: ast.LtE, ast.LtE: ast.Lt, ast.Gt: ast.GtE, ast.GtE: ast.Gt, ast.Eq: ast.NotEq, ast.NotEq: ast.Eq,
            ast.Is: ast.IsNot, ast.IsNot: ast.Is, ast.In: ast.NotIn, ast.NotIn: ast.In}
BIN_SWAP = {ast.Add: ast.Sub, ast.Sub: ast.Add, ast.Mult: ast.FloorDiv, ast.FloorDiv: ast.Mult, ast.LShift: ast.RShift,
            ast.RShift: ast.LShift, ast.BitAnd: ast.BitOr, ast.BitOr: ast.BitAnd, ast.Mod: ast.FloorDiv}


def _in_anchor(qual, prefixes):
    return any(qual == p or qual.startswith(p + '.') or (p.endswith('_') and qual.startswith(p)) for p in prefixes)


def _sites(tree, modname, fn_prefixes, table_prefixes):
    """Deterministic list of (kind, path) mutation sites; path = list of child indexes from the module root."""
    sites = []

    def is_doc(node, parent, idx):
        return isinstance(node, ast.Expr) and isinstance(node.value, ast.Constant) and isinstance(node.value.value, str)

    def walk(node, path, active, qual):
        for fld, val in ast.iter_fields(node):
            if isinstance(val, list):
                for i, c in enumerate(val):
                    if isinstance(c, ast.AST):
                        visit(c, path + [(fld, i)], active, qual, node)
            elif isinstance(val, ast.AST):
                visit(val, path + [(fld, None)], active, qual, node)

    def visit(node, path, active, qual, parent):
        q = qual
        act = active
        if isinstance(node, (ast.FunctionDef, ast.ClassDef)):
            q = f'{qual}.{node.name}' if qual else node.name
            act = _in_anchor(q, fn_prefixes)
        elif isinstance(parent, ast.Module) and isinstance(node, ast.Assign) and node.targets and isinstance(node.targets[0], ast.Name):
            act = any(node.targets[0].id == p or (p.endswith('_') and node.targets[0].id.startswith(p)) for p in table_prefixes)
        if act:
            if isinstance(node, ast.Expr) and isinstance(node.value, ast.Constant) and isinstance(node.value.value, str):
                return      # docstring
            if isinstance(node, ast.Compare) and len(node.ops) >= 1:
                for k, op in enumerate(node.ops):
                    if type(op) in CMP_FLIP:
                        sites.append(('cmp', path, k))
            if isinstance(node, ast.BinOp) and type(node.op) in BIN_SWAP:
                sites.append(('bin', path, None))
            if isinstance(node, ast.BoolOp):
                sites.append(('bool', path, None))
            if isinstance(node, ast.UnaryOp) and isinstance(node.op, ast.Not):
                sites.append(('not', path, None))
            if isinstance(node, ast.Constant) and isinstance(node.value, int) and not isinstance(node.value, bool):
                sites.append(('int+', path, None))
                if node.value != 0:
                    sites.append(('int-', path, None))
            if isinstance(node, ast.Raise) and node.exc is not None:
                sites.append(('noraise', path, None))
            if isinstance(node, ast.Expr) and isinstance(node.value, ast.Call):
                sites.append(('nocall', path, None))
            if isinstance(node, ast.Assign) and len(node.targets) == 1 and isinstance(node.targets[0], ast.Name) and isinstance(node.value, ast.Call) \
                    and any(isinstance(a, ast.Name) and a.id == node.targets[0].id for a in node.value.args):
                sites.append(('noassign', path, None))
            if isinstance(node, ast.Call):
                kws = [k for k in node.keywords if k.arg and isinstance(k.value, ast.Name)]
                for i in range(len(kws) - 1):
                    sites.append(('kwswap', path, (kws[i].arg, kws[i + 1].arg)))
            if isinstance(node, ast.If) and node.orelse == [] and all(isinstance(s, (ast.Raise, ast.Assign, ast.Expr, ast.AugAssign, ast.Return)) for s in node.body):
                sites.append(('noif', path, None))
            if isinstance(node, ast.FunctionDef) and modname in ('encoder', 'writers', 'utils', 'helpers'):
                sites.append(('globalwrite', path, None))
                sites.append(('memoize', path, None))
            if isinstance(node, ast.ListComp) and isinstance(node.elt, ast.Subscript) and isinstance(node.elt.slice, ast.Slice) \
                    and node.elt.slice.lower is None and node.elt.slice.upper is None and len(node.generators) == 1:
                sites.append(('aliasrows', path, None))
            if isinstance(node, ast.Call) and isinstance(node.func, ast.Name) and node.func.id in ('bytearray', 'list', 'dict') and len(node.args) == 1 \
                    and isinstance(node.args[0], ast.Name) and not node.keywords:
                sites.append(('nocopy', path, None))
        walk(node, path, act, q)
    walk(tree, [], False, '')
    return sites


def _get(tree, path):
    node = tree
    for fld, idx in path:
        node = getattr(node, fld)
        if idx is not None:
            node = node[idx]
    return node


def _set(tree, path, new):
    parent = _get(tree, path[:-1])
    fld, idx = path[-1]
    if idx is None:
        setattr(parent, fld, new)
    else:
        getattr(parent, fld)[idx] = new


def apply_mutation(tree, site):
    """Mutate a deep copy of `tree` at `site`; returns (new tree, description)."""
    kind, path, extra = site
    t = copy.deepcopy(tree)
    node = _get(t, path)
    line = getattr(node, 'lineno', 0)
    before = ast.unparse(node)[:70]
    if kind == 'cmp':
        node.ops[extra] = CMP_FLIP[type(node.ops[extra])]()
    elif kind == 'bin':
        node.op = BIN_SWAP[type(node.op)]()
    elif kind == 'bool':
        node.op = ast.Or() if isinstance(node.op, ast.And) else ast.And()
    elif kind == 'not':
        _set(t, path, node.operand)
    elif kind == 'int+':
        node.value = node.value + 1
    elif kind == 'int-':
        node.value = node.value - 1
    elif kind in ('noraise', 'nocall', 'noassign'):
        _set(t, path, ast.copy_location(ast.Pass(), node))
    elif kind == 'noif':
        _set(t, path, ast.copy_location(ast.Pass(), node))
    elif kind == 'globalwrite':
        stmt = ast.parse("consts.MICRO_VERSION_MAPPING['__seen__'] = 1" if True else '').body[0]
        node.body.insert(1 if (node.body and isinstance(node.body[0], ast.Expr) and isinstance(node.body[0].value, ast.Constant)) else 0, stmt)
    elif kind == 'memoize':
        node.decorator_list.insert(0, ast.parse('functools.lru_cache(maxsize=64)', mode='eval').body)
    elif kind == 'aliasrows':
        _set(t, path, ast.copy_location(ast.Call(func=ast.Name(id='list', ctx=ast.Load()), args=[node.generators[0].iter], keywords=[]), node))
    elif kind == 'nocopy':
        _set(t, path, node.args[0])
    elif kind == 'kwswap':
        a, b = extra
        ka = [k for k in node.keywords if k.arg == a][0]
        kb = [k for k in node.keywords if k.arg == b][0]
        ka.value = copy.deepcopy(kb.value)
    if kind in ('globalwrite', 'memoize'):
        before = f'def {node.name}(...)'
        after = {'globalwrite': "+ consts.MICRO_VERSION_MAPPING['__seen__'] = 1", 'memoize': '+ @functools.lru_cache(maxsize=64)'}[kind]
    else:
        after = ast.unparse(_get(t, path))[:70]
    ast.fix_missing_locations(t)
    return t, f'{kind} @ line {line}: `{before}` -> `{after}`'


# -- workers -----------------------------------------------------------------------------------
_BASE = None


def _init(root):
    global _BASE
    os.environ['VERIF_REPO'] = root
    from . import props  # noqa: F401
    _BASE = Forest.load(root)


def _verdict(forest, prop):
    fx, results = core.run_rules(forest, prop, 'quick')
    known = core.load_known()
    viol, unk = [], []
    for rr in results:
        if rr.unknown:
            unk.append(rr.rule.full)
        for o in rr.obs:
            if not o.ok and not any(core.finding_matches(e, o) for e in known):
                viol.append(o.rule)
    return sorted(set(viol)), sorted(set(unk))


class _Timeout(BaseException):     # not an Exception: no handler of the analysed-code interpreter may swallow it
    pass


def _alarm(signum, frame):
    raise _Timeout()


def _with_timeout(fn, seconds):
    import signal
    old = signal.signal(signal.SIGALRM, _alarm)
    signal.setitimer(signal.ITIMER_REAL, seconds)
    try:
        return fn()
    finally:
        signal.setitimer(signal.ITIMER_REAL, 0)
        signal.signal(signal.SIGALRM, old)


MUTANT_TIMEOUT = float(os.environ.get('VERIF_MUTANT_TIMEOUT', '25'))


def _run_mutant(args):
    prop, modname, site = args
    desc = f'{site[0]} @ {site[1][-2:]}'
    try:
        t, desc = apply_mutation(_BASE.trees[modname], site)
        f = _BASE.with_tree(modname, t)
        viol, unk = _with_timeout(lambda: _verdict(f, prop), MUTANT_TIMEOUT)
        return (modname, desc, viol, unk)
    except _Timeout:
        return (modname, desc, [], [f'analysis of this mutant exceeded {MUTANT_TIMEOUT:.0f}s (runaway loop in the mutated code)'])
    except Exception as ex:  # pragma: no cover
        return (modname, desc, [], [f'worker error: {type(ex).__name__}: {ex}'])


def _run_source_variant(args):
    prop, name, sources = args
    try:
        f = _BASE
        for modname, text in sources.items():
            f = f.with_source(modname, text)
        viol, unk = _verdict(f, prop)
        return (name, viol, unk)
    except SyntaxError as ex:
        return (name, [], [f'variant does not parse: {ex}'])
    except Exception as ex:  # pragma: no cover
        return (name, [], [f'worker error: {type(ex).__name__}: {ex}'])


# -- unified diff in memory ----------------------------------------------------------------------

def apply_patch_text(sources, patch_text, skip_failing=False, skipped=None):
    """Apply a unified diff (git format) to {module name: source}; returns the new dict (only changed modules)."""
    out = {}
    files = re.split(r'^diff --git ', patch_text, flags=re.M)[1:]
    for f in files:
        m = re.search(r'^\+\+\+ [ab]/segno/(\w+)\.py[ \t]*$', f, flags=re.M)
        if not m:
            continue
        mod = m.group(1)
        lines = sources[mod].split('\n')
        hunks = re.split(r'^@@ ', f, flags=re.M)[1:]
        offset = 0
        for h in hunks:
            hm = re.match(r'-(\d+)(?:,(\d+))? \+(\d+)(?:,(\d+))? @@.*\n', h)
            start = int(hm.group(1))
            body = h[hm.end():].split('\n')
            old, new = [], []
            for ln in body:
                if ln.startswith('\\'):
                    continue
                if ln.startswith('-'):
                    old.append(ln[1:])
                elif ln.startswith('+'):
                    new.append(ln[1:])
                elif ln.startswith(' ') or ln == '':
                    if ln == '' and (len(old) >= (int(hm.group(2) or 1)) ):
                        continue
                    old.append(ln[1:])
                    new.append(ln[1:])
            n_old = int(hm.group(2) or 1)
            old, new = old[:n_old] if len(old) > n_old else old, new
            pos = start - 1 + offset
            if lines[pos:pos + len(old)] != old:
                # search nearby
                found = None
                for d in range(-30, 31):
                    if lines[pos + d:pos + d + len(old)] == old:
                        found = pos + d
                        break
                if found is None:
                    # the surrounding code changed since the patch was made (a later fix in /repo): retry with less context,
                    # as `patch --fuzz` does -- only lines that are context on both sides are dropped
                    lead = 0
                    while lead < min(len(old), len(new)) and old[lead] == new[lead]:
                        lead += 1
                    trail = 0
                    while trail < min(len(old), len(new)) - lead and old[-1 - trail] == new[-1 - trail]:
                        trail += 1
                    for cut_l, cut_t in ((a, b) for tot in range(1, 7) for a in range(0, min(lead, tot) + 1) for b in [tot - a] if b <= trail):
                        o2 = old[cut_l:len(old) - cut_t]
                        if not o2:
                            continue
                        for d in range(-60, 61):
                            p2 = pos + cut_l + d
                            if p2 >= 0 and lines[p2:p2 + len(o2)] == o2:
                                found = p2
                                old, new = o2, new[cut_l:len(new) - cut_t]
                                break
                        if found is not None:
                            break
                if found is None:
                    if skip_failing:
                        if skipped is not None:
                            skipped.append(f'{mod}.py @@ -{start}')
                        continue
                    raise Unknown(f'hunk for segno/{mod}.py does not apply in memory')
                pos = found
            lines[pos:pos + len(old)] = new
            offset += len(new) - len(old)
        out[mod] = '\n'.join(lines)
    if not out and not skip_failing:
        raise ValueError('the patch changes no module of the package (no hunk was applied)')
    return out


# -- benign variants --------------------------------------------------------------------------------

class _FlipOrientation(ast.NodeTransformer):
    """a < b  ->  b > a   (single comparisons of side-effect-free operands only)"""
    SW = {ast.Lt: ast.Gt, ast.Gt: ast.Lt, ast.LtE: ast.GtE, ast.GtE: ast.LtE, ast.Eq: ast.Eq, ast.NotEq: ast.NotEq}

    def visit_Compare(self, node):
        self.generic_visit(node)
        if len(node.ops) == 1 and type(node.ops[0]) in self.SW and not any(isinstance(n, ast.Call) for n in ast.walk(node)):
            return ast.copy_location(ast.Compare(left=node.comparators[0], ops=[self.SW[type(node.ops[0])]()], comparators=[node.left]), node)
        return node


class _CommuteConst(ast.NodeTransformer):
    """x + c -> c + x, x * c -> c * x for integer constants c (numbers only: bytes/str concatenation is left alone)"""

    def visit_BinOp(self, node):
        self.generic_visit(node)
        if isinstance(node.op, (ast.Add, ast.Mult)) and isinstance(node.right, ast.Constant) and isinstance(node.right.value, int) \
                and not isinstance(node.right.value, bool) and not isinstance(node.left, (ast.Constant, ast.List, ast.Tuple, ast.JoinedStr)):
            return ast.copy_location(ast.BinOp(left=node.right, op=node.op, right=node.left), node)
        return node


class _RenameLocals(ast.NodeTransformer):
    """Rename loop variables `i`, `j`, `k`, `n`, `r` consistently inside each top-level function that does not use them as parameters
    and has no nested function (closures would need care)."""

    def visit_FunctionDef(self, node):
        if any(isinstance(n, (ast.FunctionDef, ast.Lambda)) for n in ast.walk(node) if n is not node):
            return node
        params = {a.arg for a in node.args.args + node.args.kwonlyargs}
        loopvars = set()
        for n in ast.walk(node):
            if isinstance(n, (ast.For, ast.comprehension)):
                for t in ast.walk(n.target):
                    if isinstance(t, ast.Name) and len(t.id) == 1:
                        loopvars.add(t.id)
        names = {n.id for n in ast.walk(node) if isinstance(n, ast.Name)}
        todo = {v: f'{v}_idx' for v in loopvars - params if f'{v}_idx' not in names}
        for n in ast.walk(node):
            if isinstance(n, ast.Name) and n.id in todo:
                n.id = todo[n.id]
        return node


class _RenameAllLocals(ast.NodeTransformer):
    """Rename every local variable that is *assigned* in a top-level function or method (parameters and names the
    function only reads are left alone) to <name>_v, consistently through nested functions and lambdas."""

    def _rename(self, node):
        params = set()
        for n in ast.walk(node):
            if isinstance(n, (ast.FunctionDef, ast.Lambda)):
                a = n.args
                params |= {x.arg for x in a.posonlyargs + a.args + a.kwonlyargs}
                if a.vararg:
                    params.add(a.vararg.arg)
                if a.kwarg:
                    params.add(a.kwarg.arg)
        assigned = set()
        inner_defs = {n.name for n in ast.walk(node) if isinstance(n, ast.FunctionDef) and n is not node}
        for n in ast.walk(node):
            if isinstance(n, ast.Name) and isinstance(n.ctx, ast.Store):
                assigned.add(n.id)
            elif isinstance(n, (ast.Global, ast.Nonlocal)):
                return node
        todo = {v: v + '_v' for v in assigned - params - inner_defs if not v.startswith('__')}
        for n in ast.walk(node):
            if isinstance(n, ast.Name) and n.id in todo:
                n.id = todo[n.id]
        return node

    def visit_FunctionDef(self, node):
        return self._rename(node)

    def visit_ClassDef(self, node):
        node.body = [self._rename(s) if isinstance(s, ast.FunctionDef) else s for s in node.body]
        return node


BENIGN = {
    'renamed-all-locals': lambda tree: ast.fix_missing_locations(_RenameAllLocals().visit(copy.deepcopy(tree))),
    'format-roundtrip': lambda tree: ast.parse(ast.unparse(tree)),
    'comparison-orientation': lambda tree: ast.fix_missing_locations(_FlipOrientation().visit(copy.deepcopy(tree))),
    'commuted-constants': lambda tree: ast.fix_missing_locations(_CommuteConst().visit(copy.deepcopy(tree))),
    'renamed-loop-variables': lambda tree: ast.fix_missing_locations(_RenameLocals().visit(copy.deepcopy(tree))),
}


def _run_benign(args):
    prop, name, mods = args
    try:
        f = _BASE
        for m in mods:
            f = f.with_tree(m, BENIGN[name](_BASE.trees[m]))
        viol, unk = _verdict(f, prop)
        return (name, viol, unk)
    except Exception as ex:  # pragma: no cover
        return (name, [], [f'worker error: {type(ex).__name__}: {ex}'])


# -- the audit ------------------------------------------------------------------------------------------

def audit(forest, prop, results, jobs=8, limit=None):
    root = forest.root or src.repo_root()
    limit = limit or int(os.environ.get('VERIF_MUTANTS', '480'))
    seed = int(os.environ.get('VERIF_SEED', '0') or 0)
    fn_anchor, tab_anchor = ANCHORS.get(prop, ({}, {}))
    tasks = []
    for modname in sorted(set(fn_anchor) | set(tab_anchor)):
        tree = forest.trees[modname]
        sites = _sites(tree, modname, fn_anchor.get(modname, []), tab_anchor.get(modname, []))
        tasks += [(prop, modname, s) for s in sites]
    total_sites = len(tasks)
    if len(tasks) > limit:
        rnd = random.Random(seed)
        tasks = rnd.sample(tasks, limit)
    sources = forest.sources
    seeded = []
    expected = {}
    for d in sorted(glob.glob(os.path.join(core.VERIF, 'seeded', f'{prop}-*'))):
        try:
            meta = json.load(open(os.path.join(d, 'meta.json'), encoding='utf-8'))
            expected[os.path.basename(d)] = meta.get('static_check', {}).get('verdict', 'VIOLATION')
        except (OSError, ValueError):
            expected[os.path.basename(d)] = 'VIOLATION'
        try:
            patch = open(os.path.join(d, 'patch.diff'), encoding='utf-8').read()
            seeded.append((prop, os.path.basename(d), apply_patch_text(sources, patch)))
        except (OSError, Unknown) as ex:
            seeded.append((prop, os.path.basename(d), None))
    mods = sorted(set(fn_anchor) | set(tab_anchor))
    benign = [(prop, name, mods) for name in BENIGN]
    # behaviour-preserving refactorings written by independent sub-agents (benign/<id>/patch.diff): negative controls
    refactorings = []
    for d in sorted(glob.glob(os.path.join(core.VERIF, 'benign', 'C*-*'))):
        if os.environ.get('VERIF_ALL_REFACTORINGS') != '1' and not os.path.basename(d).startswith(prop + '-'):
            continue
        try:
            patch = open(os.path.join(d, 'patch.diff'), encoding='utf-8').read()
            refactorings.append((prop, 'refactoring ' + os.path.basename(d), apply_patch_text(sources, patch)))
        except (OSError, Unknown):
            refactorings.append((prop, 'refactoring ' + os.path.basename(d), None))
    unknown_msgs = []
    killed, unknown, survived = [], [], []
    by_rule = {}
    with cf.ProcessPoolExecutor(max_workers=max(1, jobs), initializer=_init, initargs=(root,)) as ex:
        fut_m = ex.map(_run_mutant, tasks, chunksize=4)
        fut_s = [ex.submit(_run_source_variant, a) for a in seeded if a[2] is not None]
        fut_b = [ex.submit(_run_benign, a) for a in benign]
        fut_r = [ex.submit(_run_source_variant, a) for a in refactorings if a[2] is not None]
        for modname, desc, viol, unk in fut_m:
            rec = {'module': modname, 'mutant': desc}
            if viol:
                killed.append(dict(rec, killed_by=viol))
                for r in viol:
                    by_rule[r] = by_rule.get(r, 0) + 1
            elif unk:
                unknown.append(dict(rec, analysis_error_in=unk))
            else:
                survived.append(rec)
        seeded_res = []
        for fu in fut_s:
            name, viol, unk = fu.result()
            seeded_res.append({'variant': name, 'reported_by': viol, 'analysis_error_in': unk, 'recorded_verdict': expected.get(name)})
            if not viol and expected.get(name) == 'VIOLATION':
                unknown_msgs.append(f'seeded variant {name} is no longer reported as a violation (positive control lost)')
        for a in seeded:
            if a[2] is None:
                seeded_res.append({'variant': a[1], 'reported_by': [], 'analysis_error_in': ['patch does not apply to the current tree']})
        benign_res = []
        for fu in fut_b:
            name, viol, unk = fu.result()
            benign_res.append({'variant': name, 'violations': viol, 'analysis_error_in': unk})
            if viol:
                unknown_msgs.append(f'benign variant {name} is reported as a violation by {viol} (false alarm)')
        for fu in fut_r:
            name, viol, unk = fu.result()
            benign_res.append({'variant': name, 'violations': viol, 'analysis_error_in': unk})
            if viol:
                unknown_msgs.append(f'{name} (behaviour-preserving) is reported as a violation by {viol} (false alarm)')
        for a in refactorings:
            if a[2] is None:
                benign_res.append({'variant': a[1], 'violations': [], 'analysis_error_in': ['patch does not apply to the current tree']})
    n = len(tasks)
    print(f'[mutation audit] {prop}: {n} mutants analysed of {total_sites} sites ({len(killed)} reported as violations, {len(unknown)} analysis-errors, '
          f'{len(survived)} not reported); seeded variants reported: {sum(1 for s in seeded_res if s["reported_by"])}/{len(seeded_res)}; '
          f'benign variants flagged: {sum(1 for b in benign_res if b["violations"])}/{len(benign_res)} '
          f'(analysis-error on {sum(1 for b in benign_res if b["analysis_error_in"])})')
    cov = {
        'evaluations': n + len(seeded_res) + len(benign_res),
        'mutants': n, 'mutation_sites_in_anchors': total_sites, 'mutants_reported': len(killed), 'mutants_analysis_error': len(unknown),
        'mutants_not_reported': len(survived), 'kills_by_rule': dict(sorted(by_rule.items())),
        'survivors': survived[:60], 'analysis_error_mutants': unknown[:30],
        'seeded_variants': seeded_res, 'benign_variants': benign_res,
        'mutation_note': 'a mutant that is not reported is an equivalent mutant, a mutant in a region DESIGN declares undecided '
                         '(algorithmic code), or a gap; mutants are not run against the test suite, the audit measures the sensitivity of the rules only',
    }
    return cov, unknown_msgs
