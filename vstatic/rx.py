"""rx -- regular-expression ASTs (``re._parser``) of pattern constants recovered by the constant evaluator."""
import re._parser as sre_parse
import re._constants as sre_c

from .src import Unknown


def parse(pattern, flags=0):
    try:
        return sre_parse.parse(pattern, flags)
    except Exception as ex:  # pragma: no cover
        raise Unknown(f'regular expression cannot be parsed: {ex}')


def ops(tree):
    return [(op, av) for op, av in tree]


def class_set(items, is_bytes=True):
    """Set of code points (0..255 for bytes patterns, 0..0x2FFF sampled for str) matched by an IN node."""
    universe = range(256) if is_bytes else range(0x3000)
    out = set()
    negate = False
    for op, av in items:
        if op is sre_c.NEGATE:
            negate = True
        elif op is sre_c.LITERAL:
            out.add(av)
        elif op is sre_c.RANGE:
            out.update(range(av[0], av[1] + 1))
        elif op is sre_c.CATEGORY:
            import re
            name = str(av)
            table = {'CATEGORY_DIGIT': r'\d', 'CATEGORY_NOT_DIGIT': r'\D', 'CATEGORY_SPACE': r'\s',
                     'CATEGORY_NOT_SPACE': r'\S', 'CATEGORY_WORD': r'\w', 'CATEGORY_NOT_WORD': r'\W'}
            if name not in table:
                raise Unknown(f'regex category {name}')
            if is_bytes:
                rx_ = re.compile(table[name].encode())
                out.update(c for c in universe if rx_.fullmatch(bytes([c])))
            else:
                rx_ = re.compile(table[name])
                out.update(c for c in universe if rx_.fullmatch(chr(c)))
        else:
            raise Unknown(f'regex class item {op}')
    if negate:
        out = set(universe) - out
    return out


def ends_with_string_end(tree):
    """True for \\Z, False for $ (which also matches before a trailing newline), None if neither."""
    if not len(tree):
        return None
    op, av = tree[len(tree) - 1]
    if op is sre_c.AT:
        if av is sre_c.AT_END_STRING:
            return True
        if av is sre_c.AT_END:
            return False
    return None


def starts_anchored(tree):
    if not len(tree):
        return False
    op, av = tree[0]
    return op is sre_c.AT and av in (sre_c.AT_BEGINNING, sre_c.AT_BEGINNING_STRING)


def can_match_newline(tree, is_bytes=False):
    """Could some string accepted by the pattern contain CR or LF?  (conservative: True if unsure)"""
    def rec(t):
        for op, av in t:
            if op is sre_c.LITERAL:
                if av in (10, 13):
                    return True
            elif op is sre_c.NOT_LITERAL:
                return True
            elif op is sre_c.ANY:
                # '.' excludes \n unless DOTALL, but matches \r
                return True
            elif op is sre_c.IN:
                s = class_set(av, is_bytes)
                if 10 in s or 13 in s:
                    return True
            elif op in (sre_c.MAX_REPEAT, sre_c.MIN_REPEAT, sre_c.POSSESSIVE_REPEAT):
                if rec(av[2]):
                    return True
            elif op is sre_c.SUBPATTERN:
                if rec(av[3]):
                    return True
            elif op is sre_c.BRANCH:
                if any(rec(b) for b in av[1]):
                    return True
            elif op is sre_c.AT:
                continue
            else:
                return True
        return False
    return rec(tree)
