"""refsig -- calls seen through the *reference* signature of a function (DESIGN deviation 12).

A backward-compatible change may add optional parameters to a function (at the end, or keyword-only).  Rules stand in for
functions, or read what a function is handed, in terms of the parameters the reference tree has.  This module maps a call of the
current function onto those parameters and sets the rest aside: a parameter the reference does not have is harmless when it is
handed its own default (the old behaviour, by the contract of such a change), anything else is outside what the rule can read.
"""
import ast
import inspect

from . import canon
from .src import Unknown

_NODEFAULT = object()


def ref_signature(mod, name):
    """Ordered parameter names of `mod.name` in the reference tree (None if the reference has no such function)."""
    return canon.inventory().get(mod, {}).get('signature', {}).get(name)


def _current(forest, mod, name):
    try:
        fn = forest.func(mod, name)
    except Exception:
        return None
    return fn if isinstance(fn, ast.FunctionDef) else None


def _default_values(forest, mod, fn):
    """{param: default value} for the parameters of `fn` whose default is a constant expression of the module."""
    from . import ev
    out = {}
    a = fn.args
    pos = a.posonlyargs + a.args
    pairs = list(zip(pos[len(pos) - len(a.defaults):], a.defaults)) + [(p, d) for p, d in zip(a.kwonlyargs, a.kw_defaults) if d is not None]
    env = None
    for p, d in pairs:
        try:
            out[p.arg] = ast.literal_eval(d)
        except (ValueError, SyntaxError):
            try:
                if env is None:
                    env = ev.base_env(forest, mod)
                out[p.arg] = ev.ev(d, env)
            except Exception:
                pass
    return out


def _same(a, b):
    return a is b or (type(a) is type(b) and a == b)


def bind(forest, mod, name, args, kwargs):
    """{parameter name: value} as the current `mod.name` binds the call (positional values by its own parameter order);
    surplus positional values are returned under the key '*'."""
    fn = _current(forest, mod, name)
    if fn is None:
        return None
    pos = [x.arg for x in fn.args.posonlyargs + fn.args.args]
    out = dict(zip(pos, args))
    if len(args) > len(pos):
        out['*'] = tuple(args[len(pos):])
    out.update(kwargs)
    return out


def split(forest, mod, name, args, kwargs):
    """(values for the reference parameters {name: value}, extras {name: value} handed to parameters the reference does not have
    and that differ from their default).  None if the function or its reference signature is unknown."""
    ref = ref_signature(mod, name)
    fn = _current(forest, mod, name)
    if ref is None or fn is None:
        return None
    bound = bind(forest, mod, name, args, kwargs)
    defaults = _default_values(forest, mod, fn)
    named = {x.arg for x in fn.args.posonlyargs + fn.args.args + fn.args.kwonlyargs}
    known, extras = {}, {}
    for k, v in bound.items():
        if k in ref:
            known[k] = v
        elif k == '*':
            if fn.args.vararg is not None:
                known[k] = v
            else:
                extras[k] = v
        elif k not in named:
            known[k] = v            # swallowed by the function's own **keywords, as before
        elif not (k in defaults and _same(defaults[k], v)):
            extras[k] = v
    return known, extras


def tolerant(forest, mod, name, stub):
    """`stub` stands in for `mod.name` and is written against the reference signature.  The wrapper lets the current code call it
    through a signature that has grown: values for reference parameters are handed on (by position as far as they are contiguous,
    else under the stand-in's own parameter names), a new parameter handed its default is dropped, anything else is UNKNOWN."""
    if getattr(stub, '_refsig_tolerant', False) or not inspect.isfunction(stub):
        return stub
    ref = ref_signature(mod, name)
    if ref is None or _current(forest, mod, name) is None:
        return stub
    try:
        sig = inspect.signature(stub)
    except (TypeError, ValueError):
        return stub
    kinds = [p.kind for p in sig.parameters.values()]
    if inspect.Parameter.VAR_KEYWORD in kinds and inspect.Parameter.VAR_POSITIONAL in kinds:
        return stub         # takes whatever it is handed and sorts it out itself
    stub_names = [p.name for p in sig.parameters.values() if p.kind in (inspect.Parameter.POSITIONAL_ONLY, inspect.Parameter.POSITIONAL_OR_KEYWORD,
                                                                        inspect.Parameter.KEYWORD_ONLY)]
    has_varkw = inspect.Parameter.VAR_KEYWORD in kinds

    def wrapper(*a, **k):
        sp = split(forest, mod, name, a, k)
        if sp is None:
            return stub(*a, **k)
        known, extras = sp
        if extras:
            raise Unknown(f'the stand-in for {mod}.{name} is handed {", ".join(f"{x}={v!r:.30}" for x, v in extras.items())}: '
                          'parameters the reference tree does not have, with values other than their defaults')
        pos, kw = [], {x: v for x, v in known.items() if x not in ref and x != '*'}
        contiguous = True
        for i, pname in enumerate(ref):
            if pname in known:
                if contiguous:
                    pos.append(known[pname])
                else:
                    target = pname if (pname in stub_names or has_varkw) else (stub_names[i] if i < len(stub_names) else pname)
                    kw[target] = known[pname]
            else:
                contiguous = False
        return stub(*(tuple(pos) + tuple(known.get('*', ())) if contiguous or '*' not in known else tuple(pos)), **kw)
    wrapper._refsig_tolerant = True
    wrapper.__name__ = getattr(stub, '__name__', 'stub')
    return wrapper


def reference_view(forest, mod, name, args, kwargs):
    """(positional values in reference order as far as contiguous, remaining reference keywords, extras) of a recorded call."""
    sp = split(forest, mod, name, args, kwargs)
    if sp is None:
        return tuple(args), dict(kwargs), {}
    known, extras = sp
    ref = ref_signature(mod, name)
    pos = []
    rest = {}
    contiguous = True
    for pname in ref:
        if pname in known and contiguous:
            pos.append(known[pname])
        elif pname in known:
            rest[pname] = known[pname]
        else:
            contiguous = False
    rest.update({x: v for x, v in known.items() if x not in ref and x != '*'})
    if '*' in known:
        pos.extend(known['*'])
    return tuple(pos), rest, extras


def drop_new_defaults(forest, mod, name, kwargs):
    """`kwargs` without the keywords that belong to parameters `mod.name` has gained since the reference tree and that are handed
    their own default (the call means what it meant before)."""
    ref = ref_signature(mod, name)
    fn = _current(forest, mod, name)
    if ref is None or fn is None:
        return dict(kwargs)
    defaults = _default_values(forest, mod, fn)
    return {k: v for k, v in kwargs.items() if k in ref or not (k in defaults and _same(defaults[k], v))}
