"""iso -- independent oracles derived from the definitions in ISO/IEC 18004:2015 (and EPC069-12).

Nothing here reads the repository.  Values are *computed* from the standard's definitions
(polynomial division, field construction, the Annex E rule, the module-count geometry) rather than
typed in, with the exception of Table 9's two arrays (EC codewords per block, number of blocks),
which are cross-checked against the geometry-derived codeword totals in :func:`selfcheck`.
"""

# ---- format / version information -------------------------------------------------------


def bch15_5(d):
    r = d << 10
    for i in range(4, -1, -1):
        if r & (1 << (i + 10)):
            r ^= 0x537 << i
    return (d << 10) | r


def format_word(d):
    return bch15_5(d) ^ 0x5412


def format_word_micro(d):
    return bch15_5(d) ^ 0x4445


def golay18_6(v):
    r = v << 12
    for i in range(5, -1, -1):
        if r & (1 << (i + 12)):
            r ^= 0x1F25 << i
    return (v << 12) | r


# ---- GF(256) ------------------------------------------------------------------------------

def gf_tables():
    exp = [0] * 255
    log = [None] * 256
    x = 1
    for i in range(255):
        exp[i] = x
        log[x] = i
        x <<= 1
        if x & 0x100:
            x ^= 0x11D
    return exp, log


def gf_mul(a, b, _t=[]):
    if not _t:
        _t.extend(gf_tables())
    if a == 0 or b == 0:
        return 0
    exp, log = _t
    return exp[(log[a] + log[b]) % 255]


def generator_poly_logs(n):
    """Coefficients (as alpha exponents) of prod_{i<n}(x - a^i), leading term dropped, high->low."""
    exp, log = gf_tables()
    g = [1]
    for i in range(n):
        ng = [0] * (len(g) + 1)
        for k, c in enumerate(g):
            ng[k] ^= c                      # * x
            ng[k + 1] ^= gf_mul(c, exp[i])  # * a^i
        g = ng
    return tuple(log[c] for c in g[1:])


def rs_ec(data, n_ec):
    """Error correction codewords of `data` (ISO 7.5.2: remainder of data(x) * x^n divided by the generator of degree n)."""
    exp, log = gf_tables()
    g = [1]
    for i in range(n_ec):
        ng = [0] * (len(g) + 1)
        for k, c in enumerate(g):
            ng[k] ^= c
            ng[k + 1] ^= gf_mul(c, exp[i])
        g = ng
    rem = list(data) + [0] * n_ec
    for k in range(len(data)):
        c = rem[k]
        if c:
            for j in range(1, len(g)):
                rem[k + j] ^= gf_mul(g[j], c)
    return rem[len(data):]


def penalty(matrix):
    """(N1, N2, N3, N4) of ISO 7.8.3.1 for a square 0/1 matrix."""
    n = len(matrix)
    rows = [list(r) for r in matrix]
    cols = [[rows[i][j] for i in range(n)] for j in range(n)]
    n1 = 0
    for line in rows + cols:
        run = 1
        for k in range(1, n + 1):
            if k < n and line[k] == line[k - 1]:
                run += 1
            else:
                if run >= 5:
                    n1 += 3 + (run - 5)
                run = 1
    n2 = 0
    for i in range(n - 1):
        for j in range(n - 1):
            if rows[i][j] == rows[i][j + 1] == rows[i + 1][j] == rows[i + 1][j + 1]:
                n2 += 3
    pat = [1, 0, 1, 1, 1, 0, 1]
    n3 = 0
    for line in rows + cols:
        for k in range(n - 6):
            if line[k:k + 7] == pat:
                before = line[max(k - 4, 0):k]
                after = line[k + 7:k + 11]
                # four light modules on either side; what lies beyond the symbol edge counts as light
                ok_before = not any(before)
                ok_after = not any(after)
                if ok_before or ok_after:
                    n3 += 40
    dark = sum(map(sum, rows))
    from fractions import Fraction
    n4 = 10 * int(abs(Fraction(100 * dark, n * n) - 50) / 5)
    return n1, n2, n3, n4


# ---- geometry -----------------------------------------------------------------------------

def alignment_centres(v):
    if v < 2:
        return []
    num = v // 7 + 2
    step = 26 if v == 32 else (v * 4 + num * 2 + 1) // (num * 2 - 2) * 2
    return [6] + [v * 4 + 10 - step * k for k in range(num - 2, -1, -1)]


def size_of(version):
    """version: 1..40 or Micro as -3..0 (M1..M4)."""
    return 17 + 4 * version if version >= 1 else 9 + 2 * (version + 4)


def raw_data_modules(v):
    r = (16 * v + 128) * v + 64
    if v >= 2:
        na = v // 7 + 2
        r -= (25 * na - 10) * na - 55
        if v >= 7:
            r -= 36
    return r


MICRO_DATA_MODULES = {-3: 36, -2: 80, -1: 132, 0: 192}   # M1..M4: N^2 - finder/sep 64 - timing 2(N-8) - format 15


def micro_data_modules(m):
    n = size_of(m)
    return n * n - 64 - 2 * (n - 8) - 15


def remainder_bits(v):
    return raw_data_modules(v) % 8


# ---- Table 9 ---------------------------------------------------------------------------------
ECC_PER_BLOCK = {
    'L': [7, 10, 15, 20, 26, 18, 20, 24, 30, 18, 20, 24, 26, 30, 22, 24, 28, 30, 28, 28, 28, 28, 30, 30, 26, 28, 30, 30, 30, 30, 30, 30, 30, 30, 30, 30, 30, 30, 30, 30],
    'M': [10, 16, 26, 18, 24, 16, 18, 22, 22, 26, 30, 22, 22, 24, 24, 28, 28, 26, 26, 26, 26, 28, 28, 28, 28, 28, 28, 28, 28, 28, 28, 28, 28, 28, 28, 28, 28, 28, 28, 28],
    'Q': [13, 22, 18, 26, 18, 24, 18, 22, 20, 24, 28, 26, 24, 20, 30, 24, 28, 28, 26, 30, 28, 30, 30, 30, 30, 28, 30, 30, 30, 30, 30, 30, 30, 30, 30, 30, 30, 30, 30, 30],
    'H': [17, 28, 22, 16, 22, 28, 26, 26, 24, 28, 24, 28, 22, 24, 24, 30, 28, 28, 26, 28, 30, 24, 30, 30, 30, 30, 30, 30, 30, 30, 30, 30, 30, 30, 30, 30, 30, 30, 30, 30]}
NUM_BLOCKS = {
    'L': [1, 1, 1, 1, 1, 2, 2, 2, 2, 4, 4, 4, 4, 4, 6, 6, 6, 6, 7, 8, 8, 9, 9, 10, 12, 12, 12, 13, 14, 15, 16, 17, 18, 19, 19, 20, 21, 22, 24, 25],
    'M': [1, 1, 1, 2, 2, 4, 4, 4, 5, 5, 5, 8, 9, 9, 10, 10, 11, 13, 14, 16, 17, 17, 18, 20, 21, 23, 25, 26, 28, 29, 31, 33, 35, 37, 38, 40, 43, 45, 47, 49],
    'Q': [1, 1, 2, 2, 4, 4, 6, 6, 8, 8, 8, 10, 12, 16, 12, 17, 16, 18, 21, 20, 23, 23, 25, 27, 29, 34, 34, 35, 38, 40, 43, 45, 48, 51, 53, 56, 59, 62, 65, 68],
    'H': [1, 1, 2, 4, 4, 4, 5, 6, 8, 8, 11, 11, 16, 16, 18, 16, 19, 21, 25, 25, 25, 34, 30, 32, 35, 37, 40, 42, 45, 48, 51, 54, 57, 60, 63, 66, 70, 74, 77, 81]}

MICRO_ECC = {  # (version, level) -> (blocks, total, data); level None for M1
    (-3, None): (1, 5, 3),
    (-2, 'L'): (1, 10, 5), (-2, 'M'): (1, 10, 4),
    (-1, 'L'): (1, 17, 11), (-1, 'M'): (1, 17, 9),
    (0, 'L'): (1, 24, 16), (0, 'M'): (1, 24, 14), (0, 'Q'): (1, 24, 10)}


def ecc_groups(v, level):
    """[(num_blocks, num_total, num_data), ...] for QR version v (1..40), short blocks first."""
    raw = raw_data_modules(v) // 8
    nb, ec = NUM_BLOCKS[level][v - 1], ECC_PER_BLOCK[level][v - 1]
    short = raw // nb
    nlong = raw % nb
    groups = [(nb - nlong, short, short - ec)]
    if nlong:
        groups.append((nlong, short + 1, short + 1 - ec))
    return groups


def capacity_bits(v, level):
    if v >= 1:
        return 8 * sum(n * d for n, t, d in ecc_groups(v, level))
    n, t, d = MICRO_ECC[(v, level)]
    bits = 8 * n * d
    return bits - 4 if v in (-3, -1) else bits


LEVELS_OF = {-3: (None,), -2: ('L', 'M'), -1: ('L', 'M'), 0: ('L', 'M', 'Q')}


def levels_of(v):
    return LEVELS_OF.get(v, ('L', 'M', 'Q', 'H'))


ALL_VERSIONS = (-3, -2, -1, 0) + tuple(range(1, 41))

# ---- Tables 2, 3, terminator, 12, 13 ---------------------------------------------------------
MODE_INDICATOR = {'numeric': 0b0001, 'alphanumeric': 0b0010, 'structured_append': 0b0011,
                  'byte': 0b0100, 'eci': 0b0111, 'kanji': 0b1000, 'hanzi': 0b1101}
MICRO_MODE_INDICATOR = {'numeric': 0, 'alphanumeric': 1, 'byte': 2, 'kanji': 3}
# character count indicator widths: mode -> {range or micro version: bits}
CCI = {
    'numeric': {1: 10, 2: 12, 3: 14, -3: 3, -2: 4, -1: 5, 0: 6},
    'alphanumeric': {1: 9, 2: 11, 3: 13, -2: 3, -1: 4, 0: 5},
    'byte': {1: 8, 2: 16, 3: 16, -1: 4, 0: 5},
    'kanji': {1: 8, 2: 10, 3: 12, -1: 3, 0: 4},
    'hanzi': {1: 8, 2: 10, 3: 12},
}
# modes available per symbol class (None = all QR versions)
SUPPORTED = {
    'numeric': (None, -3, -2, -1, 0),
    'alphanumeric': (None, -2, -1, 0),
    'byte': (None, -1, 0),
    'eci': (None,),
    'kanji': (None, -1, 0),
    'hanzi': (None,),
}
TERMINATOR = {None: 4, -3: 3, -2: 5, -1: 7, 0: 9}
LEVEL_INDICATOR = {'L': 0b01, 'M': 0b00, 'Q': 0b11, 'H': 0b10}
MICRO_SYMBOL_NUMBER = {(-3, None): 0, (-2, 'L'): 1, (-2, 'M'): 2, (-1, 'L'): 3, (-1, 'M'): 4,
                       (0, 'L'): 5, (0, 'M'): 6, (0, 'Q'): 7}
ALPHANUMERIC = b'0123456789ABCDEFGHIJKLMNOPQRSTUVWXYZ $%*+-./:'


def version_range(v):
    return 1 if v <= 9 else 2 if v <= 26 else 3


# AIM ECI assignment numbers, keyed by the canonical Python codec name that denotes the charset
ECI = {
    'cp437': 1, 'iso8859-1': 3, 'iso8859-2': 4, 'iso8859-3': 5, 'iso8859-4': 6, 'iso8859-5': 7,
    'iso8859-6': 8, 'iso8859-7': 9, 'iso8859-8': 10, 'iso8859-9': 11, 'iso8859-10': 12,
    'iso8859-11': 13, 'iso8859-13': 15, 'iso8859-14': 16, 'iso8859-15': 17, 'iso8859-16': 18,
    'shift_jis': 20, 'cp1250': 21, 'cp1251': 22, 'cp1252': 23, 'cp1256': 24, 'utf-16-be': 25,
    'utf-8': 26, 'ascii': 27, 'big5': 28, 'gb18030': 29, 'gbk': 29, 'euc_kr': 30}

# ---- mask conditions (Table 10) -----------------------------------------------------------------
MASKS = (
    lambda i, j: (i + j) % 2 == 0,
    lambda i, j: i % 2 == 0,
    lambda i, j: j % 3 == 0,
    lambda i, j: (i + j) % 3 == 0,
    lambda i, j: ((i // 2) + (j // 3)) % 2 == 0,
    lambda i, j: (i * j) % 2 + (i * j) % 3 == 0,
    lambda i, j: ((i * j) % 2 + (i * j) % 3) % 2 == 0,
    lambda i, j: ((i + j) % 2 + (i * j) % 3) % 2 == 0,
)
MICRO_MASKS = (1, 4, 6, 7)

# ---- function pattern layout (anchored) -----------------------------------------------------------
FINDER = ((1, 1, 1, 1, 1, 1, 1),
          (1, 0, 0, 0, 0, 0, 1),
          (1, 0, 1, 1, 1, 0, 1),
          (1, 0, 1, 1, 1, 0, 1),
          (1, 0, 1, 1, 1, 0, 1),
          (1, 0, 0, 0, 0, 0, 1),
          (1, 1, 1, 1, 1, 1, 1))
ALIGNMENT = ((1, 1, 1, 1, 1),
             (1, 0, 0, 0, 1),
             (1, 0, 1, 0, 1),
             (1, 0, 0, 0, 1),
             (1, 1, 1, 1, 1))


def layout(version):
    """{(row, col): (kind, value)} of all function-pattern cells of a symbol; value is 0/1 for fixed
    modules, ('F', copy, bit) for format bits, ('V', bit) for version bits, None for separators(0)."""
    n = size_of(version)
    micro = version < 1
    cells = {}
    corners = [(0, 0)] if micro else [(0, 0), (0, n - 7), (n - 7, 0)]
    for (r0, c0) in corners:
        for r in range(-1, 8):
            for c in range(-1, 8):
                rr, cc = r0 + r, c0 + c
                if 0 <= rr < n and 0 <= cc < n:
                    if 0 <= r < 7 and 0 <= c < 7:
                        cells[(rr, cc)] = ('finder', FINDER[r][c])
                    else:
                        cells[(rr, cc)] = ('separator', 0)
    # timing
    if micro:
        for k in range(8, n):
            cells[(0, k)] = ('timing', 1 - k % 2)
            cells[(k, 0)] = ('timing', 1 - k % 2)
    else:
        for k in range(8, n - 8):
            cells[(6, k)] = ('timing', 1 - k % 2)
            cells[(k, 6)] = ('timing', 1 - k % 2)
    # alignment
    if not micro:
        cs = alignment_centres(version)
        if cs:
            lo, hi = cs[0], cs[-1]
            for x in cs:
                for y in cs:
                    if (x, y) in ((lo, lo), (lo, hi), (hi, lo)):
                        continue
                    for r in range(5):
                        for c in range(5):
                            cells[(x - 2 + r, y - 2 + c)] = ('alignment', ALIGNMENT[r][c])
    # format
    for k, pos in format_bit_cells(version).items():
        for copy, rc in enumerate(pos):
            cells[rc] = ('format', ('F', copy, k))
    if not micro:
        cells[(n - 8, 8)] = ('darkmodule', 1)
        if version >= 7:
            for k, pos in version_bit_cells(version).items():
                for copy, rc in enumerate(pos):
                    cells[rc] = ('version', ('V', copy, k))
    return cells


def format_bit_cells(version):
    """bit k (LSB = 0) -> list of (row, col), one per copy (ISO Figures 25 / 26)."""
    n = size_of(version)
    out = {}
    if version < 1:
        for k in range(15):
            out[k] = [(k + 1, 8)] if k <= 7 else [(8, 15 - k)]
        return out
    for k in range(15):
        # copy 1 around the upper-left finder
        if k <= 5:
            a = (k, 8)
        elif k == 6:
            a = (7, 8)
        elif k == 7:
            a = (8, 8)
        elif k == 8:
            a = (8, 7)
        else:
            a = (8, 14 - k)
        # copy 2: bits 0..7 in row 8 from the right edge, bits 8..14 in column 8 upwards from below
        b = (8, n - 1 - k) if k <= 7 else (n - 15 + k, 8)
        out[k] = [a, b]
    return out


def version_bit_cells(version):
    n = size_of(version)
    return {k: [(k // 3, n - 11 + k % 3), (n - 11 + k % 3, k // 3)] for k in range(18)}


def placement(version):
    """(row, col) of the data-region cells in ISO 7.7.3 placement order: two-module wide columns from the right,
    the first one upwards, alternating; the vertical timing column of QR symbols is skipped."""
    n = size_of(version)
    fn_cells = layout(version)
    out = []
    micro = version < 1
    right = n - 1
    up = True
    while right > 0:
        if not micro and right == 6:
            right -= 1
        rows = range(n - 1, -1, -1) if up else range(n)
        for r in rows:
            for c in (right, right - 1):
                if (r, c) not in fn_cells:
                    out.append((r, c))
        up = not up
        right -= 2
    return out


def function_cell_count(version):
    return len(layout(version))


# ---- EPC069-12 v002 -----------------------------------------------------------------------------
EPC = {
    'lines': ('BCD', '002', 'charset', 'SCT', 'bic', 'name', 'iban', 'amount', 'purpose', 'reference', 'text'),
    'encodings': ('utf-8', 'iso-8859-1', 'iso-8859-2', 'iso-8859-4', 'iso-8859-5', 'iso-8859-7',
                  'iso-8859-10', 'iso-8859-15'),
    'name_max': 70, 'iban_max': 34, 'text_max': 140, 'reference_max': 35, 'bic_len': (8, 11),
    'purpose_len': 4, 'amount_min': '0.01', 'amount_max': '999999999.99', 'payload_max': 331,
    'level': 'm', 'version_max': 13,
}


def selfcheck():
    """Internal consistency of the oracles (raises AssertionError)."""
    exp, log = gf_tables()
    assert sorted(exp) == list(range(1, 256))
    for v in range(1, 41):
        raw = raw_data_modules(v)
        n = size_of(v)
        assert n * n - function_cell_count(v) == raw, (v, n * n - function_cell_count(v), raw)
        for lv in 'LMQH':
            assert sum(b * t for b, t, d in ecc_groups(v, lv)) == raw // 8
            assert alignment_centres(v) == sorted(alignment_centres(v))
    for m in (-3, -2, -1, 0):
        n = size_of(m)
        assert n * n - function_cell_count(m) == MICRO_DATA_MODULES[m] == micro_data_modules(m)
        for lv in levels_of(m):
            b, t, d = MICRO_ECC[(m, lv)]
            assert t * 8 - (4 if m in (-3, -1) else 0) == MICRO_DATA_MODULES[m]
    for d in range(32):
        w = bch15_5(d)
        assert w >> 10 == d
    return True
