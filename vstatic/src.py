"""src -- loader and resolver: parses the repository modules, indexes functions, resolves names.

The unit everything else works on is a :class:`Forest`: module name -> ``ast.Module`` with
parent links.  A forest can be loaded from disk (the real check) or built from in-memory
source/trees (the mutation audit), the rules cannot tell the difference.
"""
import ast
import copy
import hashlib
import os

MODULES = ('__init__', 'encoder', 'consts', 'utils', 'writers', 'cli', 'helpers')


class Unknown(Exception):
    """An anchor is gone or a construct is outside the grammar a rule understands.

    Becomes ``ANALYSIS-ERROR`` / exit 2: never a violation, never a silent pass."""


def repo_root():
    return os.environ.get('VERIF_REPO', '/repo')


def _link(tree, modname):
    tree._mod = modname
    # `NAME: annotation = value` at module level binds NAME exactly as `NAME = value` does (the annotation is not a value of the program)
    for i, st in enumerate(tree.body):
        if isinstance(st, ast.AnnAssign) and st.value is not None and isinstance(st.target, ast.Name):
            tree.body[i] = ast.copy_location(ast.Assign(targets=[st.target], value=st.value, type_comment=None), st)
            tree.body[i].end_lineno, tree.body[i].end_col_offset = st.end_lineno, st.end_col_offset
    for node in ast.walk(tree):
        for child in ast.iter_child_nodes(node):
            child._parent = node
    tree._parent = None
    return tree


class Forest:
    def __init__(self, sources, trees=None, root=None):
        self.sources = dict(sources)
        self.root = root
        self.trees = {}
        for name, text in self.sources.items():
            tree = trees[name] if trees and name in trees else ast.parse(text, filename=name + '.py')
            self.trees[name] = _link(tree, name)
        self._fn_index = None
        self._cache = {}

    # -- construction -----------------------------------------------------------------
    @classmethod
    def load(cls, root=None):
        root = root or repo_root()
        sources = {}
        for m in MODULES:
            path = os.path.join(root, 'segno', m + '.py')
            try:
                with open(path, encoding='utf-8') as f:
                    sources[m] = f.read()
            except OSError as ex:
                raise Unknown(f'module segno/{m}.py cannot be read: {ex}')
        return cls(sources, root=root)

    def with_tree(self, modname, newtree):
        """A forest in which module `modname` is replaced by `newtree` (used by the mutation audit)."""
        trees = {k: v for k, v in self.trees.items() if k != modname}
        f = Forest.__new__(Forest)
        f.sources = self.sources
        f.root = self.root
        f.trees = dict(trees)
        f.trees[modname] = _link(newtree, modname)
        f._fn_index = None
        f._cache = {}
        return f

    def with_source(self, modname, text):
        src = dict(self.sources)
        src[modname] = text
        f = Forest.__new__(Forest)
        f.sources = src
        f.root = self.root
        f.trees = {k: v for k, v in self.trees.items() if k != modname}
        f.trees[modname] = _link(ast.parse(text), modname)
        f._fn_index = None
        f._cache = {}
        return f

    def clone_tree(self, modname):
        return copy.deepcopy(self.trees[modname])

    @property
    def digest(self):
        h = hashlib.sha256()
        for m in sorted(self.sources):
            h.update(m.encode())
            h.update(self.sources[m].encode('utf-8'))
        return h.hexdigest()

    # -- lookup -----------------------------------------------------------------------
    def mod(self, name):
        try:
            return self.trees[name]
        except KeyError:
            raise Unknown(f'module {name} missing')

    def _index(self):
        if self._fn_index is None:
            idx = {}

            def visit(node, prefix, modname):
                for child in ast.iter_child_nodes(node):
                    if isinstance(child, (ast.FunctionDef, ast.AsyncFunctionDef, ast.ClassDef)):
                        q = prefix + child.name
                        idx.setdefault((modname, q), child)
                        visit(child, q + '.', modname)
                    else:
                        visit(child, prefix, modname)
            for m, t in self.trees.items():
                visit(t, '', m)
            self._fn_index = idx
        return self._fn_index

    def func(self, mod, qual):
        node = self._index().get((mod, qual))
        if node is None or not isinstance(node, (ast.FunctionDef, ast.AsyncFunctionDef)):
            raise Unknown(f'function {mod}.{qual} not found')
        return node

    def cls(self, mod, qual):
        node = self._index().get((mod, qual))
        if node is None or not isinstance(node, ast.ClassDef):
            raise Unknown(f'class {mod}.{qual} not found')
        return node

    def has_func(self, mod, qual):
        node = self._index().get((mod, qual))
        return isinstance(node, (ast.FunctionDef, ast.AsyncFunctionDef))

    def functions(self):
        """All (mod, qualname, node) of function definitions (nested ones included)."""
        for (m, q), node in self._index().items():
            if isinstance(node, (ast.FunctionDef, ast.AsyncFunctionDef)):
                yield m, q, node

    def module_assign(self, mod, name):
        """The value expression of the (single) module-level assignment ``name = ...``."""
        found = [st for st in self.mod(mod).body
                 if isinstance(st, ast.Assign) and len(st.targets) == 1
                 and isinstance(st.targets[0], ast.Name) and st.targets[0].id == name]
        if len(found) != 1:
            raise Unknown(f'{mod}.{name}: expected exactly one module-level assignment, found {len(found)}')
        return found[0].value


# -- generic AST helpers -----------------------------------------------------------------

def parent(node):
    return getattr(node, '_parent', None)


def ancestors(node):
    p = parent(node)
    while p is not None:
        yield p
        p = parent(p)


def enclosing_function(node):
    for a in ancestors(node):
        if isinstance(a, (ast.FunctionDef, ast.AsyncFunctionDef, ast.Lambda)):
            return a
    return None


def qualname_of(node):
    """module.qualname of the innermost def/class enclosing (or being) `node`."""
    parts = []
    n = node
    mod = None
    while n is not None:
        if isinstance(n, (ast.FunctionDef, ast.AsyncFunctionDef, ast.ClassDef)):
            parts.append(n.name)
        elif isinstance(n, ast.Lambda):
            parts.append('<lambda>')
        elif isinstance(n, ast.Module):
            mod = getattr(n, '_mod', '?')
        n = parent(n)
    return (mod or '?') + ('.' + '.'.join(reversed(parts)) if parts else '')


def walk_local(fn, into_nested=False):
    """Nodes of function `fn` (its body), by default without descending into nested defs/lambdas."""
    stack = list(reversed(fn.body)) if isinstance(fn.body, list) else [fn.body]
    while stack:
        n = stack.pop()
        yield n
        if not into_nested and isinstance(n, (ast.FunctionDef, ast.AsyncFunctionDef, ast.Lambda, ast.ClassDef)):
            continue
        for c in reversed(list(ast.iter_child_nodes(n))):
            if not into_nested and isinstance(c, (ast.FunctionDef, ast.AsyncFunctionDef, ast.Lambda, ast.ClassDef)):
                # the def statement itself is visible, its body is not
                yield c
                continue
            stack.append(c)


def dotted(node):
    """'a.b.c' for Name/Attribute chains, else None."""
    parts = []
    while isinstance(node, ast.Attribute):
        parts.append(node.attr)
        node = node.value
    if isinstance(node, ast.Name):
        parts.append(node.id)
        return '.'.join(reversed(parts))
    return None


def call_name(call):
    return dotted(call.func) if isinstance(call, ast.Call) else None


def calls_in(node, name=None, into_nested=True):
    """Call nodes inside `node` in source order."""
    it = ast.walk(node) if into_nested else walk_local(node)
    found = [n for n in it if isinstance(n, ast.Call) and (name is None or call_name(n) == name
                                                         or (call_name(n) or '').split('.')[-1] == name)]
    found.sort(key=lambda c: (getattr(c, 'lineno', 0), getattr(c, 'col_offset', 0)))
    return iter(found)


def text(node):
    return ast.unparse(node)


def line(node):
    return getattr(node, 'lineno', 0)


def statements(block):
    """All statements nested anywhere in a list of statements (not into nested defs)."""
    for st in block:
        yield st
        for fld in ('body', 'orelse', 'finalbody'):
            sub = getattr(st, fld, None)
            if isinstance(sub, list) and not isinstance(st, (ast.FunctionDef, ast.AsyncFunctionDef, ast.ClassDef)):
                yield from statements(sub)
        if isinstance(st, ast.Try):
            for h in st.handlers:
                yield from statements(h.body)


def local_aliases(fn):
    """{local name: dotted expression} for simple alias assignments ``x = a.b`` / ``x = a`` inside `fn`.

    Only names assigned exactly once in the function are reported."""
    count = {}
    val = {}
    for n in walk_local(fn):
        if isinstance(n, ast.Assign):
            for t in n.targets:
                for nm in ast.walk(t):
                    if isinstance(nm, ast.Name):
                        count[nm.id] = count.get(nm.id, 0) + 1
            if len(n.targets) == 1 and isinstance(n.targets[0], ast.Name):
                d = dotted(n.value)
                if d:
                    val[n.targets[0].id] = d
        elif isinstance(n, (ast.AugAssign, ast.AnnAssign)):
            for nm in ast.walk(n.target):
                if isinstance(nm, ast.Name):
                    count[nm.id] = count.get(nm.id, 0) + 2
        elif isinstance(n, (ast.For, ast.comprehension)):
            for nm in ast.walk(n.target):
                if isinstance(nm, ast.Name):
                    count[nm.id] = count.get(nm.id, 0) + 2
    return {k: v for k, v in val.items() if count.get(k) == 1}


def resolve_call(call, aliases):
    """Dotted callee name with one level of local alias resolution."""
    d = call_name(call)
    if d is None:
        return None
    head, _, rest = d.partition('.')
    if head in aliases:
        return aliases[head] + ('.' + rest if rest else '')
    return d


def params(fn):
    a = fn.args
    names = [x.arg for x in a.posonlyargs + a.args]
    return names


def all_params(fn):
    """Positional and keyword-only parameter names in declaration order."""
    a = fn.args
    return [x.arg for x in a.posonlyargs + a.args + a.kwonlyargs]


def param_defaults(fn):
    """{param: default expr} for positional-or-keyword and keyword-only parameters with defaults."""
    a = fn.args
    pos = a.posonlyargs + a.args
    out = {}
    for p, d in zip(pos[len(pos) - len(a.defaults):], a.defaults):
        out[p.arg] = d
    for p, d in zip(a.kwonlyargs, a.kw_defaults):
        if d is not None:
            out[p.arg] = d
    return out


def kwargs_of(call):
    return {k.arg: k.value for k in call.keywords if k.arg is not None}
