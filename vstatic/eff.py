"""eff -- whole-program effect and ownership analysis (DESIGN 3.6, A.10).

For every function of the package: which of its parameters and which module-level objects it may
mutate, directly (subscript/attribute store, del, augmented assignment through a subscript/attribute,
a mutating method call) or through a resolved callee, with local aliases resolved to their roots.
Summaries are propagated to a fixed point over the call graph.
"""
import ast

from . import src
from .src import Unknown

MUTATORS = {'append', 'extend', 'insert', 'pop', 'remove', 'clear', 'sort', 'reverse', 'update', 'setdefault',
            'popitem', 'add', 'discard', 'append_bits', 'appendleft', 'extendleft', 'rotate', '__setitem__',
            '__delitem__', 'difference_update', 'intersection_update', 'symmetric_difference_update'}
FRESH_CALLS = {'list', 'dict', 'set', 'bytearray', 'tuple', 'frozenset', 'sorted', 'reversed', 'bytes', 'str', 'int',
               'float', 'len', 'range', 'zip', 'map', 'filter', 'enumerate', 'iter', 'chain', 'repeat', 'islice',
               'zip_longest', 'product', 'partial', 'defaultdict', 'min', 'max', 'sum', 'abs', 'divmod', 'pack', 'quote',
               'reduce', 'namedtuple', 'open', 'isinstance', 'vars', 'round', 'next', 'any', 'all', 'repr', 'format',
               'getattr', 'hasattr', 'print', 'super', 'type', 'bool', 'ord', 'chr', 'hex'}


class FnInfo:
    def __init__(self, mod, qual, node):
        self.mod, self.qual, self.node = mod, qual, node
        self.params = [a.arg for a in node.args.posonlyargs + node.args.args + node.args.kwonlyargs]
        self.vararg = node.args.vararg.arg if node.args.vararg else None
        self.kwarg = node.args.kwarg.arg if node.args.kwarg else None
        self.mut_params = {}     # param -> list of (line, description)
        self.mut_globals = {}    # 'mod.name' -> list of (line, description)
        self.mut_free = {}       # free (closure) variable -> list
        self.returns_alias = set()   # params (or 'global:mod.name') whose (sub)object may be returned
        self.returns_pos = None      # for functions that always return an n-tuple: [set per position]
        self.calls = []          # (call node, [callee keys])
        self.sites = 0

    @property
    def key(self):
        return (self.mod, self.qual)

    @property
    def name(self):
        return f'{self.mod}.{self.qual}'


class Program:
    def __init__(self, forest):
        self.forest = forest
        self.fns = {}
        self.by_simple = {}
        self.methods = {}
        self.module_names = {}   # mod -> set of module-level assigned names
        self.imports = {}        # mod -> {local name: ('module', modname) | ('name', modname, name)}
        for m, q, node in forest.functions():
            fi = FnInfo(m, q, node)
            self.fns[(m, q)] = fi
            self.by_simple.setdefault((m, q.split('.')[-1]), []).append(fi)
            p = src.parent(node)
            if isinstance(p, ast.ClassDef):
                self.methods.setdefault(node.name, []).append(fi)
        for m, tree in forest.trees.items():
            names, imps = set(), {}
            for st in tree.body:
                if isinstance(st, ast.Assign):
                    for t in st.targets:
                        for n in ast.walk(t):
                            if isinstance(n, ast.Name):
                                names.add(n.id)
                elif isinstance(st, (ast.For, ast.With, ast.If, ast.Try)):
                    for n in ast.walk(st):
                        if isinstance(n, ast.Name) and isinstance(n.ctx, ast.Store):
                            names.add(n.id)
                elif isinstance(st, ast.ImportFrom):
                    for a in st.names:
                        local = a.asname or a.name
                        if st.level >= 1 and st.module is None and a.name in forest.trees:
                            imps[local] = ('module', a.name)
                        elif st.level >= 1 and st.module in forest.trees:
                            imps[local] = ('name', st.module, a.name)
                        elif st.module == 'segno' and a.name in forest.trees:
                            imps[local] = ('module', a.name)
                        elif st.module and st.module.startswith('segno.') and st.module[6:] in forest.trees:
                            imps[local] = ('name', st.module[6:], a.name)
                elif isinstance(st, ast.Import):
                    for a in st.names:
                        if a.name == 'segno':
                            imps[a.asname or 'segno'] = ('module', '__init__')
            self.module_names[m] = names
            self.imports[m] = imps
        # function-local imports (`from segno import encoder` inside matrix_iter_verbose)
        self.local_imports = {}
        for fi in self.fns.values():
            li = {}
            for n in src.walk_local(fi.node):
                if isinstance(n, ast.ImportFrom) and n.module == 'segno':
                    for a in n.names:
                        if a.name in forest.trees:
                            li[a.asname or a.name] = ('module', a.name)
            self.local_imports[fi.key] = li
        self._analyse()

    # -- scopes -----------------------------------------------------------------------------
    def enclosing(self, fi):
        q = fi.qual.rsplit('.', 1)
        if len(q) == 2 and (fi.mod, q[0]) in self.fns:
            return self.fns[(fi.mod, q[0])]
        return None

    def local_names(self, fi):
        out = set(fi.params)
        if fi.vararg:
            out.add(fi.vararg)
        if fi.kwarg:
            out.add(fi.kwarg)
        for n in src.walk_local(fi.node):
            if isinstance(n, ast.Name) and isinstance(n.ctx, (ast.Store, ast.Del)):
                out.add(n.id)
            elif isinstance(n, (ast.FunctionDef, ast.ClassDef)):
                out.add(n.name)
            elif isinstance(n, (ast.Import, ast.ImportFrom)):
                for a in n.names:
                    out.add((a.asname or a.name).split('.')[0])
            elif isinstance(n, ast.ExceptHandler) and n.name:
                out.add(n.name)
        return out

    # -- roots ---------------------------------------------------------------------------------
    def root_of(self, fi, expr, aliases, depth=0):
        """Classify the object `expr` denotes: set of roots ('param', name) / ('global', 'mod.name') /
        ('free', name) / ('fresh',) / ('unknown', text)."""
        if depth > 12:
            return {('unknown', 'alias depth')}
        e = expr
        if getattr(e, '_pos', None) is not None and isinstance(e.value, ast.Call):
            return self.call_result_roots(fi, e.value, aliases, depth, pos=e._pos)
        while isinstance(e, (ast.Subscript, ast.Attribute, ast.Starred)):
            if isinstance(e, ast.Attribute):
                d = src.dotted(e)
                if d:
                    head = d.split('.')[0]
                    imp = self.imports[fi.mod].get(head) or self.local_imports[fi.key].get(head)
                    if imp and imp[0] == 'module' and head not in self._locals(fi):
                        parts = d.split('.')
                        return {('global', f'{imp[1]}.{parts[1]}')} if len(parts) > 1 else {('fresh',)}
            e = e.value
        if isinstance(e, ast.Name):
            nm = e.id
            if nm in aliases and depth < 12:
                out = set()
                for a in aliases[nm]:
                    out |= self.root_of(fi, a, {k: v for k, v in aliases.items() if k != nm}, depth + 1) if a is not None else {('fresh',)}
                return out
            loc = self._locals(fi)
            if nm in fi.params or nm == fi.vararg:
                return {('param', nm)}
            if nm == fi.kwarg:
                return {('fresh',)}          # a function's own **kw dict is created per call
            if nm in loc:
                return {('fresh',)}
            enc = self.enclosing(fi)
            while enc is not None:
                if nm in self._locals(enc):
                    return {('free', nm)}
                enc = self.enclosing(enc)
            if nm in self.module_names.get(fi.mod, ()):
                return {('global', f'{fi.mod}.{nm}')}
            imp = self.imports[fi.mod].get(nm)
            if imp and imp[0] == 'name':
                return {('global', f'{imp[1]}.{imp[2]}')}
            return {('fresh',)}              # builtin / stdlib name
        if isinstance(e, ast.Call):
            return self.call_result_roots(fi, e, aliases, depth)
        if isinstance(e, ast.IfExp):
            return self.root_of(fi, e.body, aliases, depth + 1) | self.root_of(fi, e.orelse, aliases, depth + 1)
        if isinstance(e, ast.BoolOp):
            out = set()
            for v in e.values:
                out |= self.root_of(fi, v, aliases, depth + 1)
            return out
        return {('fresh',)}                  # displays, constants, comprehensions, arithmetic: new objects

    def _locals(self, fi):
        c = getattr(fi, '_loc', None)
        if c is None:
            c = fi._loc = self.local_names(fi)
        return c

    def call_result_roots(self, fi, call, aliases, depth, pos=None):
        callees = self.resolve(fi, call, aliases)
        out = set()
        if not callees:
            name = (src.call_name(call) or '').split('.')[-1]
            # x[:] / copy idioms are Subscript, not Call; unknown calls: builtins and stdlib return fresh objects,
            # a method call on an object (x.get(...), x.values()) may return part of x
            if isinstance(call.func, ast.Attribute) and name not in FRESH_CALLS and name not in ('copy', 'encode', 'decode', 'join',
                                                                                               'format', 'lower', 'upper', 'strip',
                                                                                               'rstrip', 'lstrip', 'split', 'replace',
                                                                                               'translate', 'getvalue', 'tell', 'find',
                                                                                               'rfind', 'index', 'count', 'startswith',
                                                                                               'endswith', 'strftime', 'items', 'keys',
                                                                                               'values', 'hex', 'isdigit', 'match', 'sub',
                                                                                               'lookup', 'compress', 'b64encode', 'crc32',
                                                                                               'wrap', 'parse_args', 'add_argument',
                                                                                               'add_argument_group', 'unpack'):
                return self.root_of(fi, call.func.value, aliases, depth + 1)
            return {('fresh',)}
        for g in callees:
            ras = g.returns_alias
            if pos is not None and g.returns_pos is not None and pos < len(g.returns_pos):
                ras = g.returns_pos[pos]
            if not ras:
                out.add(('fresh',))
            for ra in ras:
                if ra.startswith('global:'):
                    out.add(('global', ra[7:]))
                else:
                    arg = self.arg_for(g, call, ra)
                    if arg is not None:
                        out |= self.root_of(fi, arg, aliases, depth + 1)
                    else:
                        out.add(('fresh',))
        return out or {('fresh',)}

    # -- call resolution -------------------------------------------------------------------------
    def resolve(self, fi, call, aliases):
        d = src.call_name(call)
        if d is None:
            return []
        parts = d.split('.')
        head = parts[0]
        # alias of a bound method / function: `append_bits = buff.append_bits`
        if head in aliases and len(parts) == 1:
            out = []
            for a in aliases[head]:
                if a is not None and isinstance(a, (ast.Attribute, ast.Name)):
                    fake = ast.Call(func=a, args=call.args, keywords=call.keywords)
                    out += self.resolve(fi, fake, {k: v for k, v in aliases.items() if k != head})
            return out
        if len(parts) == 1:
            # nested function of this or an enclosing function, then module-level function, then imported name
            scope = fi
            while scope is not None:
                k = (fi.mod, f'{scope.qual}.{head}')
                if k in self.fns:
                    return [self.fns[k]]
                scope = self.enclosing(scope)
            if (fi.mod, head) in self.fns:
                return self._through_decorators(self.fns[(fi.mod, head)])
            imp = self.imports[fi.mod].get(head)
            if imp and imp[0] == 'name' and (imp[1], imp[2]) in self.fns:
                return self._through_decorators(self.fns[(imp[1], imp[2])])
            # class constructor
            for cname in (head,):
                k = (fi.mod, f'{cname}.__init__')
                if k in self.fns:
                    return [self.fns[k]]
                k = (fi.mod, f'{cname}.__new__')
                if k in self.fns:
                    return [self.fns[k]]
            # decorated function parameter `f` inside a decorator wrapper: all functions decorated with the decorator
            if head in fi.params or self._is_free_param(fi, head):
                return self._decorated_targets(fi, head)
            return []
        imp = self.imports[fi.mod].get(head) or self.local_imports[fi.key].get(head)
        if imp and imp[0] == 'module' and head not in self._locals(fi) and len(parts) == 2:
            k = (imp[1], parts[1])
            if k in self.fns:
                return self._through_decorators(self.fns[k])
            k2 = (imp[1], f'{parts[1]}.__init__')
            if k2 in self.fns:
                return [self.fns[k2]]
            return []
        # method call on an object: every repository method of that name
        meth = parts[-1]
        if meth in self.methods and meth not in ('__init__', '__new__'):
            return list(self.methods[meth])
        return []

    def _through_decorators(self, g):
        """A module-level name bound to a decorated function denotes the decorator's wrapper."""
        out = [g]
        for d in g.node.decorator_list:
            dn = src.call_name(d) if isinstance(d, ast.Call) else src.dotted(d)
            if dn and (g.mod, dn) in self.fns:
                # wrapper = innermost nested function that calls the decorated function
                for k, w in self.fns.items():
                    if k[0] == g.mod and k[1].startswith(dn + '.') and k[1].count('.') >= 1 and w is not g:
                        out.append(w)
        return out

    def _is_free_param(self, fi, name):
        enc = self.enclosing(fi)
        while enc is not None:
            if name in enc.params:
                return True
            enc = self.enclosing(enc)
        return False

    def _decorated_targets(self, fi, name):
        top = fi.qual.split('.')[0]
        out = []
        for g in self.fns.values():
            for d in g.node.decorator_list:
                dn = src.call_name(d) if isinstance(d, ast.Call) else src.dotted(d)
                if dn == top and g.mod == fi.mod:
                    out.append(g)
        return out

    def arg_for(self, g, call, param):
        """The argument expression bound to parameter `param` of callee g at `call` (None if defaulted)."""
        params = list(g.params)
        is_method = isinstance(src.parent(g.node), ast.ClassDef) and g.node.name not in ('__new__',) and params and params[0] in ('self', 'cls')
        if is_method and g.node.name != '__init__':
            if param == params[0]:
                return call.func.value if isinstance(call.func, ast.Attribute) else None
            params = params[1:]
        elif is_method and g.node.name == '__init__':
            if param == params[0]:
                return None
            params = params[1:]
        elif g.node.name == '__new__' and params and params[0] == 'cls':
            params = params[1:]
        for i, a in enumerate(call.args):
            if isinstance(a, ast.Starred):
                return a.value if param in params[i:] or param == g.vararg else None
            if i < len(params) and params[i] == param:
                return a
            if i >= len(params) and param == g.vararg:
                return a
        for k in call.keywords:
            if k.arg == param:
                return k.value
        return None

    # -- the analysis ------------------------------------------------------------------------------
    def aliases_of(self, fi):
        """{local name: [value expressions]} for plain assignments, loop targets and with-targets."""
        al = {}

        def add(tgt, val):
            if isinstance(tgt, ast.Name):
                al.setdefault(tgt.id, []).append(val)
            elif isinstance(tgt, (ast.Tuple, ast.List)):
                for i, t in enumerate(tgt.elts):
                    if isinstance(val, (ast.Tuple, ast.List)) and len(val.elts) == len(tgt.elts):
                        add(t, val.elts[i])
                    elif isinstance(val, ast.Call):
                        sub = ast.Subscript(value=val, slice=ast.Constant(i), ctx=ast.Load())
                        sub._pos = i
                        add(t, sub)
                    else:
                        add(t, val)
        for n in src.walk_local(fi.node):
            if isinstance(n, ast.Assign):
                for t in n.targets:
                    add(t, n.value)
            elif isinstance(n, ast.AnnAssign) and n.value is not None:
                add(n.target, n.value)
            elif isinstance(n, ast.For):
                add(n.target, n.iter)
            elif isinstance(n, ast.comprehension):
                add(n.target, n.iter)
            elif isinstance(n, ast.With):
                for it in n.items:
                    if it.optional_vars is not None:
                        add(it.optional_vars, it.context_expr)
            elif isinstance(n, ast.NamedExpr):
                add(n.target, n.value)
        # iteration yields elements: `for row in matrix` -> row is part of matrix; enumerate/zip/reversed pass through
        out = {}
        for k, vals in al.items():
            res = []
            for v in vals:
                while isinstance(v, ast.Call) and src.call_name(v) in ('enumerate', 'reversed', 'iter', 'zip') and v.args:
                    v = v.args[0]
                res.append(v)
            out[k] = res
        return out

    def _direct(self, fi):
        al = self.aliases_of(fi)
        fi._aliases = al
        sites = []
        for n in src.walk_local(fi.node):
            tgt = None
            what = None
            if isinstance(n, ast.Assign):
                for t in n.targets:
                    for tt in (t.elts if isinstance(t, (ast.Tuple, ast.List)) else [t]):
                        if isinstance(tt, (ast.Subscript, ast.Attribute)):
                            sites.append((tt.value, n, f'store {ast.unparse(tt)} = ...'))
            elif isinstance(n, ast.AugAssign) and isinstance(n.target, (ast.Subscript, ast.Attribute)):
                sites.append((n.target.value, n, f'augmented store {ast.unparse(n.target)}'))
            elif isinstance(n, ast.Delete):
                for t in n.targets:
                    if isinstance(t, (ast.Subscript, ast.Attribute)):
                        sites.append((t.value, n, f'del {ast.unparse(t)}'))
            elif isinstance(n, ast.Call) and isinstance(n.func, ast.Attribute) and n.func.attr in MUTATORS:
                sites.append((n.func.value, n, f'call {ast.unparse(n.func)}(...)'))
            elif isinstance(n, ast.Call) and isinstance(n.func, ast.Name) and n.func.id in al:
                # alias of a bound mutator: write = buff.extend
                for a in al[n.func.id]:
                    if isinstance(a, ast.Attribute) and a.attr in MUTATORS:
                        sites.append((a.value, n, f'call {n.func.id} (= {ast.unparse(a)})(...)'))
        fi.sites = len(sites)
        for recv, node, desc in sites:
            self._record(fi, recv, node, desc, al)

    def _record(self, fi, recv, node, desc, al):
        for r in self.root_of(fi, recv, al):
            ent = (getattr(node, 'lineno', 0), desc)
            if r[0] == 'param':
                fi.mut_params.setdefault(r[1], []).append(ent)
            elif r[0] == 'global':
                fi.mut_globals.setdefault(r[1], []).append(ent)
            elif r[0] == 'free':
                fi.mut_free.setdefault(r[1], []).append(ent)

    def _returns(self, fi):
        al = fi._aliases
        rets = [n for n in src.walk_local(fi.node) if isinstance(n, ast.Return) and n.value is not None]
        if rets and all(isinstance(r.value, ast.Tuple) for r in rets) and len({len(r.value.elts) for r in rets}) == 1:
            pos = [set() for _ in rets[0].value.elts]
            for r in rets:
                for i, v in enumerate(r.value.elts):
                    if isinstance(v, (ast.Constant, ast.JoinedStr, ast.Compare, ast.BinOp, ast.UnaryOp)):
                        continue
                    for rt in self.root_of(fi, v, al):
                        if rt[0] == 'param':
                            pos[i].add(rt[1])
                        elif rt[0] == 'global':
                            pos[i].add('global:' + rt[1])
            fi.returns_pos = pos
        for n in src.walk_local(fi.node):
            if isinstance(n, (ast.Return, ast.Yield)) and n.value is not None:
                vals = n.value.elts if isinstance(n.value, ast.Tuple) else [n.value]
                for v in vals:
                    if isinstance(v, (ast.Constant, ast.JoinedStr, ast.Compare, ast.BinOp, ast.UnaryOp)):
                        continue
                    for r in self.root_of(fi, v, al):
                        if r[0] == 'param':
                            fi.returns_alias.add(r[1])
                        elif r[0] == 'global':
                            fi.returns_alias.add('global:' + r[1])

    def _analyse(self):
        for fi in self.fns.values():
            self._direct(fi)
        # call sites
        for fi in self.fns.values():
            for n in src.walk_local(fi.node):
                if isinstance(n, ast.Call):
                    cs = self.resolve(fi, n, fi._aliases)
                    if cs:
                        fi.calls.append((n, cs))
        changed = True
        rounds = 0
        while changed and rounds < 30:
            changed = False
            rounds += 1
            for fi in self.fns.values():
                before = (len(fi.returns_alias), sum(map(len, fi.mut_params.values())), sum(map(len, fi.mut_globals.values())),
                          sum(map(len, fi.mut_free.values())))
                self._returns(fi)
                for call, callees in fi.calls:
                    for g in callees:
                        for p, ents in list(g.mut_params.items()):
                            arg = self.arg_for(g, call, p)
                            if arg is None:
                                continue
                            desc = f'call {ast.unparse(call.func)}(...) -> {g.name} mutates its parameter {p}'
                            key = (call.lineno, desc)
                            for r in self.root_of(fi, arg, fi._aliases):
                                bucket = {'param': fi.mut_params, 'global': fi.mut_globals, 'free': fi.mut_free}.get(r[0])
                                if bucket is not None and key not in bucket.setdefault(r[1], []):
                                    bucket[r[1]].append(key)
                        for gname, ents in list(g.mut_globals.items()):
                            key = (call.lineno, f'call {ast.unparse(call.func)}(...) -> {g.name} mutates {gname}')
                            if key not in fi.mut_globals.setdefault(gname, []):
                                fi.mut_globals[gname].append(key)
                        # a nested function mutating a free variable that is this function's parameter/global
                        for fv, ents in list(g.mut_free.items()):
                            if self.enclosing(g) is fi or self._is_ancestor(fi, g):
                                key = (call.lineno, f'call {ast.unparse(call.func)}(...) -> {g.name} mutates enclosing variable {fv}')
                                for r in self.root_of(fi, ast.Name(id=fv, ctx=ast.Load()), fi._aliases):
                                    bucket = {'param': fi.mut_params, 'global': fi.mut_globals, 'free': fi.mut_free}.get(r[0])
                                    if bucket is not None and key not in bucket.setdefault(r[1], []):
                                        bucket[r[1]].append(key)
                after = (len(fi.returns_alias), sum(map(len, fi.mut_params.values())), sum(map(len, fi.mut_globals.values())),
                         sum(map(len, fi.mut_free.values())))
                if after != before:
                    changed = True
        self.rounds = rounds

    def _is_ancestor(self, anc, fi):
        e = self.enclosing(fi)
        while e is not None:
            if e is anc:
                return True
            e = self.enclosing(e)
        return False

    def reachable(self, roots):
        seen = set()
        stack = [self.fns[r] for r in roots if r in self.fns]
        while stack:
            f = stack.pop()
            if f.key in seen:
                continue
            seen.add(f.key)
            for call, cs in f.calls:
                stack.extend(cs)
            # nested functions defined inside are reachable when the outer one runs
            for k, g in self.fns.items():
                if k[0] == f.mod and k[1].startswith(f.qual + '.') and k not in seen:
                    stack.append(g)
        return seen

    def call_cycles(self):
        """Strongly connected components with more than one function, or self-recursive functions."""
        graph = {}
        for k, f in self.fns.items():
            tg = set()
            for call, cs in f.calls:
                d = src.call_name(call) or ''
                by_name_only = '.' in d and d.split('.')[0] not in self.imports[f.mod] and d.split('.')[0] != 'self' \
                    and d.split('.')[0] not in self.local_imports[f.key]
                if isinstance(call.func, ast.Attribute) and not isinstance(call.func.value, ast.Name):
                    by_name_only = True
                for g in cs:
                    if by_name_only and len(cs) > 1:
                        continue        # ambiguous method-by-name resolution is not evidence of recursion
                    if by_name_only and isinstance(call.func, ast.Attribute) and isinstance(call.func.value, ast.Attribute):
                        continue        # self._data.extend(...): receiver is a field, not an instance of the defining class
                    tg.add(g.key)
            graph[k] = tg
        index, low, onstack, stack, out = {}, {}, set(), [], []
        counter = [0]

        def strong(v):
            index[v] = low[v] = counter[0]
            counter[0] += 1
            stack.append(v)
            onstack.add(v)
            for w in graph.get(v, ()):
                if w not in index:
                    strong(w)
                    low[v] = min(low[v], low[w])
                elif w in onstack:
                    low[v] = min(low[v], index[w])
            if low[v] == index[v]:
                comp = []
                while True:
                    w = stack.pop()
                    onstack.discard(w)
                    comp.append(w)
                    if w == v:
                        break
                if len(comp) > 1 or v in graph.get(v, ()):
                    out.append(comp)
        import sys
        sys.setrecursionlimit(10000)
        for v in graph:
            if v not in index:
                strong(v)
        return out


def program(forest):
    if 'eff' not in forest._cache:
        forest._cache['eff'] = Program(forest)
    return forest._cache['eff']
