#!/bin/sh
# usage: seedtest.sh <patch.diff> <Cxx> [more props]  -- apply a seeded patch to /repo, run quick checks, undo
patch="$1"; shift
git -C /repo apply "$patch" || { echo "PATCH DOES NOT APPLY: $patch"; exit 3; }
for p in "$@"; do
  /venv/bin/python -m vstatic.check "$p" >/tmp/seedrun/out.$$ 2>&1
  rc=$?
  echo "== $p exit=$rc"; grep -A3 -E "^(VIOLATION|ANALYSIS-ERROR)" /tmp/seedrun/out.$$ | head -${LINES_MAX:-12} | cut -c1-260
done
rm -f /tmp/seedrun/out.$$
git -C /repo checkout -- . 
