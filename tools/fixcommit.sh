#!/bin/sh
# usage: fixcommit.sh "fix: message"   -- runs the pinned suite on /repo and commits if 1576 pass
cd /repo || exit 1
out=$(/venv/bin/python -m pytest -q -p no:cacheprovider 2>&1 | tail -1)
echo "$out"
case "$out" in
  *"1576 passed"*) git add -A segno && git commit -q -m "$1" && git log --oneline | head -1;;
  *) echo "NOT COMMITTED"; exit 1;;
esac
