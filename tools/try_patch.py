#!/venv/bin/python
"""try_patch.py <patch.diff> <prop>[,<prop>...] [rules]: apply a patch to /repo's sources in memory and print what the rules say."""
import os
import sys
import traceback

sys.path.insert(0, os.path.dirname(os.path.dirname(os.path.abspath(__file__))))
from vstatic import core, mut, src  # noqa: E402
from vstatic import props  # noqa: E402,F401

if os.environ.get('RAISE_TB'):       # RAISE_TB=AttributeError: Python stack at every modelled raise of that exception
    from vstatic import ev as _ev
    _orig = _ev.PyRaise.__init__

    def _init(self, *a, **k):
        _orig(self, *a, **k)
        if getattr(self, 'name', '') == os.environ['RAISE_TB']:
            print('--- modelled raise:', self, file=sys.stderr)
            traceback.print_stack(limit=int(os.environ.get('RAISE_TB_DEPTH', '10')))
    _ev.PyRaise.__init__ = _init
path, plist = sys.argv[1:3]
only = sys.argv[3].split(',') if len(sys.argv) > 3 else None
base = src.Forest.load()
f = base
for m, text in mut.apply_patch_text(base.sources, open(path, encoding='utf-8').read()).items():
    f = f.with_source(m, text)
known = core.load_known()
for prop in (sorted(core.RULES) if plist == 'all' else plist.split(',')):
    fx, res = core.run_rules(f, prop, 'quick', only)
    info = getattr(fx.forest, 'canon_info', None) if hasattr(fx, 'forest') else None
    n = 0
    for rr in res:
        if rr.unknown:
            print('UNKNOWN', rr.rule.full, rr.unknown[:300])
            if os.environ.get('TB') and getattr(rr, 'trace', None):
                print(rr.trace)
        for o in rr.obs:
            if not o.ok and not any(core.finding_matches(e, o) for e in known):
                n += 1
                if n <= int(os.environ.get('MAXV', '6')):
                    print('VIOLATED', o.rule, o.where, f'[{o.key[:90]}]', 'got:', str(o.got)[:200], '| want:', str(o.want)[:120])
    print(prop, 'violations:', n)
if os.environ.get('CANON'):
    print(getattr(fx.forest if hasattr(fx, 'forest') else f, 'canon_info', None))
