#!/venv/bin/python
"""Run breaking changes that are still under $BREAK_ROOT/Cxx/_out/<x>/patch.diff (not yet verified / kept) against the checks
of their property, in memory."""
import concurrent.futures as cf
import glob
import os
import sys

sys.path.insert(0, os.path.dirname(os.path.dirname(os.path.abspath(__file__))))
from vstatic import core, mut, src  # noqa: E402
from vstatic import props  # noqa: E402,F401


def one(path):
    parts = path.split(os.sep)
    prop, name = parts[-4], f'{parts[-4]}-{parts[-2]}'
    base = src.Forest.load()
    try:
        srcs = mut.apply_patch_text(base.sources, open(path, encoding='utf-8').read())
    except Exception as ex:
        return name, 'patch does not apply', [], [str(ex)[:80]], ''
    f = base
    for m, text in srcs.items():
        f = f.with_source(m, text)
    known = core.load_known()
    viol, unk, first = [], [], ''
    plist = [prop] if os.environ.get('ALL_PROPS') != '1' else sorted(core.RULES)
    for p in plist:
        fx, results = core.run_rules(f, p, 'quick')
        for rr in results:
            if rr.unknown:
                unk.append(f'{rr.rule.full}: {rr.unknown[:120]}')
            for o in rr.obs:
                if not o.ok and not any(core.finding_matches(e, o) for e in known):
                    if o.rule not in viol:
                        viol.append(o.rule)
                    if not first:
                        first = f'{o.rule} [{o.key[:70]}] got: {str(o.got)[:140]}'
    return name, ('VIOLATION' if viol else ('ANALYSIS-ERROR' if unk else 'not reported')), viol, unk, first


def main():
    root = os.environ.get('BREAK_ROOT', '/tmp/r4/break')
    paths = sorted(glob.glob(os.path.join(root, 'C*', '_out', '*', 'patch.diff')))
    n = {}
    with cf.ProcessPoolExecutor(max_workers=8) as ex:
        for name, verdict, viol, unk, first in ex.map(one, paths):
            n[verdict] = n.get(verdict, 0) + 1
            print(f'{name:8} {verdict:15} {",".join(viol)}')
            if verdict != 'VIOLATION':
                for u in unk[:3]:
                    print('       UNKNOWN', u)
            else:
                print('      ', first)
    print(n)


if __name__ == '__main__':
    main()
