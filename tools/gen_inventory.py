#!/venv/bin/python
"""Freeze the reference inventory (functions, classes, module-level names per module) of /repo's current tree into
vstatic/inventory.json.  Run only when the rule instances have been re-confirmed against that tree."""
import json
import os
import sys

sys.path.insert(0, os.path.dirname(os.path.dirname(os.path.abspath(__file__))))
from vstatic import canon, src  # noqa: E402

inv = canon.build_inventory(src.Forest.load())
json.dump(inv, open(os.path.join(os.path.dirname(canon.__file__), 'inventory.json'), 'w'), indent=1, sort_keys=True)
print({m: (len(v['functions']), len(v['names'])) for m, v in inv.items()})
