#!/venv/bin/python
"""try_variant.py <prop> <module> <old text> <new text> [rules]: apply one textual replacement to a module of /repo in memory and
print what the rules of <prop> say.  A quick way to confirm that a rule fires on a specific breaking edit."""
import os
import sys

sys.path.insert(0, os.path.dirname(os.path.dirname(os.path.abspath(__file__))))
from vstatic import core, src  # noqa: E402
from vstatic import props  # noqa: E402,F401

prop, mod, old, new = sys.argv[1:5]
only = sys.argv[5].split(',') if len(sys.argv) > 5 else None
f = src.Forest.load()
text = f.sources[mod]
assert text.count(old) >= 1, 'old text not found'
f = f.with_source(mod, text.replace(old, new, 1))
fx, res = core.run_rules(f, prop, 'quick', only)
known = core.load_known()
n = 0
for rr in res:
    if rr.unknown:
        print('UNKNOWN', rr.rule.full, rr.unknown[:200])
    for o in rr.obs:
        if not o.ok and not any(core.finding_matches(e, o) for e in known):
            n += 1
            if n <= 6:
                print('VIOLATED', o.rule, o.where, f'[{o.key[:90]}]', 'got:', str(o.got)[:160], '| want:', str(o.want)[:100])
print('violations:', n)
