#!/venv/bin/python
"""For every `fix:` commit in /repo: reverse-apply it to the current module sources in memory and report which rules
of which properties report a violation (the defect returns -> the check must fire again)."""
import concurrent.futures as cf
import json
import os
import subprocess
import sys

sys.path.insert(0, os.path.dirname(os.path.dirname(os.path.abspath(__file__))))
from vstatic import core, mut, src  # noqa: E402
from vstatic import props  # noqa: E402,F401


def one(args):
    commit, subject = args
    rev = subprocess.run(['git', '-C', '/repo', 'diff', commit, commit + '~1', '--', 'segno'], capture_output=True, text=True).stdout
    base = src.Forest.load()
    skipped = []
    try:
        srcs = mut.apply_patch_text(base.sources, rev, skip_failing=True, skipped=skipped)
    except Exception as ex:
        return commit, subject, None, f'reverse patch does not apply in memory: {ex}'
    if all(srcs[m] == base.sources[m] for m in srcs):
        return commit, subject, None, f'no hunk of the reverse patch applies any more: {skipped}'
    f = base
    for m, text in srcs.items():
        f = f.with_source(m, text)
    known = core.load_known()
    fired = {}
    for prop in sorted(core.RULES):
        fx, results = core.run_rules(f, prop, 'quick')
        for rr in results:
            for o in rr.obs:
                if not o.ok and not any(core.finding_matches(e, o) for e in known):
                    fired.setdefault(o.rule, o.key[:80])
    return commit, subject, fired, (f'partially reverted (later fixes touch the same lines): skipped {skipped}' if skipped else '')


def main():
    log = subprocess.run(['git', '-C', '/repo', 'log', '--format=%h %s', '--grep=^fix:'], capture_output=True, text=True).stdout.strip().splitlines()
    commits = [tuple(l.split(' ', 1)) for l in reversed(log)]
    out = []
    with cf.ProcessPoolExecutor(max_workers=12) as ex:
        for commit, subject, fired, err in ex.map(one, commits):
            rules = sorted(fired) if fired else []
            print(f'{commit} {"FIRES " + ", ".join(rules) if rules else "NOT DETECTED " + err} | {subject[:70]}')
            out.append({'commit': commit, 'subject': subject, 'rules_firing_when_reverted': rules, 'note': err})
    json.dump(out, open(os.path.join(core.VERIF, 'seeded', 'reverted_fixes.json'), 'w'), indent=1)
    print(sum(1 for o in out if o['rules_firing_when_reverted']), 'of', len(out), 'reverted fixes are reported')


if __name__ == '__main__':
    main()
