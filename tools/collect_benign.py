#!/venv/bin/python
"""Verify the behaviour-preserving refactorings produced by independent sub-agents ($BENIGN_ROOT/Cxx/_out/rN) against /repo's
current HEAD and keep them under /verif/benign/<id>/ (patch.diff rebased to HEAD, equiv.py, meta.json).

For each: scratch worktree of HEAD outside /repo and /verif -> apply the patch (with reduced context if later fixes moved the
surroundings) -> pinned suite must pass -> the agent's equivalence script must find no difference between the patched tree and a
clean export of HEAD -> regenerate the diff -> remove the worktree."""
import concurrent.futures as cf
import glob
import json
import os
import shutil
import subprocess
import sys

VERIF = os.path.dirname(os.path.dirname(os.path.abspath(__file__)))
ROOT = os.environ.get('BENIGN_ROOT', '/tmp/benign')
WORK = '/tmp/bverify'
PY = '/venv/bin/python'


def sh(cmd, cwd=None, env=None, timeout=1800):
    p = subprocess.run(cmd, cwd=cwd, env=env, shell=isinstance(cmd, str), capture_output=True, text=True, timeout=timeout)
    return p.returncode, (p.stdout + p.stderr)


def one(path):
    d = os.path.dirname(path)
    prop = d.split(os.sep)[-3]
    rid = f'{prop}-{os.path.basename(d)}'
    wt = os.path.join(WORK, rid)
    out = {'id': rid, 'property': prop}
    try:
        sh(['git', '-C', '/repo', 'worktree', 'remove', '--force', wt])
        rc, o = sh(['git', '-C', '/repo', 'worktree', 'add', '--detach', wt, 'HEAD'])
        if rc:
            out['error'] = 'worktree: ' + o[-200:]
            return out
        manual = os.path.join(VERIF, 'benign', rid, 'patch.diff')
        use = manual if os.path.exists(manual) and os.environ.get('PREFER_KEPT') == '1' else path
        rc, o = sh(['git', 'apply', use], cwd=wt)
        how = 'git apply'
        if rc:
            rc, o = sh(['git', 'apply', '-C1', use], cwd=wt)
            how = 'git apply -C1 (context reduced: later fixes changed neighbouring lines)'
        if rc:
            rc, o = sh(f'patch -p1 --fuzz=3 --no-backup-if-mismatch < {use}', cwd=wt)
            how = 'patch --fuzz=3'
        if rc:
            out['error'] = 'patch does not apply to HEAD: ' + o[-300:]
            return out
        out['applied_with'] = how
        rc, diff = sh(['git', 'diff'], cwd=wt)
        env = dict(os.environ, PYTHONPATH=wt)
        rc, o = sh([PY, '-m', 'pytest', '-q', '-p', 'no:cacheprovider', '-x'], cwd=wt, env=env)
        tail = [ln for ln in o.strip().splitlines() if 'passed' in ln or 'failed' in ln or 'error' in ln.lower()][-1:]
        out['suite'] = tail[0] if tail else o[-200:]
        if rc or '1576 passed' not in out['suite']:
            out['error'] = 'pinned suite: ' + out['suite']
            return out
        orig = os.path.join(WORK, 'orig')
        eq = os.path.join(d, 'equiv.py')
        rc, o = sh([PY, eq], cwd=d, env=dict(os.environ, SEGNO_SRC=wt, SEGNO_ORIG=orig), timeout=1800)
        out['equiv_exit'] = rc
        out['equiv_says'] = o.strip().splitlines()[-1][:200] if o.strip() else ''
        if rc:
            out['error'] = 'equivalence script: ' + out['equiv_says']
            return out
        dst = os.path.join(VERIF, 'benign', rid)
        os.makedirs(dst, exist_ok=True)
        open(os.path.join(dst, 'patch.diff'), 'w').write(diff)
        shutil.copy(eq, os.path.join(dst, 'equiv.py'))
        meta = {}
        try:
            meta = json.load(open(os.path.join(d, 'meta.json')))
        except Exception:
            pass
        meta.update({'id': rid, 'origin': 'independent sub-agent given only the property text and a scratch worktree',
                     'verified_by_me': {'base_commit': subprocess.check_output(['git', '-C', '/repo', 'rev-parse', '--short', 'HEAD'], text=True).strip(),
                                        'applied_with': how, 'pinned_suite_with_patch': out['suite'], 'equiv_exit': rc, 'equiv_says': out['equiv_says']}})
        json.dump(meta, open(os.path.join(dst, 'meta.json'), 'w'), indent=1, ensure_ascii=False)
        out['kept'] = True
        return out
    finally:
        sh(['git', '-C', '/repo', 'worktree', 'remove', '--force', wt])
        shutil.rmtree(wt, ignore_errors=True)


def main():
    os.makedirs(WORK, exist_ok=True)
    orig = os.path.join(WORK, 'orig')
    shutil.rmtree(orig, ignore_errors=True)
    os.makedirs(orig)
    subprocess.run(f'git -C /repo archive HEAD segno | tar -x -C {orig}', shell=True, check=True)
    only = sys.argv[1:]
    paths = sorted(glob.glob(os.path.join(ROOT, 'C*', '_out', 'r*', 'patch.diff')))
    if only:
        paths = [p for p in paths if any(f'{p.split(os.sep)[-4]}-{p.split(os.sep)[-2]}' == o for o in only)]
    res = []
    with cf.ThreadPoolExecutor(max_workers=6) as ex:
        for r in ex.map(one, paths):
            print(r['id'], 'KEPT' if r.get('kept') else 'REJECTED', r.get('error', ''), '|', r.get('suite', ''), '|', r.get('equiv_says', ''))
            res.append(r)
    shutil.rmtree(orig, ignore_errors=True)
    subprocess.run(['git', '-C', '/repo', 'worktree', 'prune'])
    print(sum(1 for r in res if r.get('kept')), 'of', len(res), 'kept')


if __name__ == '__main__':
    main()
